(* RewriteP.v - slice regex (property C18): lemmas about the textual rewrite of Rewrite.v. *)
From LY Require Import Base Rewrite.
From Coq Require Import ZifyBool ZifyNat ZifyN.
Local Open Scope N_scope.

(* ---- strstr ------------------------------------------------------------------------------------ *)
(* some suffix of s starts with nd *)
Fixpoint has_sub (nd s : bytes) : bool :=
  starts_with nd s || match s with [] => false | _ :: s' => has_sub nd s' end.

Lemma find_sub_none nd s : find_sub nd s = None <-> has_sub nd s = false.
Proof.
  induction s as [|c s IH].
  - cbn [find_sub has_sub]. destruct (starts_with nd []); cbn; split; congruence.
  - cbn [find_sub has_sub]. destruct (starts_with nd (c :: s)); cbn [orb].
    + split; discriminate.
    + destruct (find_sub nd s) as [[b a]|].
      * split; [discriminate|]. intro H. apply IH in H. discriminate.
      * split; [intros _; apply IH; reflexivity|reflexivity].
Qed.

(* ---- single steps of esc_pass ------------------------------------------------------------------ *)
Lemma anchor_cases c : is_anchor c = true -> c = 36 \/ c = 94.
Proof. unfold is_anchor. lia. Qed.

Lemma esc_plain brack c tail o :
  c <> 92 -> c <> 91 -> c <> 93 -> (is_anchor c = false \/ brack <> 0) ->
  esc_pass brack false tail = Ok o ->
  esc_pass brack false (c :: tail) = Ok (c :: o).
Proof.
  intros H92 H91 H93 Ha Ht. cbn [esc_pass].
  apply N.eqb_neq in H92, H91, H93. rewrite H92, H91, H93.
  destruct (is_anchor c) eqn:Hanc.
  - destruct Ha as [Ha|Ha]; [discriminate|]. apply N.eqb_neq in Ha. rewrite Ht. cbn [bind]. rewrite Ha. reflexivity.
  - rewrite Ht. reflexivity.
Qed.

Lemma esc_anchor0 c tail o :
  is_anchor c = true -> esc_pass 0 false tail = Ok o ->
  esc_pass 0 false (c :: tail) = Ok (92 :: c :: o).
Proof.
  intros Ha Ht. cbn [esc_pass]. rewrite Ha.
  assert (H92 : (c =? 92) = false) by (apply anchor_cases in Ha; lia).
  rewrite H92, Ht. reflexivity.
Qed.

(* a backslash and the byte after it, where that byte is not an anchor outside brackets *)
Lemma esc_pair brack x tail o :
  (is_anchor x = false \/ brack <> 0) ->
  esc_pass brack false tail = Ok o ->
  esc_pass brack false (92 :: x :: tail) = Ok (92 :: x :: o).
Proof.
  intros Ha Ht. cbn [esc_pass]. change (92 =? 92) with true. cbn [negb].
  destruct (x =? 92) eqn:H92.
  - apply N.eqb_eq in H92. subst x. cbn [negb]. rewrite Ht. reflexivity.
  - destruct (is_anchor x) eqn:Hanc.
    + destruct Ha as [Ha|Ha]; [discriminate|]. apply N.eqb_neq in Ha. rewrite Ht. cbn [bind]. rewrite Ha. reflexivity.
    + destruct (x =? 91) eqn:H91; [rewrite Ht; reflexivity|].
      destruct (x =? 93) eqn:H93.
      * rewrite andb_false_r. rewrite Ht. reflexivity.
      * rewrite Ht. reflexivity.
Qed.

Lemma esc_open brack tail o :
  esc_pass (brack + 1) false tail = Ok o -> esc_pass brack false (91 :: tail) = Ok (91 :: o).
Proof. intro Ht. cbn [esc_pass]. change (91 =? 92) with false. change (is_anchor 91) with false.
       change (91 =? 91) with true. rewrite Ht. reflexivity. Qed.

Lemma esc_close brack tail o :
  brack <> 0 -> esc_pass (brack - 1) false tail = Ok o -> esc_pass brack false (93 :: tail) = Ok (93 :: o).
Proof.
  intros Hb Ht. cbn [esc_pass]. change (93 =? 92) with false. change (is_anchor 93) with false.
  change (93 =? 91) with false. change (93 =? 93) with true.
  apply N.eqb_neq in Hb. rewrite Hb. cbn [andb]. rewrite Ht. reflexivity.
Qed.

(* ---- patterns without '^' and '$' ---------------------------------------------------------------- *)
Lemma esc_pass_noanchor p : forall brack escaped,
  (forall c, In c p -> is_anchor c = false) ->
  esc_pass brack escaped p = Ok p \/ esc_pass brack escaped p = Err 1.
Proof.
  induction p as [|c p IH]; intros brack escaped Hp; [left; reflexivity|].
  assert (Hc : is_anchor c = false) by (apply Hp; left; reflexivity).
  assert (Hp' : forall c', In c' p -> is_anchor c' = false) by (intros c' Hin; apply Hp; right; exact Hin).
  cbn [esc_pass]. rewrite Hc.
  destruct (c =? 92) eqn:H92.
  { apply N.eqb_eq in H92. subst c.
    destruct (IH brack (negb escaped) Hp') as [-> | ->]; [left|right]; reflexivity. }
  destruct (c =? 91) eqn:H91.
  { destruct (IH (if escaped then brack else brack + 1) false Hp') as [-> | ->]; [left|right]; reflexivity. }
  destruct (c =? 93) eqn:H93.
  { destruct ((brack =? 0) && negb escaped); [right; reflexivity|].
    destruct (IH (if escaped then brack else brack - 1) false Hp') as [-> | ->]; [left|right]; reflexivity. }
  destruct (IH brack false Hp') as [-> | ->]; [left|right]; reflexivity.
Qed.

Lemma chblocks_noblock fuel s : find_sub needle s = None -> chblocks (S fuel) s = Ok s.
Proof. intro H. cbn [chblocks]. unfold chblocks_step. rewrite H. reflexivity. Qed.

(* no '^', no '$', no \p{Is : the text handed to PCRE2 is the pattern itself (or the pattern is
   rejected for a ']' outside brackets) *)
Theorem rewrite_identity p :
  (forall c, In c p -> is_anchor c = false) -> find_sub needle p = None ->
  rewrite p = Ok p \/ rewrite p = Err 1.
Proof.
  intros Hp Hn. unfold rewrite.
  destruct (esc_pass_noanchor p 0 false Hp) as [-> | ->]; [left|right; reflexivity].
  cbn [bind]. apply chblocks_noblock. exact Hn.
Qed.

(* ---- patterns given as tokens -------------------------------------------------------------------- *)
(* inside brackets: a byte other than backslash and brackets, or a backslash and any byte *)
Inductive ctok : Type := CChar (c : N) | CEsc (x : N).
(* outside brackets: an ordinary byte, an unescaped anchor, a backslash and a byte that is not an
   anchor, or a bracket expression *)
Inductive tok : Type := TChar (c : N) | TAnchor (c : N) | TEsc (x : N) | TClass (body : list ctok).

Definition ctok_ok (t : ctok) : bool :=
  match t with
  | CChar c => negb (c =? 92) && negb (c =? 91) && negb (c =? 93)
  | CEsc _ => true
  end.

Definition tok_ok (t : tok) : bool :=
  match t with
  | TChar c => negb (c =? 92) && negb (c =? 91) && negb (c =? 93) && negb (is_anchor c)
  | TAnchor c => is_anchor c
  | TEsc x => negb (is_anchor x)
  | TClass body => forallb ctok_ok body
  end.

Definition render_ctok (t : ctok) : bytes :=
  match t with CChar c => [c] | CEsc x => [92; x] end.

(* the pattern text of a token / the expected text after the rewrite: one backslash in front of
   every anchor token, everything else unchanged *)
Definition render (t : tok) : bytes :=
  match t with
  | TChar c => [c]
  | TAnchor c => [c]
  | TEsc x => [92; x]
  | TClass body => 91 :: flat_map render_ctok body ++ [93]
  end.

Definition render_esc (t : tok) : bytes :=
  match t with
  | TAnchor c => [92; c]
  | _ => render t
  end.

Lemma esc_class_body body : forall brack rest o,
  forallb ctok_ok body = true -> brack <> 0 ->
  esc_pass brack false rest = Ok o ->
  esc_pass brack false (flat_map render_ctok body ++ rest) = Ok (flat_map render_ctok body ++ o).
Proof.
  induction body as [|t body IH]; intros brack rest o Hok Hb Hr; [exact Hr|].
  cbn [forallb] in Hok. apply andb_true_iff in Hok. destruct Hok as [Ht Hok].
  cbn [flat_map]. rewrite <- !app_assoc.
  specialize (IH brack rest o Hok Hb Hr).
  destruct t as [c|x]; cbn [render_ctok app].
  - cbn [ctok_ok] in Ht. apply esc_plain; try lia. exact IH.
  - apply esc_pair; [right; exact Hb|exact IH].
Qed.

Lemma esc_tokens ts : forall rest o,
  forallb tok_ok ts = true ->
  esc_pass 0 false rest = Ok o ->
  esc_pass 0 false (flat_map render ts ++ rest) = Ok (flat_map render_esc ts ++ o).
Proof.
  induction ts as [|t ts IH]; intros rest o Hok Hr; [exact Hr|].
  cbn [forallb] in Hok. apply andb_true_iff in Hok. destruct Hok as [Ht Hok].
  cbn [flat_map]. rewrite <- !app_assoc.
  specialize (IH rest o Hok Hr).
  destruct t as [c|c|x|body]; cbn [render render_esc app tok_ok] in *.
  - apply esc_plain; try lia. exact IH.
  - apply esc_anchor0; assumption.
  - apply esc_pair; [left; lia|exact IH].
  - rewrite <- app_assoc. cbn [app]. apply esc_open. cbn [N.add].
    rewrite <- app_assoc. cbn [app].
    apply esc_class_body; [exact Ht|lia|].
    apply esc_close; [lia|]. exact IH.
Qed.

(* inserting backslashes in front of anchors neither creates nor destroys an occurrence of \p{Is *)
Inductive ins : bytes -> bytes -> Prop :=
| ins_nil : ins [] []
| ins_copy c p o : ins p o -> ins (c :: p) (c :: o)
| ins_bs c p o : is_anchor c = true -> ins p o -> ins (c :: p) (92 :: c :: o).

Lemma ins_refl p : ins p p.
Proof. induction p; constructor; assumption. Qed.

Lemma ins_app a a' : ins a a' -> forall b b', ins b b' -> ins (a ++ b) (a' ++ b').
Proof. induction 1; intros b b' Hb; cbn [app]; try constructor; auto. Qed.

Lemma ins_tokens ts : forallb tok_ok ts = true -> ins (flat_map render ts) (flat_map render_esc ts).
Proof.
  induction ts as [|t ts IH]; intro Hok; [constructor|].
  cbn [forallb] in Hok. apply andb_true_iff in Hok. destruct Hok as [Ht Hok].
  cbn [flat_map]. apply ins_app; [|apply IH; exact Hok].
  destruct t; cbn [render render_esc]; try apply ins_refl.
  apply ins_bs; [exact Ht|constructor].
Qed.

(* a text without backslash and anchors is a prefix of p iff it is a prefix of o *)
Lemma ins_starts n : forall p o,
  ins p o -> (forall x, In x n -> x <> 92 /\ is_anchor x = false) ->
  starts_with n o = starts_with n p.
Proof.
  induction n as [|x n IH]; intros p o Hi Hn; [reflexivity|].
  assert (Hx : x <> 92 /\ is_anchor x = false) by (apply Hn; left; reflexivity).
  assert (Hn' : forall y, In y n -> y <> 92 /\ is_anchor y = false) by (intros y Hy; apply Hn; right; exact Hy).
  inversion Hi as [|c p' o' Hi'|c p' o' Hc Hi']; subst; cbn [starts_with].
  - reflexivity.
  - rewrite (IH _ _ Hi' Hn'). reflexivity.
  - destruct Hx as [Hx92 Hxa].
    assert ((x =? 92) = false) by lia.
    assert ((x =? c) = false) by (destruct (x =? c) eqn:E; [apply N.eqb_eq in E; congruence|reflexivity]).
    rewrite H, H0. reflexivity.
Qed.

Lemma needle_tail_plain : forall x, In x [112; 123; 73; 115] -> x <> 92 /\ is_anchor x = false.
Proof.
  intros x Hx. cbn [In] in Hx. unfold is_anchor.
  repeat (destruct Hx as [<-|Hx]; [split; [discriminate|reflexivity]|]). destruct Hx.
Qed.

Definition needle_tail : bytes := [112; 123; 73; 115].

Lemma starts_needle c s : starts_with needle (c :: s) = (92 =? c) && starts_with needle_tail s.
Proof. reflexivity. Qed.

Lemma starts_tail c s : starts_with needle_tail (c :: s) = (112 =? c) && starts_with [123; 73; 115] s.
Proof. reflexivity. Qed.

Lemma ins_has_sub p o : ins p o -> has_sub needle o = has_sub needle p.
Proof.
  induction 1 as [|c p o Hi IH|c p o Hc Hi IH].
  - reflexivity.
  - cbn [has_sub]. rewrite IH, !starts_needle. f_equal. f_equal.
    apply ins_starts; [exact Hi|exact needle_tail_plain].
  - cbn [has_sub]. rewrite IH, !starts_needle, starts_tail.
    apply anchor_cases in Hc.
    assert (H1 : (112 =? c) = false) by lia. assert (H2 : (92 =? c) = false) by lia.
    rewrite H1, H2. rewrite andb_false_r. reflexivity.
Qed.

(* a pattern made of ordinary bytes, escape pairs, bracket expressions and unescaped '^' / '$'
   outside brackets, without \p{Is : every such '^' / '$' gets exactly one backslash, nothing else
   changes *)
Theorem rewrite_caret_dollar ts :
  forallb tok_ok ts = true -> find_sub needle (flat_map render ts) = None ->
  rewrite (flat_map render ts) = Ok (flat_map render_esc ts).
Proof.
  intros Hok Hn. unfold rewrite.
  pose proof (esc_tokens ts [] [] Hok eq_refl) as He. rewrite !app_nil_r in He. rewrite He.
  cbn [bind]. apply chblocks_noblock.
  apply find_sub_none. rewrite (ins_has_sub _ _ (ins_tokens ts Hok)). apply find_sub_none. exact Hn.
Qed.

(* ---- list of patterns with invert-match ----------------------------------------------------------- *)
Section ValidateP.
  Variable code : Type.
  Variable code_match : code -> bytes -> res bool.

  (* a pattern restriction is satisfied iff (the string matches) xor (the pattern is inverted) *)
  Definition pat_sat (s : bytes) (p : pattern code) : bool :=
    match code_match (pat_code code p) s with
    | Ok m => xorb m (pat_inverted code p)
    | Err _ => false
    end.

  Lemma validate_patterns_spec ps s :
    (forall p, In p ps -> is_ok (code_match (pat_code code p) s) = true) ->
    validate_patterns code code_match ps s = Ok (forallb (pat_sat s) ps).
  Proof.
    induction ps as [|p ps IH]; intro Hok; [reflexivity|].
    cbn [validate_patterns forallb]. unfold pat_sat at 1.
    assert (Hp : is_ok (code_match (pat_code code p) s) = true) by (apply Hok; left; reflexivity).
    destruct (code_match (pat_code code p) s) as [m|e]; [|discriminate].
    destruct m, (pat_inverted code p); cbn [negb andb orb xorb];
      try reflexivity; apply IH; intros q Hq; apply Hok; right; exact Hq.
  Qed.

  Lemma validate_patterns_err ps s e :
    validate_patterns code code_match ps s = Err e ->
    exists p, In p ps /\ code_match (pat_code code p) s = Err e.
  Proof.
    induction ps as [|p ps IH]; cbn [validate_patterns]; [discriminate|].
    destruct (code_match (pat_code code p) s) as [m|e'] eqn:Hm.
    - destruct ((negb m && negb (pat_inverted code p)) || (m && pat_inverted code p)); [discriminate|].
      intro H. destruct (IH H) as (q & Hq & He). exists q. split; [right; exact Hq|exact He].
    - intro H. inversion H; subst e'. exists p. split; [left; reflexivity|exact Hm].
  Qed.
End ValidateP.
