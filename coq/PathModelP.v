(* PathModelP.v -- proofs about PathModel.v, part 2: for every node of every well-formed tree the printed path is
   compiled into the expected segments, their evaluation returns exactly that node, creation in the empty tree gives the
   spine of the node, creation in the tree itself reports LY_EEXIST. (Part 1, tokens and parser: PathModelLexP.v.) *)
From LY Require Import Base Utf8 PathQuote PathQuoteP PathModel PathModelLexP.
From Coq Require Import ZifyBool ZifyNat ZifyN.
Local Open Scope N_scope.

(* ---------- small facts ---------- *)
Lemma beq_refl a : beq_bytes a a = true.
Proof. apply beq_bytes_eq. reflexivity. Qed.

Lemma names_eqb_eq a : forall b, names_eqb a b = true -> a = b.
Proof.
  induction a as [|x a IH]; intros [|y b]; cbn [names_eqb]; intro H; try discriminate; [reflexivity|].
  apply andb_true_iff in H. destruct H as [H1 H2]. apply beq_bytes_eq in H1. rewrite (IH b H2). congruence.
Qed.

Lemma vtype_eqb_eq a b : vtype_eqb a b = true -> a = b.
Proof.
  destruct a as [|x| |x], b as [|y| |y]; cbn [vtype_eqb]; intro H; try discriminate; try reflexivity.
  - destruct x, y; try discriminate; reflexivity.
  - apply names_eqb_eq in H. congruence.
Qed.

Lemma kind_eqb_eq a b : kind_eqb a b = true -> a = b.
Proof.
  destruct a as [a1|a1 a2|a1 t1|a1 t1|], b as [b1|b1 b2|b1 t2|b1 t2|]; cbn [kind_eqb]; intro H; try discriminate; try reflexivity.
  - apply eqb_prop in H. congruence.
  - apply andb_true_iff in H. destruct H as [H1 H2]. apply eqb_prop in H1, H2. congruence.
  - apply andb_true_iff in H. destruct H as [H1 H2]. apply eqb_prop in H1. apply vtype_eqb_eq in H2. congruence.
  - apply andb_true_iff in H. destruct H as [H1 H2]. apply eqb_prop in H1. apply vtype_eqb_eq in H2. congruence.
Qed.

Lemma same_sn_eq m n x : same_sn m n x = true <-> m = d_m x /\ n = d_n x.
Proof. unfold same_sn. rewrite andb_true_iff, !beq_bytes_eq. tauto. Qed.

Lemma same_sn_self x : same_sn (d_m x) (d_n x) x = true.
Proof. apply same_sn_eq. auto. Qed.

Lemma find_child_some sc m n s : find_child sc m n = Some s -> In s sc /\ s_m s = m /\ s_n s = n.
Proof.
  induction sc as [|a sc IH]; cbn [find_child]; [discriminate|].
  destruct (beq_bytes m (s_m a) && beq_bytes n (s_n a)) eqn:E.
  - intro H. inversion H; subst a. apply andb_true_iff in E. destruct E as [E1 E2].
    apply beq_bytes_eq in E1, E2. split; [left; reflexivity|split; congruence].
  - intro H. destruct (IH H) as (Hin & Hm & Hn). split; [right; exact Hin|split; assumption].
Qed.

Lemma nth_split {A} (f : list A) i x :
  nth_error f i = Some x -> exists pre post, f = pre ++ x :: post /\ length pre = i /\ firstn i f = pre.
Proof.
  intro H. destruct (nth_error_split f i H) as (pre & post & E & L). exists pre, post.
  split; [exact E|split; [exact L|]]. subst f i. apply firstn_app_len.
Qed.

Lemma flat_map_map {A B C} (g : A -> B) (h : B -> list C) l : flat_map h (map g l) = flat_map (fun a => h (g a)) l.
Proof. induction l as [|a l IH]; cbn [map flat_map]; [reflexivity|]. rewrite IH. reflexivity. Qed.

Lemma lead_keys_in ch c : In c (lead_keys ch) -> In c ch /\ is_key_kind (d_k c) = true.
Proof.
  induction ch as [|a ch IH]; cbn [lead_keys]; [intros []|].
  destruct (is_key_kind (d_k a)) eqn:E; [|intros []].
  intros [<- | H]; [split; [left; reflexivity|exact E]|].
  destruct (IH H) as [H1 H2]. split; [right; exact H1|exact H2].
Qed.

Lemma lead_keys_prefix ch : exists rest, ch = lead_keys ch ++ rest.
Proof.
  induction ch as [|a ch [rest IH]]; [exists []; reflexivity|]. cbn [lead_keys].
  destruct (is_key_kind (d_k a)); [exists rest; cbn [app]; congruence|exists (a :: ch); reflexivity].
Qed.

(* ---------- what lyd_path() prints, as abstract segments ---------- *)
(* [var] gives the spelling of the value of a key / configuration leaf-list node that is written into the predicate:
   lyd_path() writes the stored canonical value ([var] = d_v); any other lexical form of the same value is a variant *)
Definition apred_of (var : dnode -> bytes) (before : list dnode) (x : dnode) : apred :=
  match d_k x with
  | KList true _ => APos (list_pos before x)
  | KList false _ => AKeys (map (fun c => (d_n c, var c)) (lead_keys (d_ch x)))
  | KLeafList true _ => ADot (var x)
  | KLeafList false _ => APos (list_pos before x)
  | _ => ANone
  end.
Definition aseg_of (var : dnode -> bytes) (pm : option bytes) (before : list dnode) (x : dnode) : aseg :=
  mk_aseg (if opt_is pm (d_m x) then None else Some (d_m x)) (d_n x) (apred_of var before x).

Fixpoint asegs (var : dnode -> bytes) (pm : option bytes) (f : list dnode) (p : list nat) : list aseg :=
  match p with
  | [] => []
  | i :: p' =>
      match nth_error f i with
      | None => []
      | Some x => aseg_of var pm (rev (firstn i f)) x :: asegs var (Some (d_m x)) (d_ch x) p'
      end
  end.

(* the path with the values spelled by [var] *)
Definition path_var (var : dnode -> bytes) (t : list dnode) (p : list nat) : bytes := render (asegs var None t p).

Lemma seg_bytes_render pm before x : seg_bytes pm before x = render_seg (aseg_of d_v pm before x).
Proof.
  unfold seg_bytes, render_seg, aseg_of. cbn [a_pfx a_n a_pred].
  assert (E : node_pred before x = render_pred (apred_of d_v before x)).
  { unfold node_pred, apred_of. destruct (d_k x) as [pr|[|] cw|[|] ty|ik ty|]; cbn [render_pred]; try reflexivity.
    unfold keys_pred. rewrite flat_map_map. reflexivity. }
  rewrite E. destruct (opt_is pm (d_m x)); reflexivity.
Qed.

Lemma path_from_render p : forall pm f x,
  node_at f p = Some x -> path_from pm f p = Some (render (asegs d_v pm f p)).
Proof.
  induction p as [|i p IH]; intros pm f x H; [discriminate|].
  cbn [node_at path_from asegs] in *. destruct (nth_error f i) as [y|]; [|discriminate].
  rewrite seg_bytes_render. destruct p as [|j p].
  - cbn [asegs render flat_map]. rewrite app_nil_r. reflexivity.
  - rewrite (IH (Some (d_m y)) (d_ch y) x H). reflexivity.
Qed.

(* ---------- the spelling of predicate values ---------- *)
(* the nodes whose value is written into a predicate *)
Definition needs_lit (k : pkind) : bool :=
  match k with KLeaf true _ | KLeafList true _ => true | _ => false end.

(* [var] spells the value of every such node of the tree as some lexical form of the stored canonical value, without
   both quote characters in it *)
Fixpoint var_ok_node (var : dnode -> bytes) (x : dnode) {struct x} : bool :=
  match x with
  | DN m n k v ch =>
      (if needs_lit k
       then match canon (kind_ty k) (var x) with Some cv => beq_bytes cv v | None => false end && one_quote (var x)
       else true) && forallb (var_ok_node var) ch
  end.
Definition var_ok (var : dnode -> bytes) (t : list dnode) : bool := forallb (var_ok_node var) t.

Section WithVar.
Variable var : dnode -> bytes.

(* ---------- well-formedness, unpacked ---------- *)
Definition nokeys_s (ch : list snode) : bool := forallb (fun c => negb (is_key_kind (s_k c))) ch.
Definition nokeys_d (ch : list dnode) : bool := forallb (fun c => negb (is_key_kind (d_k c))) ch.

(* one level of the induction: siblings f, all instances of children of sc *)
Record Level (sc : list snode) (f : list dnode) : Prop := mk_level {
  lv_swf : forallb swf_node sc = true;
  lv_dwf : forallb (dwf_node sc) f = true;
  lv_sibs : sibs_ok [] f = true;
  lv_len : N.of_nat (length f) < 2147483648;
  lv_q : forallb (var_ok_node var) f = true }.

Lemma top_level S t : swf S = true -> dwf S t = true -> var_ok var t = true -> Level S t /\ nokeys_d t = true.
Proof.
  unfold swf, dwf, var_ok. intros Hs Hd Hq.
  apply andb_true_iff in Hs. destruct Hs as [Hs _].
  apply andb_true_iff in Hd. destruct Hd as [Hd Hk].
  apply andb_true_iff in Hd. destruct Hd as [Hd Hf].
  apply andb_true_iff in Hd. destruct Hd as [Hsib Hlen].
  split; [|exact Hk]. constructor; try assumption. lia.
Qed.

(* what dwf_node says about one node *)
Record NodeOk (sc : list snode) (x : dnode) (s : snode) : Prop := mk_nodeok {
  no_find : find_child sc (d_m x) (d_n x) = Some s;
  no_m : s_m s = d_m x;
  no_n : s_n s = d_n x;
  no_k : s_k s = d_k x;
  no_val : match d_k x with
           | KCont _ | KList _ _ | KAny => d_v x = []
           | _ => canon (kind_ty (d_k x)) (d_v x) = Some (d_v x)
           end;
  no_ch : match d_k x with
          | KList false _ => keys_agree (lead_keys (d_ch x)) (schema_keys (s_ch s)) = true /\
                             nokeys_d (skipn (length (lead_keys (d_ch x))) (d_ch x)) = true
          | KCont _ | KList true _ => nokeys_d (d_ch x) = true
          | _ => d_ch x = []
          end }.

Lemma dwf_node_unpack sc x :
  dwf_node sc x = true ->
  exists s, NodeOk sc x s /\ sibs_ok [] (d_ch x) = true /\ N.of_nat (length (d_ch x)) < 2147483648 /\
            forallb (dwf_node (s_ch s)) (d_ch x) = true.
Proof.
  destruct x as [m n k v ch]. cbn [dwf_node d_m d_n d_k d_v d_ch].
  destruct (find_child sc m n) as [s|] eqn:Ef; [|discriminate].
  intro H. repeat (apply andb_true_iff in H; destruct H as [H ?]).
  exists s. destruct (find_child_some _ _ _ _ Ef) as (_ & Hm & Hn).
  apply kind_eqb_eq in H.
  split; [|split; [assumption|split; [lia|assumption]]].
  constructor; cbn [d_m d_n d_k d_v d_ch]; try assumption.
  - assert (Hc : forall ty, match canon ty v with Some cv => beq_bytes cv v | None => false end = true ->
                            canon ty v = Some v).
    { intros ty0 Hc. destruct (canon ty0 v) as [cv|]; [|discriminate]. apply beq_bytes_eq in Hc. congruence. }
    destruct k as [pr|kl cw|cw ty|ik ty|]; cbn [kind_ty]; try (apply Hc; assumption);
      destruct v; try reflexivity; discriminate.
  - destruct k as [pr|[|] cw|cw ty|ik ty|]; try assumption.
    + apply andb_true_iff in H3. exact H3.
    + destruct ch; [reflexivity|discriminate].
    + destruct ch; [reflexivity|discriminate].
    + destruct ch; [reflexivity|discriminate].
Qed.

Lemma forallb_nth {A} (P : A -> bool) l i x : forallb P l = true -> nth_error l i = Some x -> P x = true.
Proof. intros H Hn. rewrite forallb_forall in H. apply H. eapply nth_error_In. exact Hn. Qed.

Lemma swf_node_children s : swf_node s = true -> forallb swf_node (s_ch s) = true.
Proof. destruct s as [m n k ch]. cbn [swf_node s_ch]. intro H. apply andb_true_iff in H. apply H. Qed.

Lemma swf_in sc s : forallb swf_node sc = true -> In s sc -> swf_node s = true.
Proof. intros H Hin. rewrite forallb_forall in H. apply H. exact Hin. Qed.

Lemma var_children x : var_ok_node var x = true -> forallb (var_ok_node var) (d_ch x) = true.
Proof. destruct x as [m n k v ch]. cbn [var_ok_node d_ch]. intro H. apply andb_true_iff in H. apply H. Qed.

Lemma var_self x : var_ok_node var x = true -> needs_lit (d_k x) = true ->
  canon (kind_ty (d_k x)) (var x) = Some (d_v x) /\ one_quote (var x) = true.
Proof.
  destruct x as [m n k v ch]. cbn [var_ok_node d_k d_v]. intros H Hk. rewrite Hk in H.
  apply andb_true_iff in H. destruct H as [H _]. apply andb_true_iff in H. destruct H as [H1 H2].
  split; [|exact H2]. destruct (canon (kind_ty k) (var (DN m n k v ch))) as [cv|]; [|discriminate].
  apply beq_bytes_eq in H1. congruence.
Qed.

(* descend one level *)
Lemma level_down sc f i x :
  Level sc f -> nth_error f i = Some x ->
  exists s, NodeOk sc x s /\ swf_node s = true /\ var_ok_node var x = true /\ Level (s_ch s) (d_ch x).
Proof.
  intros L Hn. destruct L as [Hs Hd Hsib Hlen Hq].
  pose proof (forallb_nth _ _ _ _ Hd Hn) as Hx. pose proof (forallb_nth _ _ _ _ Hq Hn) as Hqx.
  destruct (dwf_node_unpack sc x Hx) as (s & Hok & Hsib' & Hlen' & Hch).
  exists s. destruct (find_child_some _ _ _ _ (no_find _ _ _ Hok)) as (Hin & _ & _).
  pose proof (swf_in sc s Hs Hin) as Hsw.
  split; [exact Hok|split; [exact Hsw|split; [exact Hqx|]]].
  constructor; [apply swf_node_children; exact Hsw|exact Hch|exact Hsib'|exact Hlen'|apply var_children; exact Hqx].
Qed.

(* the schema side of one node *)
Lemma swf_names s : swf_node s = true -> name_ok (s_m s) = true /\ name_ok (s_n s) = true.
Proof.
  destruct s as [m n k ch]. cbn [swf_node s_m s_n]. intro H.
  repeat (apply andb_true_iff in H; destruct H as [H ?]). split; assumption.
Qed.

Lemma swf_kind s : swf_node s = true ->
  match s_k s with
  | KList false _ => schema_keys (s_ch s) <> [] /\ keys_resolve (s_m s) (s_ch s) = true /\
                     nokeys_s (skipn (length (schema_keys (s_ch s))) (s_ch s)) = true
  | KList true cw => cw = false /\ nokeys_s (s_ch s) = true
  | KCont _ => nokeys_s (s_ch s) = true
  | _ => s_ch s = []
  end.
Proof.
  destruct s as [m n k ch]. cbn [swf_node s_m s_k s_ch]. intro H.
  apply andb_true_iff in H. destruct H as [H _]. apply andb_true_iff in H. destruct H as [_ H].
  destruct k as [pr|[|] cw|cw ty|ik ty|].
  - exact H.
  - apply andb_true_iff in H. destruct H as [H1 H2]. split; [destruct cw; [discriminate|reflexivity]|exact H2].
  - apply andb_true_iff in H. destruct H as [H H3]. apply andb_true_iff in H. destruct H as [H1 H2].
    split; [destruct (schema_keys ch); [discriminate|discriminate]|split; assumption].
  - destruct ch; [reflexivity|discriminate].
  - destruct ch; [reflexivity|discriminate].
  - destruct ch; [reflexivity|discriminate].
Qed.

(* ---------- the keys of a list instance ---------- *)
Lemma keys_agree_map l : forall ks, keys_agree l ks = true -> map (fun c => (d_m c, d_n c)) l = ks.
Proof.
  induction l as [|c l IH]; intros [|k ks]; cbn [keys_agree map]; intro H; try discriminate; [reflexivity|].
  apply andb_true_iff in H. destruct H as [H1 H2]. apply same_sn_eq in H1. destruct H1 as [E1 E2].
  rewrite (IH ks H2). destruct k as [km kn]. cbn [fst snd] in *. congruence.
Qed.

Lemma is_key_kind_eq k : is_key_kind k = true -> exists ty, k = KLeaf true ty.
Proof. destruct k as [pr|kl cw|cw ty|[|] ty|]; cbn; intro H; try discriminate. exists ty. reflexivity. Qed.

Lemma key_needs_lit k : is_key_kind k = true -> needs_lit k = true.
Proof. intro H. destruct (is_key_kind_eq k H) as [ty ->]. reflexivity. Qed.

Lemma distinct_names_prop l : distinct_names l = true -> names_distinct (map snd l).
Proof.
  induction l as [|k l IH]; cbn [distinct_names map names_distinct]; [auto|].
  intro H. apply andb_true_iff in H. destruct H as [H1 H2]. split; [|apply IH; exact H2].
  intro Hin. apply in_map_iff in Hin. destruct Hin as (e & He & Hine).
  apply negb_true_iff in H1. rewrite <- not_true_iff_false in H1. apply H1.
  apply existsb_exists. exists e. split; [exact Hine|]. apply beq_bytes_eq. congruence.
Qed.

Record KeysOk (s : snode) (x : dnode) : Prop := mk_keysok {
  ko_map : map (fun c => (d_m c, d_n c)) (lead_keys (d_ch x)) = schema_keys (s_ch s);
  ko_ne : lead_keys (d_ch x) <> [];
  ko_dist : names_distinct (map d_n (lead_keys (d_ch x)));
  ko_each : forall c, In c (lead_keys (d_ch x)) ->
      d_m c = s_m s /\ name_ok (d_n c) = true /\ canon (kind_ty (d_k c)) (var c) = Some (d_v c) /\
      one_quote (var c) = true /\ canon (kind_ty (d_k c)) (d_v c) = Some (d_v c) /\ d_ch c = [] /\
      exists c', find_child (s_ch s) (s_m s) (d_n c) = Some c' /\ is_key_kind (s_k c') = true /\
                 s_m c' = d_m c /\ s_n c' = d_n c /\ s_k c' = d_k c }.

Lemma keys_ok sc x s cw :
  NodeOk sc x s -> swf_node s = true -> Level (s_ch s) (d_ch x) -> d_k x = KList false cw -> KeysOk s x.
Proof.
  intros Hok Hsw L Hk.
  pose proof (no_ch _ _ _ Hok) as Hch. rewrite Hk in Hch. destruct Hch as [Hag _].
  pose proof (swf_kind s Hsw) as Hsk. rewrite (no_k _ _ _ Hok), Hk in Hsk. destruct Hsk as (Hne & Hres & _).
  pose proof (keys_agree_map _ _ Hag) as Hmap.
  unfold keys_resolve in Hres. apply andb_true_iff in Hres. destruct Hres as [Hres Hdist].
  constructor.
  - exact Hmap.
  - intro E. rewrite E in Hmap. cbn [map] in Hmap. congruence.
  - apply distinct_names_prop in Hdist. rewrite <- Hmap, map_map in Hdist. cbn [snd] in Hdist. exact Hdist.
  - intros c Hin. destruct (lead_keys_in _ _ Hin) as [Hinc Hkk].
    assert (Hink : In (d_m c, d_n c) (schema_keys (s_ch s))).
    { rewrite <- Hmap. apply in_map_iff. exists c. split; [reflexivity|exact Hin]. }
    rewrite forallb_forall in Hres. specialize (Hres _ Hink). cbn [fst snd] in Hres.
    apply andb_true_iff in Hres. destruct Hres as [Hm Hf]. apply beq_bytes_eq in Hm.
    destruct (find_child (s_ch s) (d_m c) (d_n c)) as [c'|] eqn:Ef; [|discriminate].
    destruct (find_child_some _ _ _ _ Ef) as (Hin' & Hm' & Hn').
    pose proof (swf_in _ _ (lv_swf _ _ L) Hin') as Hsw'. destruct (swf_names c' Hsw') as [_ Hnok].
    destruct (In_nth_error _ _ Hinc) as [j Hj].
    pose proof (forallb_nth _ _ _ _ (lv_dwf _ _ L) Hj) as Hdc.
    pose proof (forallb_nth _ _ _ _ (lv_q _ _ L) Hj) as Hqc.
    destruct (dwf_node_unpack _ _ Hdc) as (c2 & Hok2 & _).
    destruct (is_key_kind_eq _ Hkk) as [kty Ekc].
    pose proof (no_val _ _ _ Hok2) as Hv. pose proof (no_ch _ _ _ Hok2) as Hc. rewrite Ekc in Hv, Hc.
    destruct (var_self c Hqc (key_needs_lit _ Hkk)) as [Hvar1 Hvar2].
    assert (Ec2 : c2 = c') by (pose proof (no_find _ _ _ Hok2) as F2; congruence).
    split; [exact Hm|]. split; [rewrite <- Hn'; exact Hnok|]. split; [exact Hvar1|].
    split; [exact Hvar2|]. split; [rewrite Ekc; exact Hv|]. split; [exact Hc|].
    exists c'. rewrite <- Hm. split; [exact Ef|]. split; [exact Hf|]. split; [assumption|]. split; [assumption|].
    rewrite <- Ec2. apply (no_k _ _ _ Hok2).
Qed.

(* ---------- positions ---------- *)
Lemma run_back_le x b : run_back x b <= N.of_nat (length b).
Proof.
  induction b as [|a b IH]; cbn [run_back length]; [lia|]. destruct (same_schema x a); lia.
Qed.

Lemma list_pos_small b x : N.of_nat (length b) < 2147483648 -> list_pos b x = 1 + run_back x b.
Proof. intro H. unfold list_pos. pose proof (run_back_le x b). apply N.mod_small. lia. Qed.

Lemma before_len {A} (f : list A) i : (length (rev (firstn i f)) <= length f)%nat.
Proof. rewrite rev_length, firstn_length. lia. Qed.

(* ---------- every printed segment is lexable and parsable ---------- *)
Lemma aseg_of_ok sc f i x s pm :
  Level sc f -> nth_error f i = Some x -> NodeOk sc x s -> swf_node s = true -> var_ok_node var x = true ->
  Level (s_ch s) (d_ch x) ->
  aseg_ok (aseg_of var pm (rev (firstn i f)) x) /\ aseg_pok (aseg_of var pm (rev (firstn i f)) x).
Proof.
  intros L Hn Hok Hsw Hq Lc. destruct (swf_names s Hsw) as [Hmn Hnn].
  rewrite (no_m _ _ _ Hok) in Hmn. rewrite (no_n _ _ _ Hok) in Hnn.
  assert (Hpos : N.of_nat (length (rev (firstn i f))) + 1 < 2147483648).
  { assert (Hi : (i < length f)%nat) by (apply nth_error_Some; congruence).
    rewrite rev_length, firstn_length. pose proof (lv_len _ _ L). lia. }
  unfold aseg_ok, aseg_pok, aseg_of. cbn [a_pfx a_n a_pred].
  assert (Hp : apred_ok (apred_of var (rev (firstn i f)) x) /\ apred_pok (apred_of var (rev (firstn i f)) x)).
  { unfold apred_of. destruct (d_k x) as [pr|[|] cw|[|] ty|ik ty|] eqn:Ek; cbn [apred_ok apred_pok]; auto.
    - rewrite list_pos_small by lia. pose proof (run_back_le x (rev (firstn i f))). split; lia.
    - destruct (keys_ok sc x s cw Hok Hsw Lc Ek) as [Hmap Hne Hdist Heach].
      split; [|split].
      + apply Forall_forall. intros kv Hin. apply in_map_iff in Hin. destruct Hin as (c & <- & Hc).
        cbn [fst snd]. destruct (Heach c Hc) as (_ & H1 & _ & H2 & _). split; assumption.
      + apply Forall_forall. intros kv Hin. apply in_map_iff in Hin. destruct Hin as (c & <- & Hc).
        cbn [fst]. destruct (Heach c Hc) as (_ & H1 & _). exact H1.
      + rewrite map_map. cbn [fst]. exact Hdist.
    - split; [|exact I]. apply (var_self x Hq). rewrite Ek. reflexivity.
    - rewrite list_pos_small by lia. pose proof (run_back_le x (rev (firstn i f))). split; lia. }
  destruct Hp as [Hp1 Hp2]. split; [|exact Hp2].
  split; [exact Hnn|split; [|exact Hp1]]. destruct (opt_is pm (d_m x)); [exact I|exact Hmn].
Qed.

Lemma asegs_ok p : forall pm sc f x,
  Level sc f -> node_at f p = Some x -> Forall aseg_ok (asegs var pm f p) /\ Forall aseg_pok (asegs var pm f p).
Proof.
  induction p as [|i p IH]; intros pm sc f x L H; [discriminate|].
  cbn [node_at asegs] in *. destruct (nth_error f i) as [y|] eqn:En; [|discriminate].
  destruct (level_down sc f i y L En) as (s & Hok & Hsw & Hq & Lc).
  destruct (aseg_of_ok sc f i y s pm L En Hok Hsw Hq Lc) as [H1 H2].
  destruct p as [|j p].
  - cbn [asegs]. split; constructor; auto.
  - destruct (IH (Some (d_m y)) (s_ch s) (d_ch y) x Lc H) as [H3 H4]. split; constructor; auto.
Qed.

(* ---------- compilation of the printed path ---------- *)
Definition key_triple (c : dnode) : kentry := (d_m c, d_n c, (d_k c, d_v c)).

Definition cpred_of (before : list dnode) (x : dnode) : cpred :=
  match d_k x with
  | KList true _ => CPos (list_pos before x)
  | KList false _ => CKeys (map key_triple (lead_keys (d_ch x)))
  | KLeafList true _ => CDot (d_v x)
  | KLeafList false _ => CPos (list_pos before x)
  | _ => CNone
  end.

Fixpoint csegs (sc : list snode) (f : list dnode) (p : list nat) : list cseg :=
  match p with
  | [] => []
  | i :: p' =>
      match nth_error f i with
      | None => []
      | Some x =>
          match find_child sc (d_m x) (d_n x) with
          | None => []
          | Some s =>
              mk_cseg (s_m s) (s_n s) (s_k s) (schema_keys (s_ch s)) (cpred_of (rev (firstn i f)) x)
              :: csegs (s_ch s) (d_ch x) p'
          end
      end
  end.

Lemma compile_keys_ok s x l :
  KeysOk s x -> (forall c, In c l -> In c (lead_keys (d_ch x))) ->
  compile_keys s (map (fun kv => (None, fst kv, snd kv)) (map (fun c => (d_n c, var c)) l)) = Ok (map key_triple l).
Proof.
  intros K. induction l as [|c l IH]; intro Hin; [reflexivity|].
  cbn [map compile_keys fst snd].
  destruct (ko_each _ _ K c (Hin c (or_introl eq_refl))) as (Hm & _ & Hs & _ & _ & _ & c' & Hf & Hk & Hm' & Hn' & Hk').
  rewrite Hf, Hk. cbn [negb]. rewrite Hk', Hs. rewrite IH by (intros d Hd; apply Hin; right; exact Hd).
  unfold key_triple at 1. rewrite Hm', Hn'. reflexivity.
Qed.

Lemma strtoull_dec n : n < 18446744073709551616 -> c_strtoull (N_to_dec n) = n.
Proof.
  intro H. unfold c_strtoull. destruct (N.eq_dec n 0) as [-> | Hn]; [reflexivity|].
  destruct (pm_N_to_dec_pos n Hn) as (c & r & -> & _ & _ & ->). apply N.min_l. lia.
Qed.

Lemma compile_pred_ok sc f i x s :
  Level sc f -> nth_error f i = Some x -> NodeOk sc x s -> swf_node s = true -> var_ok_node var x = true ->
  Level (s_ch s) (d_ch x) ->
  compile_pred s (ppred_of (apred_of var (rev (firstn i f)) x)) = Ok (cpred_of (rev (firstn i f)) x).
Proof.
  intros L Hn Hok Hsw Hq Lc.
  assert (Hpos : list_pos (rev (firstn i f)) x < 18446744073709551616).
  { assert (Hi : (i < length f)%nat) by (apply nth_error_Some; congruence).
    rewrite list_pos_small; [pose proof (run_back_le x (rev (firstn i f)))|];
      rewrite rev_length, firstn_length in *; pose proof (lv_len _ _ L); lia. }
  pose proof (swf_kind s Hsw) as Hsk. rewrite (no_k _ _ _ Hok) in Hsk.
  unfold apred_of, cpred_of, compile_pred. destruct (d_k x) as [pr|[|] cw|[|] ty|ik ty|] eqn:Ek; cbn [ppred_of]; try reflexivity.
  - rewrite (no_k _ _ _ Hok), Ek. destruct Hsk as [-> _]. rewrite strtoull_dec by exact Hpos. reflexivity.
  - pose proof (keys_ok sc x s cw Hok Hsw Lc Ek) as K.
    destruct (lead_keys (d_ch x)) as [|c l] eqn:El; [exfalso; apply (ko_ne _ _ K); exact El|].
    cbn [map]. rewrite (no_k _ _ _ Hok), Ek.
    pose proof (compile_keys_ok s x (c :: l) K) as E. rewrite El in E. cbn [map] in E.
    rewrite E by auto. cbn [length]. rewrite <- (ko_map _ _ K), El. cbn [map length]. rewrite !map_length.
    rewrite Nat.eqb_refl. reflexivity.
  - rewrite (no_k _ _ _ Hok), Ek. destruct (var_self x Hq) as [Hv _]; [rewrite Ek; reflexivity|].
    rewrite Ek in Hv. cbn [kind_ty] in Hv. rewrite Hv. reflexivity.
  - rewrite (no_k _ _ _ Hok), Ek. rewrite strtoull_dec by exact Hpos. reflexivity.
Qed.

Lemma opt_is_true pm m : opt_is pm m = true -> pm = Some m.
Proof. destruct pm as [a|]; cbn [opt_is]; [|discriminate]. intro H. apply beq_bytes_eq in H. congruence. Qed.

Lemma compile_ok p : forall many pm sc f x,
  Level sc f -> node_at f p = Some x ->
  compile_segs many sc pm (map pseg_of (asegs var pm f p)) = Ok (csegs sc f p).
Proof.
  induction p as [|i p IH]; intros many pm sc f x L H; [discriminate|].
  cbn [node_at asegs csegs] in *. destruct (nth_error f i) as [y|] eqn:En; [|discriminate].
  destruct (level_down sc f i y L En) as (s & Hok & Hsw & Hq & Lc).
  rewrite (no_find _ _ _ Hok). cbn [map compile_segs pseg_of aseg_of a_pfx a_n a_pred].
  assert (Em : match (if opt_is pm (d_m y) then None else Some (d_m y)) with Some x0 => Some x0 | None => pm end
               = Some (d_m y)).
  { destruct (opt_is pm (d_m y)) eqn:E; [apply opt_is_true; exact E|reflexivity]. }
  rewrite Em, (no_find _ _ _ Hok).
  rewrite (compile_pred_ok sc f i y s L En Hok Hsw Hq Lc).
  assert (Ec : (negb many &&
                match cpred_of (rev (firstn i f)) y with CNone => true | _ => false end &&
                (is_list_kind (s_k s) ||
                 match map pseg_of (asegs var (Some (d_m y)) (d_ch y) p) with [] => true | _ => false end &&
                 is_leaflist_kind (s_k s))) = false).
  { rewrite (no_k _ _ _ Hok). unfold cpred_of. destruct (d_k y) as [pr|[|] cw|[|] ty|ik ty|]; cbn;
      rewrite ?andb_false_r; reflexivity. }
  rewrite Ec. rewrite (no_m _ _ _ Hok).
  destruct p as [|j p].
  - cbn [asegs map compile_segs]. reflexivity.
  - rewrite (IH many (Some (d_m y)) (s_ch s) (d_ch y) x Lc H). reflexivity.
Qed.

(* ---------- evaluation ---------- *)
Lemma find_idx_split {A} (P : A -> bool) pre x post :
  (forall y, In y pre -> P y = false) -> P x = true -> find_idx P (pre ++ x :: post) = Some (length pre).
Proof.
  intros Hpre Hx. induction pre as [|a pre IH]; cbn [app find_idx length].
  - rewrite Hx. reflexivity.
  - rewrite (Hpre a (or_introl eq_refl)). rewrite IH by (intros y Hy; apply Hpre; right; exact Hy). reflexivity.
Qed.

Lemma sibs_ok_split pre : forall b x post,
  sibs_ok b (pre ++ x :: post) = true -> sib_ok (rev pre ++ b) x = true /\ sibs_ok (x :: rev pre ++ b) post = true.
Proof.
  induction pre as [|a pre IH]; intros b x post H; cbn [app sibs_ok rev] in *.
  - apply andb_true_iff in H. exact H.
  - apply andb_true_iff in H. destruct H as [_ H]. rewrite <- app_assoc. cbn [app]. apply IH. exact H.
Qed.

Lemma existsb_false {A} (P : A -> bool) l : existsb P l = false -> forall y, In y l -> P y = false.
Proof.
  intros H y Hy. destruct (P y) eqn:E; [|reflexivity].
  assert (existsb P l = true) by (apply existsb_exists; exists y; auto). congruence.
Qed.

(* the leading children of a list instance match its own keys *)
Lemma keys_match_self ch : keys_match (map key_triple (lead_keys ch)) ch = true.
Proof.
  induction ch as [|c ch IH]; [reflexivity|]. cbn [lead_keys]. destruct (is_key_kind (d_k c)); [|reflexivity].
  cbn [map keys_match]. unfold key_triple at 1. rewrite same_sn_self, beq_refl, IH. reflexivity.
Qed.

(* ... and when the leading children of another instance match them, the key values are equal *)
Lemma keys_match_vals l : forall ch,
  keys_match l ch = true -> length (lead_keys ch) = length l ->
  beq_vals (map (fun e : kentry => snd (snd e)) l) (map d_v (lead_keys ch)) = true.
Proof.
  induction l as [|[[km kn] [kk kv]] l IH]; intros ch Hm Hl.
  - destruct (lead_keys ch); [reflexivity|discriminate].
  - destruct ch as [|c ch]; [discriminate|]. cbn [keys_match] in Hm.
    apply andb_true_iff in Hm. destruct Hm as [Hm Hm2]. apply andb_true_iff in Hm. destruct Hm as [_ Hv].
    cbn [lead_keys] in *. destruct (is_key_kind (d_k c)); [|discriminate].
    cbn [map snd beq_vals length] in *. rewrite Hv. apply IH; [exact Hm2|lia].
Qed.

Lemma flat_map_ext_in {A B} (g h : A -> list B) l : (forall a, In a l -> g a = h a) -> flat_map g l = flat_map h l.
Proof.
  induction l as [|a l IH]; intro H; [reflexivity|]. cbn [flat_map].
  rewrite (H a (or_introl eq_refl)), IH by (intros b Hb; apply H; right; exact Hb). reflexivity.
Qed.

(* lyd_create_list() puts the keys in schema order: for the keys of an instance that is the order they are in *)
Lemma target_keys_id l :
  names_distinct (map d_n l) -> target_keys (map (fun c => (d_m c, d_n c)) l) (map key_triple l) = map key_triple l.
Proof.
  unfold target_keys. induction l as [|c l IH]; intro Hd; [reflexivity|].
  cbn [map names_distinct] in Hd. destruct Hd as [Hnin Hd].
  cbn [map flat_map filter]. unfold key_is at 1, key_triple at 1. cbn [fst snd]. rewrite !beq_refl. cbn [andb].
  assert (E1 : filter (key_is (d_m c, d_n c)) (map key_triple l) = []).
  { clear IH Hd. induction l as [|d l IHl]; [reflexivity|]. cbn [map filter].
    assert (Hk : key_is (d_m c, d_n c) (key_triple d) = false).
    { unfold key_is, key_triple. cbn [fst snd]. apply andb_false_iff. right.
      apply not_true_iff_false. intro E. apply beq_bytes_eq in E. apply Hnin. left. congruence. }
    rewrite Hk. apply IHl. intro Hin. apply Hnin. right. exact Hin. }
  rewrite E1. cbn [app]. f_equal.
  transitivity (flat_map (fun k => filter (key_is k) (map key_triple l)) (map (fun c => (d_m c, d_n c)) l));
    [|exact (IH Hd)].
  apply flat_map_ext_in. intros k Hk. cbn [filter].
  assert (Hkc : key_is k (key_triple c) = false).
  { apply in_map_iff in Hk. destruct Hk as (d & <- & Hd'). unfold key_is, key_triple. cbn [fst snd].
    apply andb_false_iff. right. apply not_true_iff_false. intro E. apply beq_bytes_eq in E.
    apply Hnin. apply in_map_iff. exists d. split; [congruence|exact Hd']. }
  rewrite Hkc. reflexivity.
Qed.

(* decomposition of the preceding siblings (nearest first): the run of instances of the same schema node, the rest *)
Lemma run_back_split x b :
  exists sames rest, b = sames ++ rest /\ Forall (fun y => same_schema x y = true) sames /\
                     run_back x b = N.of_nat (length sames) /\ drop_same x b = rest.
Proof.
  induction b as [|a b (sames & rest & E & Hs & Hr & Hd)].
  - exists [], []. repeat split. constructor.
  - cbn [run_back drop_same]. destruct (same_schema x a) eqn:Ea.
    + exists (a :: sames), rest. subst b. repeat split; auto. cbn [length]. lia.
    + exists [], (a :: b). repeat split. constructor.
Qed.

Lemma pos_walk_run m n want post : forall sames pos idx x,
  Forall (fun y => same_sn m n y = true) sames -> same_sn m n x = true ->
  pos + N.of_nat (length sames) = want ->
  pos_walk m n want pos (sames ++ x :: post) idx = Some (idx + length sames)%nat.
Proof.
  induction sames as [|a sames IH]; intros pos idx x Hs Hx Hw; cbn [app pos_walk length] in *.
  - rewrite Hx. replace (pos =? want) with true by lia. f_equal. lia.
  - inversion Hs as [|y l Ha Hs']; subst. rewrite Ha.
    replace (pos =? pos + N.of_nat (S (length sames))) with false by lia.
    rewrite (IH (pos + 1) (S idx) x Hs' Hx) by lia. f_equal. lia.
Qed.

Lemma skipn_app_len' {A} (a b : list A) : skipn (length a) (a ++ b) = b.
Proof. induction a; cbn; auto. Qed.

(* one level: the segment compiled from the node at index i selects index i *)
Lemma eval_seg_ok sc f i x s :
  Level sc f -> nth_error f i = Some x -> NodeOk sc x s -> swf_node s = true -> Level (s_ch s) (d_ch x) ->
  eval_seg (mk_cseg (s_m s) (s_n s) (s_k s) (schema_keys (s_ch s)) (cpred_of (rev (firstn i f)) x)) f = Some i.
Proof.
  intros L Hn Hok Hsw Lc.
  destruct (nth_split f i x Hn) as (pre & post & Ef & Hlen & Hfirst). rewrite Hfirst.
  pose proof (lv_sibs _ _ L) as Hsib. rewrite Ef in Hsib.
  destruct (sibs_ok_split pre [] x post Hsib) as [Hsx _]. rewrite app_nil_r in Hsx.
  unfold eval_seg. cbn [cs_m cs_n cs_pred cs_keys]. rewrite (no_m _ _ _ Hok), (no_n _ _ _ Hok).
  assert (Hself : same_sn (d_m x) (d_n x) x = true) by apply same_sn_self.
  assert (Hsmall : N.of_nat (length (rev pre)) < 2147483648).
  { rewrite rev_length. pose proof (lv_len _ _ L) as Hl. rewrite Ef, app_length in Hl. lia. }
  unfold sib_ok, positional in Hsx. unfold cpred_of.
  assert (Hposcase : dup_inst (d_k x) = true ->
     match find_idx (same_sn (d_m x) (d_n x)) f with
     | Some j => pos_walk (d_m x) (d_n x) (list_pos (rev pre) x) 1 (skipn j f) j
     | None => None
     end = Some i).
  { intro Hdup. rewrite Hdup in Hsx. apply negb_true_iff in Hsx.
    destruct (run_back_split x (rev pre)) as (sames & rest & Eb & Hs & Hr & Hd).
    rewrite Hd in Hsx. pose proof (existsb_false _ _ Hsx) as Hrest.
    assert (Epre : pre = rev rest ++ rev sames).
    { rewrite <- (rev_involutive pre), Eb, rev_app_distr. reflexivity. }
    rewrite list_pos_small by exact Hsmall. rewrite Hr.
    rewrite Ef, Epre, <- app_assoc.
    assert (Hfi : find_idx (same_sn (d_m x) (d_n x)) (rev rest ++ rev sames ++ x :: post) = Some (length (rev rest))).
    { destruct (rev sames) as [|a ra] eqn:Era.
      - cbn [app]. apply find_idx_split; [|exact Hself]. intros y Hy. apply Hrest. apply in_rev. exact Hy.
      - cbn [app]. apply find_idx_split; [intros y Hy; apply Hrest; apply in_rev; exact Hy|].
        rewrite Forall_forall in Hs. apply (Hs a). apply in_rev. rewrite Era. left. reflexivity. }
    rewrite Hfi, skipn_app_len'.
    rewrite (pos_walk_run (d_m x) (d_n x) (1 + N.of_nat (length sames)) post (rev sames) 1 (length (rev rest)) x).
    - f_equal. rewrite <- Hlen, Epre, app_length. reflexivity.
    - apply Forall_forall. intros y Hy. rewrite Forall_forall in Hs. apply Hs. apply in_rev. exact Hy.
    - exact Hself.
    - rewrite rev_length. reflexivity. }
  assert (Hnp : dup_inst (d_k x) = false -> forall y, In y pre -> same_ident x y = false).
  { intro Hdup. rewrite Hdup in Hsx. apply negb_true_iff in Hsx. intros y Hy.
    apply (existsb_false _ _ Hsx). apply in_rev in Hy. exact Hy. }
  destruct (d_k x) as [pr|[|] cw|[|] ty|ik ty|] eqn:Ek.
  - (* container *)
    rewrite Ef, <- Hlen. apply find_idx_split; [|exact Hself].
    intros y Hy. pose proof (Hnp eq_refl y Hy) as E. unfold same_ident in E. rewrite Ek, andb_true_r in E. exact E.
  - apply Hposcase. reflexivity.
  - (* list with keys *)
    pose proof (keys_ok sc x s cw Hok Hsw Lc Ek) as K.
    rewrite <- (ko_map _ _ K), (target_keys_id _ (ko_dist _ _ K)).
    rewrite Ef, <- Hlen. apply find_idx_split.
    + intros y Hy. destruct (same_sn (d_m x) (d_n x) y) eqn:Esy; [|reflexivity]. cbn [andb].
      apply not_true_iff_false. intro Hkm.
      pose proof (Hnp eq_refl y Hy) as E. unfold same_ident in E. rewrite Ek in E.
      unfold same_schema in E. rewrite Esy in E. cbn [andb] in E.
      (* y is an instance of the same schema node: it has as many leading keys *)
      assert (Hiny : In y f) by (rewrite Ef; apply in_or_app; left; exact Hy).
      destruct (In_nth_error _ _ Hiny) as [j Hj].
      destruct (level_down sc f j y L Hj) as (s2 & Hok2 & Hsw2 & _ & Lc2).
      apply same_sn_eq in Esy. destruct Esy as [Em En].
      assert (Es2 : s2 = s).
      { pose proof (no_find _ _ _ Hok2) as F2. rewrite <- Em, <- En, (no_find _ _ _ Hok) in F2. congruence. }
      subst s2.
      assert (Eky : d_k y = KList false cw) by (rewrite <- (no_k _ _ _ Hok2), (no_k _ _ _ Hok); exact Ek).
      pose proof (keys_ok sc y s cw Hok2 Hsw2 Lc2 Eky) as K2.
      assert (Hlen2 : length (lead_keys (d_ch y)) = length (map key_triple (lead_keys (d_ch x)))).
      { rewrite map_length.
        rewrite <- (map_length (fun c => (d_m c, d_n c)) (lead_keys (d_ch y))), (ko_map _ _ K2), <- (ko_map _ _ K), map_length.
        reflexivity. }
      pose proof (keys_match_vals _ _ Hkm Hlen2) as Hv. rewrite map_map in Hv. cbn [key_triple snd] in Hv.
      unfold key_vals in E. exact (eq_true_false_abs _ Hv E).
    + rewrite Hself, keys_match_self. reflexivity.
  - (* configuration leaf-list *)
    rewrite Ef, <- Hlen. apply find_idx_split.
    + intros y Hy. pose proof (Hnp eq_refl y Hy) as E. unfold same_ident in E. rewrite Ek in E. exact E.
    + rewrite Hself, beq_refl. reflexivity.
  - apply Hposcase. reflexivity.
  - (* leaf *)
    rewrite Ef, <- Hlen. apply find_idx_split; [|exact Hself].
    intros y Hy. pose proof (Hnp eq_refl y Hy) as E. unfold same_ident in E. rewrite Ek, andb_true_r in E. exact E.
  - rewrite Ef, <- Hlen. apply find_idx_split; [|exact Hself].
    intros y Hy. pose proof (Hnp eq_refl y Hy) as E. unfold same_ident in E. rewrite Ek, andb_true_r in E. exact E.
Qed.

Lemma eval_ok p : forall sc f x,
  Level sc f -> node_at f p = Some x -> eval_segs (csegs sc f p) f = EFound p.
Proof.
  induction p as [|i p IH]; intros sc f x L H; [discriminate|].
  cbn [node_at csegs] in *. destruct (nth_error f i) as [y|] eqn:En; [|discriminate].
  destruct (level_down sc f i y L En) as (s & Hok & Hsw & Hq & Lc).
  rewrite (no_find _ _ _ Hok). cbn [eval_segs].
  rewrite (eval_seg_ok sc f i y s L En Hok Hsw Lc), En.
  destruct p as [|j p]; [reflexivity|].
  rewrite (IH (s_ch s) (d_ch y) x Lc H).
  cbn [csegs]. destruct (nth_error (d_ch y) j) as [z|] eqn:Ez; [|cbn [node_at] in H; rewrite Ez in H; discriminate].
  destruct (level_down _ _ j z Lc Ez) as (s2 & Hok2 & _). rewrite (no_find _ _ _ Hok2). reflexivity.
Qed.

Lemma asegs_nonempty p pm f x : node_at f p = Some x -> exists a l, asegs var pm f p = a :: l.
Proof.
  destruct p as [|i p]; [discriminate|]. cbn [node_at asegs]. destruct (nth_error f i); [|discriminate].
  intros _. eexists. eexists. reflexivity.
Qed.

Lemma asegs_first_pfx p f x a l : node_at f p = Some x -> asegs var None f p = a :: l -> a_pfx a <> None.
Proof.
  destruct p as [|i p]; [discriminate|]. cbn [node_at asegs]. destruct (nth_error f i); [|discriminate].
  intros _ E. inversion E. cbn. discriminate.
Qed.

(* the path of a node, its values spelled by [var], is parsed and compiled into the SAME segments as the printed path:
   the predicates hold the canonical values *)
Lemma compile_path_var many S t p x :
  swf S = true -> dwf S t = true -> var_ok var t = true -> node_at t p = Some x ->
  compile_path many S (path_var var t p) = Ok (csegs S t p).
Proof.
  intros Hs Hd Hq Hn. destruct (top_level S t Hs Hd Hq) as [L _]. unfold path_var.
  destruct (asegs_ok p None S t x L Hn) as [Hok Hpok].
  destruct (asegs_nonempty p None t x Hn) as (a & l & Ea).
  unfold compile_path. rewrite Ea in *.
  rewrite (parse_path_render a l Hok Hpok (asegs_first_pfx p t x a l Hn Ea)).
  rewrite <- Ea. apply (compile_ok p many None S t x L Hn).
Qed.

(* every stage visible: bytes, parsed path, compiled path, evaluation *)
Theorem roundtrip_stages_var S t p x :
  swf S = true -> dwf S t = true -> var_ok var t = true -> node_at t p = Some x ->
  exists sp cp,
    parse_path (path_var var t p) = Ok sp /\
    compile_segs false S None sp = Ok cp /\ compile_segs true S None sp = Ok cp /\
    eval_segs cp t = EFound p.
Proof.
  intros Hs Hd Hq Hn. destruct (top_level S t Hs Hd Hq) as [L _]. unfold path_var.
  destruct (asegs_ok p None S t x L Hn) as [Hok Hpok].
  destruct (asegs_nonempty p None t x Hn) as (a & l & Ea).
  exists (map pseg_of (asegs var None t p)), (csegs S t p).
  split; [rewrite Ea in *; apply (parse_path_render a l Hok Hpok (asegs_first_pfx p t x a l Hn Ea))|].
  split; [apply (compile_ok p false None S t x L Hn)|].
  split; [apply (compile_ok p true None S t x L Hn)|].
  apply (eval_ok p S t x L Hn).
Qed.

(* C15, search: the path of a node, with any admissible spelling of its predicate values, finds exactly that node *)
Theorem find_var S t p x :
  swf S = true -> dwf S t = true -> var_ok var t = true -> node_at t p = Some x ->
  find_path S t (path_var var t p) = FRes (EFound p).
Proof.
  intros Hs Hd Hq Hn. unfold find_path. rewrite (compile_path_var false S t p x Hs Hd Hq Hn).
  destruct (top_level S t Hs Hd Hq) as [L _]. rewrite (eval_ok p S t x L Hn). reflexivity.
Qed.

(* ---------- creation ---------- *)
(* the shape of the segments compiled from a printed path: the predicate kind follows the node kind *)
Definition cseg_std (cs : cseg) : Prop :=
  match cs_k cs with
  | KList true _ | KLeafList false _ => exists p, cs_pred cs = CPos p
  | KList false _ => exists l, cs_pred cs = CKeys l
  | KLeafList true _ => exists v, cs_pred cs = CDot v
  | _ => True
  end.

Lemma check_find_std value l : forall u, Forall cseg_std l -> check_find value l u = Ok (l, None).
Proof.
  induction l as [|cs l IH]; intros u H; [reflexivity|].
  inversion H as [|x y Hcs Hl]; subst. cbn [check_find]. rewrite (IH (S u) Hl).
  unfold cseg_std in Hcs. destruct (cs_k cs) as [pr|[|] cw|[|] ty|ik ty|]; cbn [dup_inst is_list_kind is_leaflist_kind].
  - reflexivity.
  - destruct Hcs as [p ->]. reflexivity.
  - destruct Hcs as [kl ->]. reflexivity.
  - destruct Hcs as [v ->]. reflexivity.
  - destruct Hcs as [p ->]. reflexivity.
  - reflexivity.
  - reflexivity.
Qed.

Lemma csegs_std p : forall sc f x, Level sc f -> node_at f p = Some x -> Forall cseg_std (csegs sc f p).
Proof.
  induction p as [|i p IH]; intros sc f x L H; [discriminate|].
  cbn [node_at csegs] in *. destruct (nth_error f i) as [y|] eqn:En; [|discriminate].
  destruct (level_down sc f i y L En) as (s & Hok & Hsw & Hq & Lc).
  rewrite (no_find _ _ _ Hok). constructor.
  - unfold cseg_std, cpred_of. cbn [cs_k cs_pred]. rewrite (no_k _ _ _ Hok).
    destruct (d_k y) as [pr|[|] cw|[|] ty|ik ty|]; try exact I; eexists; reflexivity.
  - destruct p as [|j p]; [constructor|]. apply (IH (s_ch s) (d_ch y) x Lc H).
Qed.

Lemma csegs_nonempty p sc f x : Level sc f -> node_at f p = Some x -> csegs sc f p <> [].
Proof.
  destruct p as [|i p]; [discriminate|]. intros L H. cbn [node_at csegs] in *.
  destruct (nth_error f i) as [y|] eqn:En; [|discriminate].
  destruct (level_down sc f i y L En) as (s & Hok & _). rewrite (no_find _ _ _ Hok). discriminate.
Qed.

(* C15, creation in the tree itself: the node exists, LY_EEXIST (a default node, that is an empty non-presence container,
   is left as it is and nothing is created) *)
Theorem new_path_exists_var S t p x v :
  swf S = true -> dwf S t = true -> var_ok var t = true -> node_at t p = Some x ->
  new_path S t (path_var var t p) v = if is_dflt x then NCreated None [] else NErr E_EXIST.
Proof.
  intros Hs Hd Hq Hn. unfold new_path. rewrite (compile_path_var true S t p x Hs Hd Hq Hn).
  destruct (top_level S t Hs Hd Hq) as [L _].
  rewrite (check_find_std v _ O (csegs_std p S t x L Hn)).
  rewrite (eval_ok p S t x L Hn), Hn. reflexivity.
Qed.

(* the created chain *)
Definition chain_of (f : list dnode) (p : list nat) : list dnode :=
  match p with
  | [] => []
  | i :: _ => match nth_error f i with
              | Some y => if is_key_kind (d_k y) then [] else spine f p
              | None => []
              end
  end.

Lemma key_nodes_lead l :
  (forall c, In c l -> d_ch c = []) -> key_nodes (map key_triple l) = l.
Proof.
  unfold key_nodes. induction l as [|c l IH]; intro H; [reflexivity|]. cbn [map].
  rewrite IH by (intros d Hd; apply H; right; exact Hd).
  pose proof (H c (or_introl eq_refl)) as Hc. destruct c as [cm cn ck cv cch].
  cbn [key_triple fst snd d_m d_n d_v d_k d_ch] in *. subst. reflexivity.
Qed.

Lemma key_child_iff ch j z :
  nokeys_d (skipn (length (lead_keys ch)) ch) = true -> nth_error ch j = Some z ->
  is_key_kind (d_k z) = Nat.ltb j (length (lead_keys ch)).
Proof.
  intros Hnk Hn. destruct (lead_keys_prefix ch) as [rest E].
  destruct (Nat.ltb j (length (lead_keys ch))) eqn:Elt.
  - apply Nat.ltb_lt in Elt. rewrite E, nth_error_app1 in Hn by exact Elt.
    apply nth_error_In in Hn. apply lead_keys_in in Hn. apply Hn.
  - apply Nat.ltb_ge in Elt.
    assert (Hs : skipn (length (lead_keys ch)) ch = rest).
    { rewrite E at 2. apply skipn_app_len'. }
    rewrite Hs in Hnk. rewrite E, nth_error_app2 in Hn by exact Elt.
    apply nth_error_In in Hn. unfold nokeys_d in Hnk. rewrite forallb_forall in Hnk.
    apply negb_true_iff. apply Hnk. exact Hn.
Qed.

Lemma nokeys_nth ch j z : nokeys_d ch = true -> nth_error ch j = Some z -> is_key_kind (d_k z) = false.
Proof.
  intros H Hn. unfold nokeys_d in H. rewrite forallb_forall in H. apply negb_true_iff. apply H.
  eapply nth_error_In. exact Hn.
Qed.

(* the value given to lyd_new_path(): for a term node any lexical form of its value, for anydata the empty value *)
Definition val_ok (x : dnode) (w : bytes) : Prop :=
  match d_k x with
  | KLeaf _ ty | KLeafList _ ty => canon ty w = Some (d_v x)
  | KAny => w = []
  | _ => True
  end.

Lemma mk_chain_ok p : forall sc f x w,
  Level sc f -> node_at f p = Some x -> val_ok x w -> mk_chain w (csegs sc f p) = Ok (chain_of f p).
Proof.
  induction p as [|i p IH]; intros sc f x w L H Hw; [discriminate|].
  cbn [node_at csegs chain_of] in *. destruct (nth_error f i) as [y|] eqn:En; [|discriminate].
  destruct (level_down sc f i y L En) as (s & Hok & Hsw & Hq & Lc).
  rewrite (no_find _ _ _ Hok).
  pose proof (no_val _ _ _ Hok) as Hv. pose proof (no_ch _ _ _ Hok) as Hch.
  cbn [mk_chain cs_m cs_n cs_k cs_pred cs_keys spine]. rewrite En.
  rewrite (no_m _ _ _ Hok), (no_n _ _ _ Hok), (no_k _ _ _ Hok).
  destruct p as [|j p].
  - (* the node itself *)
    inversion H; subst y. cbn [csegs mk_chain]. unfold cpred_of. unfold val_ok in Hw.
    destruct (d_k x) as [pr|[|] cw|[|] ty|[|] ty|] eqn:Ek; cbn [is_key_kind]; rewrite ?app_nil_r.
    + rewrite Hv. reflexivity.
    + rewrite Hv. reflexivity.
    + pose proof (keys_ok sc x s cw Hok Hsw Lc Ek) as K.
      rewrite <- (ko_map _ _ K), (target_keys_id _ (ko_dist _ _ K)).
      rewrite key_nodes_lead; [rewrite Hv; reflexivity|].
      intros c Hc. destruct (ko_each _ _ K c Hc) as (_ & _ & _ & _ & _ & H2 & _). exact H2.
    + reflexivity.
    + rewrite Hw. reflexivity.
    + reflexivity.
    + rewrite Hw. reflexivity.
    + rewrite Hw, Hv. reflexivity.
  - (* an ancestor *)
    cbn [node_at] in H. destruct (nth_error (d_ch y) j) as [z|] eqn:Ez; [|discriminate].
    assert (Hsub : mk_chain w (csegs (s_ch s) (d_ch y) (j :: p)) = Ok (chain_of (d_ch y) (j :: p))).
    { apply (IH (s_ch s) (d_ch y) x w Lc); [|exact Hw]. cbn [node_at]. rewrite Ez. exact H. }
    rewrite Hsub. cbn [chain_of]. rewrite Ez. unfold cpred_of.
    destruct (d_k y) as [pr|[|] cw|[|] ty|[|] ty|] eqn:Ek; cbn [is_key_kind];
      try (rewrite Hch in Ez; destruct j; discriminate).
    + rewrite (nokeys_nth _ _ _ Hch Ez), Hv. cbn [length app]. reflexivity.
    + rewrite (nokeys_nth _ _ _ Hch Ez), Hv. cbn [length app]. reflexivity.
    + destruct Hch as [_ Hnk].
      pose proof (keys_ok sc y s cw Hok Hsw Lc Ek) as K.
      rewrite <- (ko_map _ _ K), (target_keys_id _ (ko_dist _ _ K)).
      rewrite key_nodes_lead; [|intros c Hc; destruct (ko_each _ _ K c Hc) as (_ & _ & _ & _ & _ & H2 & _); exact H2].
      rewrite (key_child_iff _ _ _ Hnk Ez), Hv. reflexivity.
Qed.

(* the top-level node of the spine, when it is addressed by position, is the first instance: lyd_new_path() refuses to
   create position N > 1 in an empty tree (only for the first node it creates; see new_path_top_position_refuted) *)
Definition top_first (t : list dnode) (p : list nat) : Prop :=
  match p with
  | i :: _ => match nth_error t i with
              | Some y => dup_inst (d_k y) = true -> run_back y (rev (firstn i t)) = 0
              | None => True
              end
  | [] => True
  end.

Lemma eval_segs_empty l : eval_segs l [] = ENone.
Proof.
  destruct l as [|cs l]; [reflexivity|]. cbn [eval_segs]. unfold eval_seg.
  destruct (cs_pred cs); reflexivity.
Qed.

(* C15, creation in an empty tree: the chain created from the path and the value of a node is the node and its
   ancestors, list instances with their keys *)
Theorem new_path_empty_var S t p x w :
  swf S = true -> dwf S t = true -> var_ok var t = true -> node_at t p = Some x -> top_first t p -> val_ok x w ->
  new_path S [] (path_var var t p) w = NCreated None (spine t p).
Proof.
  intros Hs Hd Hq Hn Htop Hw. unfold new_path. rewrite (compile_path_var true S t p x Hs Hd Hq Hn).
  destruct (top_level S t Hs Hd Hq) as [L Hnk].
  rewrite (check_find_std w _ O (csegs_std p S t x L Hn)).
  rewrite eval_segs_empty. cbn [skipn].
  pose proof (mk_chain_ok p S t x w L Hn Hw) as Hch.
  destruct p as [|i p]; [discriminate|].
  cbn [node_at csegs chain_of top_first] in *. destruct (nth_error t i) as [y|] eqn:En; [|discriminate].
  destruct (level_down S t i y L En) as (s & Hok & Hsw & Hqy & Lc).
  rewrite (no_find _ _ _ Hok) in *. cbn [cs_pred cs_k cs_m cs_n children_at].
  rewrite (nokeys_nth _ _ _ Hnk En) in Hch.
  assert (Ekk : is_key_kind (s_k s) = false) by (rewrite (no_k _ _ _ Hok); apply (nokeys_nth _ _ _ Hnk En)).
  rewrite Ekk.
  assert (Epos : match cpred_of (rev (firstn i t)) y with
                 | CPos q => dup_inst (s_k s) && (inst_count (s_m s) (s_n s) [] + 1 <? q)
                 | _ => false
                 end = false).
  { rewrite (no_k _ _ _ Hok). unfold cpred_of. assert (Hsm : N.of_nat (length (rev (firstn i t))) < 2147483648).
    { pose proof (before_len t i). pose proof (lv_len _ _ L). lia. }
    destruct (d_k y) as [pr|[|] cw|[|] ty|ik ty|]; try reflexivity; cbn [dup_inst andb inst_count find_idx];
      rewrite list_pos_small by exact Hsm; rewrite (Htop eq_refl); reflexivity. }
  rewrite Epos. rewrite Hch. reflexivity.
Qed.

End WithVar.

(* ---------- the printed path: [var] = the stored canonical value ---------- *)
Section DnodeInd.
  Variable P : dnode -> Prop.
  Hypothesis H : forall m n k v ch, Forall P ch -> P (DN m n k v ch).
  Fixpoint dnode_ind' (x : dnode) : P x :=
    match x with
    | DN m n k v ch =>
        H m n k v ch
          ((fix go (l : list dnode) : Forall P l :=
              match l with
              | [] => Forall_nil P
              | c :: l' => Forall_cons c (dnode_ind' c) (go l')
              end) ch)
    end.
End DnodeInd.

Lemma own_var_node x : forall sc, dwf_node sc x = true -> quotes_ok_node x = true -> var_ok_node d_v x = true.
Proof.
  induction x as [m n k v ch IH] using dnode_ind'. intros sc Hd Hq.
  cbn [dwf_node] in Hd. destruct (find_child sc m n) as [s|]; [|discriminate].
  repeat (apply andb_true_iff in Hd; destruct Hd as [Hd ?]).
  cbn [quotes_ok_node] in Hq. apply andb_true_iff in Hq. destruct Hq as [Hq1 Hq2].
  cbn [var_ok_node d_v]. apply andb_true_iff. split.
  - destruct k as [pr|kl cw|[|] ty|[|] ty|]; cbn [needs_lit kind_ty] in *; try reflexivity.
    + rewrite H3, Hq1. reflexivity.
    + rewrite H3, Hq1. reflexivity.
  - rewrite forallb_forall. intros c Hc. rewrite Forall_forall in IH.
    match goal with Hx : forallb (dwf_node _) ch = true |- _ => rename Hx into Hdch end.
    rewrite forallb_forall in Hdch, Hq2. apply (IH c Hc (s_ch s)); [apply Hdch; exact Hc|apply Hq2; exact Hc].
Qed.

Lemma own_var_ok S t : dwf S t = true -> quotes_ok t = true -> var_ok d_v t = true.
Proof.
  unfold dwf, quotes_ok, var_ok. intros Hd Hq.
  apply andb_true_iff in Hd. destruct Hd as [Hd _]. apply andb_true_iff in Hd. destruct Hd as [_ Hd].
  rewrite forallb_forall in *. intros x Hx. apply (own_var_node x S); [apply Hd; exact Hx|apply Hq; exact Hx].
Qed.

Lemma path_of_var t p x : node_at t p = Some x -> path_of t p = Some (path_var d_v t p).
Proof. intro H. apply (path_from_render p None t x H). Qed.

(* the four theorems for the path lyd_path() prints *)
Theorem roundtrip_stages S t p x :
  swf S = true -> dwf S t = true -> quotes_ok t = true -> node_at t p = Some x ->
  exists bs sp cp,
    path_of t p = Some bs /\ parse_path bs = Ok sp /\
    compile_segs false S None sp = Ok cp /\ compile_segs true S None sp = Ok cp /\
    eval_segs cp t = EFound p.
Proof.
  intros Hs Hd Hq Hn.
  destruct (roundtrip_stages_var d_v S t p x Hs Hd (own_var_ok S t Hd Hq) Hn) as (sp & cp & H1 & H2 & H3 & H4).
  exists (path_var d_v t p), sp, cp. split; [apply (path_of_var t p x Hn)|]. auto.
Qed.

Theorem find_own S t p x :
  swf S = true -> dwf S t = true -> quotes_ok t = true -> node_at t p = Some x ->
  exists bs, path_of t p = Some bs /\ find_path S t bs = FRes (EFound p).
Proof.
  intros Hs Hd Hq Hn. exists (path_var d_v t p). split; [apply (path_of_var t p x Hn)|].
  apply (find_var d_v S t p x Hs Hd (own_var_ok S t Hd Hq) Hn).
Qed.

Theorem new_path_exists S t p x v :
  swf S = true -> dwf S t = true -> quotes_ok t = true -> node_at t p = Some x ->
  exists bs, path_of t p = Some bs /\
             new_path S t bs v = if is_dflt x then NCreated None [] else NErr E_EXIST.
Proof.
  intros Hs Hd Hq Hn. exists (path_var d_v t p). split; [apply (path_of_var t p x Hn)|].
  apply (new_path_exists_var d_v S t p x v Hs Hd (own_var_ok S t Hd Hq) Hn).
Qed.

(* the stored value of a node is an admissible value for its creation *)
Lemma val_ok_own S t p x : swf S = true -> dwf S t = true -> node_at t p = Some x -> val_ok x (d_v x).
Proof.
  intros Hs Hd. revert x. unfold dwf in Hd.
  apply andb_true_iff in Hd. destruct Hd as [Hd _]. apply andb_true_iff in Hd. destruct Hd as [_ Hd].
  assert (G : forall p f sc x, forallb (dwf_node sc) f = true -> node_at f p = Some x -> val_ok x (d_v x)).
  { clear. induction p as [|i p IH]; intros f sc x Hf Hn; [discriminate|].
    cbn [node_at] in Hn. destruct (nth_error f i) as [y|] eqn:En; [|discriminate].
    pose proof (forallb_nth _ _ _ _ Hf En) as Hy.
    destruct (dwf_node_unpack sc y Hy) as (s & Hok & _ & _ & Hch).
    destruct p as [|j p].
    - inversion Hn; subst y. pose proof (no_val _ _ _ Hok) as Hv. unfold val_ok.
      destruct (d_k x) as [pr|kl cw|cw ty|ik ty|]; cbn [kind_ty] in Hv; auto.
    - apply (IH (d_ch y) (s_ch s) x Hch Hn). }
  intros x Hn. apply (G p t S x Hd Hn).
Qed.

Theorem new_path_empty S t p x :
  swf S = true -> dwf S t = true -> quotes_ok t = true -> node_at t p = Some x -> top_first t p ->
  exists bs, path_of t p = Some bs /\ new_path S [] bs (d_v x) = NCreated None (spine t p).
Proof.
  intros Hs Hd Hq Hn Htop. exists (path_var d_v t p). split; [apply (path_of_var t p x Hn)|].
  apply (new_path_empty_var d_v S t p x (d_v x) Hs Hd (own_var_ok S t Hd Hq) Hn Htop (val_ok_own S t p x Hs Hd Hn)).
Qed.

(* ---------- lyd_change_term(): the path after a change of value ---------- *)
Lemma nth_error_mid {A} (f : list A) i y z : nth_error f i = Some y ->
  nth_error (firstn i f ++ z :: skipn (S i) f) i = Some z.
Proof.
  intro H. assert (Hi : (i < length f)%nat) by (apply nth_error_Some; congruence).
  rewrite nth_error_app2; rewrite firstn_length; [|lia].
  replace (i - Nat.min i (length f))%nat with O by lia. reflexivity.
Qed.

Lemma node_at_set_val p : forall f x cw,
  node_at f p = Some x -> node_at (set_val f p cw) p = Some (DN (d_m x) (d_n x) (d_k x) cw (d_ch x)).
Proof.
  induction p as [|i p IH]; intros f x cw H; [discriminate|].
  cbn [node_at set_val] in *. destruct (nth_error f i) as [y|] eqn:En; [|discriminate].
  rewrite (nth_error_mid f i y _ En). destruct p as [|j p].
  - inversion H; subst y. reflexivity.
  - cbn [d_ch]. apply IH. exact H.
Qed.

(* the changed tree t' holds the canonical form of the new text in the node at p; whenever t' is well-formed again (the
   new key tuple / leaf-list value is not the one of a sibling: dwf, decidable) and has no value with both quote
   characters, every node of t' - the changed one, the list instance it is a key of, everything below that instance - is
   found by its NEW printed path and creating it reports LY_EEXIST *)
Theorem change_term_paths S t p w t' :
  swf S = true -> change_term t p w = Some t' -> dwf S t' = true -> quotes_ok t' = true ->
  (exists x cw, node_at t p = Some x /\ canon (kind_ty (d_k x)) w = Some cw /\
                node_at t' p = Some (DN (d_m x) (d_n x) (d_k x) cw (d_ch x)) /\
                is_dflt (DN (d_m x) (d_n x) (d_k x) cw (d_ch x)) = false) /\
  (forall q y, node_at t' q = Some y ->
     exists bs, path_of t' q = Some bs /\ find_path S t' bs = FRes (EFound q) /\
                forall v, new_path S t' bs v = if is_dflt y then NCreated None [] else NErr E_EXIST).
Proof.
  intros Hs Hc Hd Hq. split.
  - unfold change_term in Hc. destruct (node_at t p) as [x|] eqn:Hn; [|discriminate].
    destruct (d_k x) as [pr|kl cw0|cw0 ty|ik ty|] eqn:Ek; try discriminate.
    + destruct (canon ty w) as [cw|] eqn:Ec; [|discriminate]. inversion Hc; subst t'.
      exists x, cw. rewrite Ek. cbn [kind_ty]. split; [reflexivity|]. split; [exact Ec|].
      split; [rewrite <- Ek; apply node_at_set_val; exact Hn|reflexivity].
    + destruct (canon ty w) as [cw|] eqn:Ec; [|discriminate]. inversion Hc; subst t'.
      exists x, cw. rewrite Ek. cbn [kind_ty]. split; [reflexivity|]. split; [exact Ec|].
      split; [rewrite <- Ek; apply node_at_set_val; exact Hn|reflexivity].
  - intros q y Hy. exists (path_var d_v t' q). split; [apply (path_of_var t' q y Hy)|].
    split; [apply (find_var d_v S t' q y Hs Hd (own_var_ok S t' Hd Hq) Hy)|].
    intro v. apply (new_path_exists_var d_v S t' q y v Hs Hd (own_var_ok S t' Hd Hq) Hy).
Qed.

(* ---------- a non-trivial tree that meets the hypotheses, and the limits of the theorems ---------- *)
From Coq Require Import String Ascii.
From LY Require IntLex.
Fixpoint sb (s : string) : bytes :=
  match s with
  | EmptyString => []
  | String a r => N_of_ascii a :: sb r
  end.

(* two modules with equal local names (m2 augments m1:c/l with a leaf named like the first key and m1:c with a container
   named c, and has its own top-level c); a list with two keys, a nested list, a leaf-list; state data with a key-less
   list, state leaf-lists; a top-level key-less list *)
Definition ex_S : list snode :=
  [ SN (sb "m1") (sb "c") (KCont false)
      [ SN (sb "m1") (sb "l") (KList false true)
          [ SN (sb "m1") (sb "k1") (KLeaf true TString) []; SN (sb "m1") (sb "k.2") (KLeaf true TString) [];
            SN (sb "m1") (sb "v") (KLeaf false TString) [];
            SN (sb "m1") (sb "inner") (KList false true)
              [ SN (sb "m1") (sb "id") (KLeaf true TString) []; SN (sb "m1") (sb "ll") (KLeafList true TString) [] ];
            SN (sb "m2") (sb "k1") (KLeaf false TString) [] ];
        SN (sb "m1") (sb "tl") (KList false true)
          [ SN (sb "m1") (sb "n") (KLeaf true (TInt IntLex.I8)) []; SN (sb "m1") (sb "b") (KLeaf true TBool) [];
            SN (sb "m1") (sb "e") (KLeaf true (TEnum [sb "up"; sb "a b"])) [];
            SN (sb "m1") (sb "u") (KLeaf false (TInt IntLex.U8)) [] ];
        SN (sb "m2") (sb "c") (KCont true) [] ];
    SN (sb "m1") (sb "st") (KCont false)
      [ SN (sb "m1") (sb "kl") (KList true false)
          [ SN (sb "m1") (sb "x") (KLeaf false TString) []; SN (sb "m1") (sb "sl") (KLeafList false TString) [] ];
        SN (sb "m1") (sb "sl") (KLeafList false TString) [] ];
    SN (sb "m1") (sb "tk") (KList true false) [ SN (sb "m1") (sb "and") (KAny) [] ];
    SN (sb "m2") (sb "c") (KCont false) [ SN (sb "m2") (sb "a") (KLeaf false TString) [] ] ].

Definition ex_t : list dnode :=
  [ DN (sb "m1") (sb "c") (KCont false) []
      [ DN (sb "m1") (sb "l") (KList false true) []
          [ DN (sb "m1") (sb "k1") (KLeaf true TString) (sb "a b") []; DN (sb "m1") (sb "k.2") (KLeaf true TString) (sb "[x]'y/") [];
            DN (sb "m1") (sb "v") (KLeaf false TString) (sb "it's ""1""") [];
            DN (sb "m1") (sb "inner") (KList false true) []
              [ DN (sb "m1") (sb "id") (KLeaf true TString) (sb "i""1") [];
                DN (sb "m1") (sb "ll") (KLeafList true TString) [] []; DN (sb "m1") (sb "ll") (KLeafList true TString) (sb "p/q\") [] ];
            DN (sb "m1") (sb "inner") (KList false true) []
              [ DN (sb "m1") (sb "id") (KLeaf true TString) [195; 169] [] ];
            DN (sb "m2") (sb "k1") (KLeaf false TString) (sb "z") [] ];
        DN (sb "m1") (sb "l") (KList false true) []
          [ DN (sb "m1") (sb "k1") (KLeaf true TString) (sb "a b") []; DN (sb "m1") (sb "k.2") (KLeaf true TString) (sb "]") [] ];
        DN (sb "m1") (sb "tl") (KList false true) []
          [ DN (sb "m1") (sb "n") (KLeaf true (TInt IntLex.I8)) (sb "-7") []; DN (sb "m1") (sb "b") (KLeaf true TBool) (sb "true") [];
            DN (sb "m1") (sb "e") (KLeaf true (TEnum [sb "up"; sb "a b"])) (sb "a b") [];
            DN (sb "m1") (sb "u") (KLeaf false (TInt IntLex.U8)) (sb "200") [] ];
        DN (sb "m1") (sb "tl") (KList false true) []
          [ DN (sb "m1") (sb "n") (KLeaf true (TInt IntLex.I8)) (sb "7") []; DN (sb "m1") (sb "b") (KLeaf true TBool) (sb "false") [];
            DN (sb "m1") (sb "e") (KLeaf true (TEnum [sb "up"; sb "a b"])) (sb "up") [] ];
        DN (sb "m2") (sb "c") (KCont true) [] [] ];
    DN (sb "m1") (sb "st") (KCont false) []
      [ DN (sb "m1") (sb "kl") (KList true false) []
          [ DN (sb "m1") (sb "x") (KLeaf false TString) (sb "1") [];
            DN (sb "m1") (sb "sl") (KLeafList false TString) (sb "a") []; DN (sb "m1") (sb "sl") (KLeafList false TString) (sb "a") [] ];
        DN (sb "m1") (sb "kl") (KList true false) [] [];
        DN (sb "m1") (sb "kl") (KList true false) [] [ DN (sb "m1") (sb "x") (KLeaf false TString) (sb "2") [] ];
        DN (sb "m1") (sb "sl") (KLeafList false TString) (sb "dup") []; DN (sb "m1") (sb "sl") (KLeafList false TString) (sb "dup") [] ];
    DN (sb "m1") (sb "tk") (KList true false) [] [ DN (sb "m1") (sb "and") KAny [] [] ];
    DN (sb "m1") (sb "tk") (KList true false) [] [];
    DN (sb "m2") (sb "c") (KCont false) [] [ DN (sb "m2") (sb "a") (KLeaf false TString) (sb "v") [] ] ].

(* the same two values with the strings computed away (for the extraction: the correspondence component feeds this very
   tree, as libyang holds it, to the model and to the implementation; corpus/pathmodel.txt) *)
Definition ex_S_c : list snode := Eval vm_compute in ex_S.
Definition ex_t_c : list dnode := Eval vm_compute in ex_t.
Lemma ex_c_eq : ex_S_c = ex_S /\ ex_t_c = ex_t.
Proof. split; reflexivity. Qed.

(* positions of all nodes *)
Fixpoint all_pos_node (x : dnode) (p : list nat) {struct x} : list (list nat) :=
  match x with
  | DN _ _ _ _ ch =>
      p :: (fix go (l : list dnode) (i : nat) : list (list nat) :=
              match l with
              | [] => []
              | c :: r => all_pos_node c (p ++ [i]) ++ go r (S i)
              end) ch O
  end.
Fixpoint all_pos (f : list dnode) (i : nat) : list (list nat) :=
  match f with
  | [] => []
  | x :: r => all_pos_node x [i] ++ all_pos r (S i)
  end.

Fixpoint pos_eqb (a b : list nat) : bool :=
  match a, b with
  | [], [] => true
  | x :: a', y :: b' => Nat.eqb x y && pos_eqb a' b'
  | _, _ => false
  end.

(* the statements of find_own and new_path_exists, computed *)
Definition own_ok (S : list snode) (t : list dnode) (p : list nat) : bool :=
  match path_of t p, node_at t p with
  | Some bs, Some x =>
      match find_path S t bs with FRes (EFound q) => pos_eqb p q | _ => false end &&
      match new_path S t bs [] with
      | NErr e => negb (is_dflt x) && (e =? E_EXIST)
      | NCreated None [] => is_dflt x
      | _ => false
      end
  | _, _ => false
  end.

Lemma ex_hyps :
  swf ex_S = true /\ dwf ex_S ex_t = true /\ quotes_ok ex_t = true /\
  List.length (all_pos ex_t O) = 40%nat /\ forallb (own_ok ex_S ex_t) (all_pos ex_t O) = true /\
  path_of ex_t [0; 0; 3; 2]%nat = Some (sb "/m1:c/l[k1='a b'][k.2=""[x]'y/""]/inner[id='i""1']/ll[.='p/q\']") /\
  path_of ex_t [0; 0; 5]%nat = Some (sb "/m1:c/l[k1='a b'][k.2=""[x]'y/""]/m2:k1") /\
  path_of ex_t [0; 4]%nat = Some (sb "/m1:c/m2:c") /\
  path_of ex_t [0; 2; 3]%nat = Some (sb "/m1:c/tl[n='-7'][b='true'][e='a b']/u") /\
  canon (TInt IntLex.I8) (sb " -07 ") = Some (sb "-7") /\ canon (TInt IntLex.I8) (sb "+007") = Some (sb "7") /\
  canon (TInt IntLex.I8) (sb "128") = None /\ canon TBool (sb "True") = None /\
  find_path ex_S ex_t (sb "/m1:c/tl[n=' -07 '][b='true'][e='a b']/u") = FRes (EFound [0; 2; 3]%nat) /\
  find_path ex_S ex_t (sb "/m1:c/tl[e='up'][n=""+007""][b='false']") = FRes (EFound [0; 3]%nat) /\
  new_path ex_S [] (sb "/m1:c/tl[n='-007'][b='true'][e='a b']/u") (sb "+0200") = NCreated None (spine ex_t [0; 2; 3]%nat) /\
  path_of ex_t [1; 2; 0]%nat = Some (sb "/m1:st/kl[3]/x") /\
  path_of ex_t [1; 4]%nat = Some (sb "/m1:st/sl[2]") /\
  new_path ex_S [] (sb "/m1:st/kl[3]/x") (sb "2") = NCreated None (spine ex_t [1; 2; 0]%nat).
Proof. vm_compute. repeat split. Qed.

(* regression example for the class of seeded change C15-8 (stale identity after lyd_change_term): a key of a two-key list
   instance, a typed key given in non-canonical spelling and a configuration leaf-list value are changed; afterwards every
   node of the changed tree is found by its new printed path and re-creation reports LY_EEXIST *)
Definition changed_ok (p : list nat) (w : bytes) : bool :=
  match change_term ex_t p w with
  | Some t' => dwf ex_S t' && quotes_ok t' && forallb (own_ok ex_S t') (all_pos t' O)
  | None => false
  end.

Lemma change_term_example :
  changed_ok [0; 1; 1]%nat (sb "new ]'v") = true /\
  changed_ok [0; 2; 0]%nat (sb " +09 ") = true /\
  changed_ok [0; 0; 3; 2]%nat (sb "z") = true /\
  (match change_term ex_t [0; 2; 0]%nat (sb " +09 ") with
   | Some t' => path_of t' [0; 2; 3]%nat
   | None => None
   end) = Some (sb "/m1:c/tl[n='9'][b='true'][e='a b']/u") /\
  change_term ex_t [0; 2; 0]%nat (sb "128") = None /\
  (* a change that makes two instances equal is outside the theorem: the tree is not well-formed any more *)
  (match change_term ex_t [0; 1; 1]%nat (sb "[x]'y/") with Some t' => dwf ex_S t' | None => true end) = false.
Proof. vm_compute. repeat split. Qed.

(* a key value with both quote characters (the known defect of Properties_C15_ytext.v, at path level): the printed path
   is rejected by the parser, so neither the search nor the creation works for that node and for everything below it *)
Definition ex_bad_t : list dnode :=
  [ DN (sb "m1") (sb "c") (KCont false) []
      [ DN (sb "m1") (sb "l") (KList false true) []
          [ DN (sb "m1") (sb "k1") (KLeaf true TString) (sb "a'b""c") []; DN (sb "m1") (sb "k.2") (KLeaf true TString) [] [];
            DN (sb "m1") (sb "v") (KLeaf false TString) (sb "1") [] ] ] ].

Lemma both_quotes_path_refuted :
  swf ex_S = true /\ dwf ex_S ex_bad_t = true /\ quotes_ok ex_bad_t = false /\
  path_of ex_bad_t [0; 0; 2]%nat = Some (sb "/m1:c/l[k1=""a'b""c""][k.2='']/v") /\
  find_path ex_S ex_bad_t (sb "/m1:c/l[k1=""a'b""c""][k.2='']/v") = FErr E_VALID /\
  new_path ex_S [] (sb "/m1:c/l[k1=""a'b""c""][k.2='']/v") (sb "1") = NErr E_VALID.
Proof. vm_compute. repeat split. Qed.

(* a top-level node addressed by a position above 1 is not created in an empty tree (LY_EINVAL); below the top level the
   position is not looked at: hypothesis top_first of new_path_empty cannot be dropped *)
Lemma new_path_top_position_refuted :
  path_of ex_t [3]%nat = Some (sb "/m1:tk[2]") /\ ~ top_first ex_t [3]%nat /\
  new_path ex_S [] (sb "/m1:tk[2]") [] = NErr E_INVAL.
Proof.
  split; [vm_compute; reflexivity|]. split; [|vm_compute; reflexivity].
  unfold top_first. cbn. intro H. specialize (H eq_refl). discriminate.
Qed.
