(* IntLex.v — model of the integer built-in types (int8..int64, uint8..uint64) as stored from a
   text value in a data tree:
     lyplg_type_store_int / lyplg_type_store_uint      src/plugins_types/integer.c
     lyplg_type_parse_int / lyplg_type_parse_uint      src/plugins_types.c
     ly_parse_int / ly_parse_uint                      src/ly_common.c
     strtoll / strtoull (base 10)                      libc, modelled explicitly below
   Every data entry point (XML, JSON strings, lyd_new_term, lyd_value_validate, path predicates)
   passes LYD_HINT_DATA, for which type_get_hints_base() yields base 10. Only schema defaults
   (LYD_HINT_SCHEMA) use base 0 with 0x / 0 prefix detection, as RFC 7950 9.2.1 allows for defaults;
   that caller is not modelled here.
   Model only; proofs in IntLexP.v. *)
From LY Require Import Base TypesMisc.
Local Open Scope N_scope.

(* strndup(val_str, val_len): the copy ends at the first NUL byte, so whatever follows an embedded
   NUL is never looked at (reachable through the entry points that take a length, e.g.
   lyd_value_validate(); not through XML/JSON text, which cannot carry a NUL). *)
Fixpoint cstr (s : bytes) : bytes :=
  match s with
  | [] => []
  | c :: s' => if c =? 0 then [] else c :: cstr s'
  end.

(* ---------- strtoull / strtoll, base 10 (glibc ____strtoull_l_internal) ----------
   skip isspace, optional sign, then the digit loop
       cutoff = ULONG_MAX / 10; cutlim = ULONG_MAX % 10;
       for each digit c:  if (i > cutoff || (i == cutoff && c > cutlim)) overflow = 1;
                          else { i *= 10; i += c; }
   The loop consumes ALL digits also after an overflow; once the flag is set the result is
   ERANGE whatever [i] is, so the model keeps [i] unchanged from there on. *)
Definition U64MAX : N := 18446744073709551615.
Definition CUTOFF : N := U64MAX / 10.
Definition CUTLIM : N := U64MAX mod 10.

Fixpoint acc_u64 (ds : bytes) (i : N) (ovf : bool) : N * bool :=
  match ds with
  | [] => (i, ovf)
  | d :: ds' =>
      let c := d - 48 in
      if ovf then acc_u64 ds' i true
      else if (CUTOFF <? i) || ((i =? CUTOFF) && (CUTLIM <? c)) then acc_u64 ds' i true
      else acc_u64 ds' (i * 10 + c) false
  end.

Inductive strto (A : Type) : Type :=
| NoConv                          (* no digits: endptr == str, result 0 *)
| ERange                          (* errno = ERANGE *)
| Conv (v : A) (rest : bytes).    (* converted value and the text at endptr *)
Arguments NoConv {A}.
Arguments ERange {A}.
Arguments Conv {A} v rest.

(* optional sign: returns (negative, text after the sign) *)
Definition take_sign (s : bytes) : bool * bytes :=
  match s with
  | c :: t => if c =? 45 then (true, t) else if c =? 43 then (false, t) else (false, s)
  | [] => (false, [])
  end.

(* the part common to strtoll and strtoull: white space, sign, the run of digits, what follows *)
Definition scan_num (str : bytes) : bool * bytes * bytes :=
  let '(neg, s2) := take_sign (skip_space str) in
  let '(ds, rest) := span_digits s2 in
  (neg, ds, rest).

(* strtoull(str, &ptr, 10): a minus sign negates the value in unsigned arithmetic and is not an
   error; ERANGE only when the magnitude exceeds ULONG_MAX *)
Definition strtoull10 (str : bytes) : strto N :=
  let '(neg, ds, rest) := scan_num str in
  match ds with
  | [] => NoConv
  | _ :: _ =>
      let '(i, ovf) := acc_u64 ds 0 false in
      if ovf then ERange
      else Conv (if neg then (U64MAX + 1 - i) mod (U64MAX + 1) else i) rest
  end.

(* strtoll(str, &ptr, 10): after the same loop,
       if (overflow == 0 && i > (negative ? -(LONG_MIN + 1) + 1 : LONG_MAX)) overflow = 1; *)
Definition I64MAX : N := 9223372036854775807.
Definition strtoll10 (str : bytes) : strto Z :=
  let '(neg, ds, rest) := scan_num str in
  match ds with
  | [] => NoConv
  | _ :: _ =>
      let '(i, ovf) := acc_u64 ds 0 false in
      if ovf || ((if neg then I64MAX + 1 else I64MAX) <? i) then ERange
      else Conv (if neg then - Z.of_N i else Z.of_N i)%Z rest
  end.

(* ---------- ly_parse_int(val_str, val_len, min, max, 10, &ret) ---------- *)
Definition ly_parse_int (s : bytes) (min max : Z) : res Z :=
  match s with
  | [] => Err E_INVAL                                   (* LY_CHECK_ARG_RET(val_len) *)
  | c0 :: _ =>
      if c0 =? 0 then Err E_INVAL                       (* LY_CHECK_ARG_RET(val_str[0]) *)
      else
        match strtoll10 (cstr s) with
        | NoConv | ERange => Err E_VALID                (* errno || ptr == str *)
        | Conv i rest =>
            if ((i <? min) || (max <? i))%Z then Err E_DENIED
            else match skip_space rest with             (* while (isspace( *ptr)) ++ptr; if ( *ptr) *)
                 | [] => Ok i
                 | _ :: _ => Err E_VALID
                 end
        end
  end.

(* ---------- ly_parse_uint(val_str, val_len, max, 10, &ret) ----------
   (u > max) || (u && (str[0] == '-')) -> LY_EDENIED: a minus sign is tolerated for the value 0 only *)
Definition ly_parse_uint (s : bytes) (max : Z) : res Z :=
  match s with
  | [] => Err E_INVAL
  | c0 :: _ =>
      if c0 =? 0 then Err E_INVAL
      else
        match strtoull10 (cstr s) with
        | NoConv | ERange => Err E_VALID
        | Conv u rest =>
            if ((max <? Z.of_N u)%Z || (negb (u =? 0) && (c0 =? 45))) then Err E_DENIED
            else match skip_space rest with
                 | [] => Ok (Z.of_N u)
                 | _ :: _ => Err E_VALID
                 end
        end
  end.

(* ---------- lyplg_type_parse_int / lyplg_type_parse_uint ----------
   leading white space is consumed first; an empty rest (or a NUL first) is the empty-value error *)
Definition plg_parse_int (s : bytes) (min max : Z) : res Z :=
  match skip_space s with
  | [] => Err E_EMPTY
  | (c0 :: _) as v => if c0 =? 0 then Err E_EMPTY else ly_parse_int v min max
  end.

Definition plg_parse_uint (s : bytes) (max : Z) : res Z :=
  match skip_space s with
  | [] => Err E_EMPTY
  | (c0 :: _) as v => if c0 =? 0 then Err E_EMPTY else ly_parse_uint v max
  end.

(* ---------- the eight types ---------- *)
Inductive ity : Type := I8 | I16 | I32 | I64 | U8 | U16 | U32 | U64.

Definition ity_signed (t : ity) : bool :=
  match t with I8 | I16 | I32 | I64 => true | _ => false end.

Definition ity_min (t : ity) : Z :=
  match t with
  | I8 => -128 | I16 => -32768 | I32 => -2147483648 | I64 => -9223372036854775808
  | _ => 0
  end%Z.

Definition ity_max (t : ity) : Z :=
  match t with
  | I8 => 127 | I16 => 32767 | I32 => 2147483647 | I64 => 9223372036854775807
  | U8 => 255 | U16 => 65535 | U32 => 4294967295 | U64 => 18446744073709551615
  end%Z.

(* lyplg_type_store_int / lyplg_type_store_uint for a text value: parse with the bounds of the
   type, then lyplg_type_validate_range() when the type has a range ([parts] = [] when it has none).
   The stored C integer (int8_t .. uint64_t) holds the parsed number without loss because of the
   bounds check; the model value is that number. *)
Definition int_store (t : ity) (parts : list (Z * Z)) (s : bytes) : res Z :=
  match (if ity_signed t then plg_parse_int s (ity_min t) (ity_max t)
         else plg_parse_uint s (ity_max t)) with
  | Err e => Err e
  | Ok v => if validate_range parts v then Ok v else Err E_RANGE
  end.

(* canonical string: asprintf with the format PRId8 .. PRId64 / PRIu64 *)
Definition Z_to_dec (v : Z) : bytes :=
  if (v <? 0)%Z then 45 :: N_to_dec (Z.abs_N v) else N_to_dec (Z.abs_N v).
Definition int_canon (v : Z) : bytes := Z_to_dec v.

(* lyplg_type_compare_int/uint: != on the stored integers; lyplg_type_sort_int/uint: < > on them *)
Definition int_compare (a b : Z) : bool := (a =? b)%Z.
Definition int_sort (a b : Z) : comparison := (a ?= b)%Z.

(* ---------- Spec ----------
   RFC 7950 9.2.1: an integer value is lexically represented as an optional sign (+ or -) followed by
   a sequence of decimal digits; the value is the number so written. *)
Definition all_space (ws : bytes) : Prop := forallb is_space ws = true.
Definition all_digit (ds : bytes) : Prop := forallb is_digit ds = true.
Definition is_sign (sg : bytes) : Prop := sg = [] \/ sg = [43] \/ sg = [45].
Definition sign_val (sg : bytes) (m : N) : Z :=
  if beq_bytes sg [45] then (- Z.of_N m)%Z else Z.of_N m.
(* nothing, or a NUL byte followed by anything *)
Definition nul_tail (tl : bytes) : Prop := tl = [] \/ exists j, tl = 0 :: j.

Inductive rfc_int_lex : bytes -> Z -> Prop :=
| RfcInt sg ds :
    is_sign sg -> ds <> [] -> all_digit ds ->
    rfc_int_lex (sg ++ ds) (sign_val sg (dec_to_N ds)).

(* The language libyang accepts for integer data values, stated explicitly: the RFC representation
   with any isspace() characters before and after it (documented tolerance of libyang), and - as
   coded, through the entry points that take a length - cut at the first NUL byte. *)
Inductive ly_int_lex : bytes -> Z -> Prop :=
| LyInt ws1 core ws2 tl v :
    all_space ws1 -> all_space ws2 -> nul_tail tl -> rfc_int_lex core v ->
    ly_int_lex (ws1 ++ core ++ ws2 ++ tl) v.

(* RFC 7950 9.2.2 canonical form: no plus sign, no leading zeros, zero is the single digit 0 *)
Definition rfc_int_canonical (c : bytes) : Prop :=
  c = [48] \/
  exists sg d ds, c = sg ++ d :: ds /\ (sg = [] \/ sg = [45]) /\ is_digit d = true /\ d <> 48 /\ all_digit ds.
