(* Properties_C11_iff.v — property C11 (compilation gives constructs their RFC meaning), if-feature part:
   theorem statements only. Model: IfFeature.v (lys_compile_iffeature, lysc_iffeature_value of
   src/schema_features.c, index style, as of /repo commits 299b7de, 6f66310, 685c1af); proofs: IfFeatureP.v. *)
From LY Require Import Base IfFeature IfFeatureP.
Local Open Scope N_scope.

(* Evaluating the 2-bit prefix code of an expression (packed four records per byte as iff_setop does,
   features in order of occurrence) with lysc_iffeature_value gives the truth value of the expression
   under the assignment, without leaving the arrays. *)
Theorem C11_iffeature_eval_prefix_correct :
  forall e env cnt, N.of_nat (length (pre e)) < U64 ->
    iff_value (pack (pre e), map Some (feats e), cnt) env = IOk (denote env e).
Proof. exact eval_prefix_correct'. Qed.
Print Assumptions C11_iffeature_eval_prefix_correct.

(* iffeature_correct at full strength: every string r derivable from the RFC 7950 if-feature grammar
   (any parenthesisation; sep / optsep any run of SP, HTAB, LF, CR, VT, FF) with parse tree e, whose
   feature names the module resolves, compiles, and the compiled expression evaluates to the denotation
   of e under every assignment. The result includes: no out-of-bounds access in either pass and in the
   evaluation, pre-pass sizes = number of records / features the main pass writes.
   History: this was false for the earlier code (`not (not a)` is in the grammar and ran out of the
   expression array) and was proved only under the side condition not_cancel_adjacent; the defect was
   fixed in /repo commit 299b7de (the other two fixes, 6f66310 and 685c1af, concern ungrammatical
   strings only) and the theorem now holds without side condition. *)
Definition iffeature_correct_statement : Prop :=
  forall lookup e r, rexpr e r -> (forall x, In x (feats e) -> lookup x = Some x) -> len_ok r ->
    exists c, compile lookup true r = IOk c /\ forall env, iff_value c env = IOk (denote env e).

Theorem C11_iffeature_correct : iffeature_correct_statement.
Proof. exact compile_grammar. Qed.
Print Assumptions C11_iffeature_correct.

(* regression: the former refutation witness `not (not a)` is in the grammar and now compiles to the
   three records NOT NOT F, which evaluate to a *)
Example C11_former_witness :
  rexpr (Not (Not (F [97]))) w_not_paren /\
  compile lookup_abc true w_not_paren = IOk ([48], [Some [97]], 1) /\
  iff_value ([48], [Some [97]], 1) (env_abc true false false) = IOk true /\
  iff_value ([48], [Some [97]], 1) (env_abc false true true) = IOk false.
Proof. split; [exact rexpr_not_paren|]. vm_compute. repeat split. Qed.

(* the two concrete renderers (all operator applications in parentheses / only the parentheses the
   grammar requires) produce strings of the grammar for every expression *)
Theorem C11_render_full_in_grammar : forall e, names_ok e -> rexpr e (render_full e).
Proof. exact render_full_rexpr. Qed.
Print Assumptions C11_render_full_in_grammar.
Theorem C11_render_min_in_grammar : forall e, names_ok e -> rexpr e (render_min 2 e).
Proof. exact render_min_rexpr. Qed.
Print Assumptions C11_render_min_in_grammar.

(* the hypotheses are satisfiable by a non-trivial value: (a and not not b) or not (c and not a), minimal
   parentheses: `a and not not b or not (c and not a)` *)
Example C11_hypotheses_satisfiable :
  rexpr ex_e (render_min 2 ex_e) /\ (forall x, In x (feats ex_e) -> lookup_abc x = Some x) /\
  len_ok (render_min 2 ex_e) /\
  compile lookup_abc true (render_min 2 ex_e)
    = IOk ([246; 52; 3], [Some [97]; Some [98]; Some [99]; Some [97]], 4).
Proof.
  split; [exact (render_min_rexpr ex_e ex_e_names)|]. split; [|split].
  - intros x Hx. cbn in Hx. repeat (destruct Hx as [<-|Hx]; [reflexivity|]). destruct Hx.
  - unfold len_ok. cbn. lia.
  - vm_compute. reflexivity.
Qed.

(* known lenient acceptance (DESIGN section 7): `a not and b` is not in the grammar, yet compiles to the
   same arrays as `not a and b` *)
Example C11_lenient_not_placement :
  compile lookup_abc true [97;32;110;111;116;32;97;110;100;32;98]
  = compile lookup_abc true [110;111;116;32;97;32;97;110;100;32;98].
Proof. vm_compute. reflexivity. Qed.
