(* Properties_C11_iff.v — property C11 (compilation gives constructs their RFC meaning), if-feature part:
   theorem statements only. Model: IfFeature.v (lys_compile_iffeature, lysc_iffeature_value of
   src/schema_features.c, index style); proofs: IfFeatureP.v. *)
From LY Require Import Base IfFeature IfFeatureP.
Local Open Scope N_scope.

(* Evaluating the 2-bit prefix code of an expression (packed four records per byte as iff_setop does,
   features in order of occurrence) with lysc_iffeature_value gives the truth value of the expression
   under the assignment, without leaving the arrays. *)
Theorem C11_iffeature_eval_prefix_correct :
  forall e env cnt, N.of_nat (length (pre e)) < U64 ->
    iff_value (pack (pre e), map Some (feats e), cnt) env = IOk (denote env e).
Proof. exact eval_prefix_correct'. Qed.
Print Assumptions C11_iffeature_eval_prefix_correct.

(* iffeature_correct at full strength: every string r derivable from the RFC 7950 if-feature grammar
   (any parenthesisation, any white-space) with parse tree e, whose feature names the module resolves,
   compiles, and the compiled expression evaluates to the denotation of e under every assignment.
   This is FALSE for the code as it is: *)
Definition iffeature_correct_statement : Prop :=
  forall lookup e r, rexpr e r -> (forall x, In x (feats e) -> lookup x = Some x) -> len_ok r ->
    exists c, compile lookup true r = IOk c /\ forall env, iff_value c env = IOk (denote env e).

(* witness: `not (not a)` is in the grammar, a is a feature of the module, and the compiler runs out of
   the expression array (the real code crashes with SIGSEGV) *)
Theorem C11_iffeature_correct_refuted :
  exists lookup e r, rexpr e r /\ (forall x, In x (feats e) -> lookup x = Some x) /\ len_ok r /\
                     compile lookup true r = IOob.
Proof.
  exists lookup_abc, (Not (Not (F [97]))), w_not_paren. repeat split.
  - exact rexpr_not_paren.
  - intros x [<-|[]]. reflexivity.
Qed.
Print Assumptions C11_iffeature_correct_refuted.

Theorem C11_iffeature_correct_statement_false : ~ iffeature_correct_statement.
Proof.
  intro H. destruct C11_iffeature_correct_refuted as (lookup & e & r & H1 & H2 & H3 & H4).
  destruct (H lookup e r H1 H2 H3) as (c & Hc & _). congruence.
Qed.
Print Assumptions C11_iffeature_correct_statement_false.

(* iffeature_correct for the whole grammar family minus the defect: the same statement under the one
   extra hypothesis that the pre-pass never cancels a `not` against an earlier one across a parenthesis
   (not_cancel_adjacent, an executable check on r). Covers every parenthesisation and every white-space
   variant (SP, HTAB, LF, CR, VT, FF in any number). The result includes: no out-of-bounds access in either
   pass and in the evaluation, pre-pass sizes = number of records / features the main pass writes. *)
Theorem C11_iffeature_correct_partial :
  forall lookup e r, rexpr e r -> (forall x, In x (feats e) -> lookup x = Some x) ->
    not_cancel_adjacent r = true -> len_ok r ->
    exists c, compile lookup true r = IOk c /\ forall env, iff_value c env = IOk (denote env e).
Proof. exact compile_grammar. Qed.
Print Assumptions C11_iffeature_correct_partial.

(* the two concrete renderers (all operator applications in parentheses / only the parentheses the
   grammar requires) produce strings of the grammar for every expression *)
Theorem C11_render_full_in_grammar : forall e, names_ok e -> rexpr e (render_full e).
Proof. exact render_full_rexpr. Qed.
Print Assumptions C11_render_full_in_grammar.
Theorem C11_render_min_in_grammar : forall e, names_ok e -> rexpr e (render_min 2 e).
Proof. exact render_min_rexpr. Qed.
Print Assumptions C11_render_min_in_grammar.

(* the hypotheses are satisfiable by a non-trivial value: (a and not not b) or not (c and not a), minimal
   parentheses: `a and not not b or not (c and not a)` *)
Example C11_hypotheses_satisfiable :
  rexpr ex_e (render_min 2 ex_e) /\ (forall x, In x (feats ex_e) -> lookup_abc x = Some x) /\
  not_cancel_adjacent (render_min 2 ex_e) = true /\ len_ok (render_min 2 ex_e) /\
  compile lookup_abc true (render_min 2 ex_e)
    = IOk ([246; 52; 3], [Some [97]; Some [98]; Some [99]; Some [97]], 4).
Proof.
  split; [exact (render_min_rexpr ex_e ex_e_names)|]. split; [|split; [|split]].
  - intros x Hx. cbn in Hx. repeat (destruct Hx as [<-|Hx]; [reflexivity|]). destruct Hx.
  - vm_compute. reflexivity.
  - unfold len_ok. cbn. lia.
  - vm_compute. reflexivity.
Qed.

(* known lenient acceptance (DESIGN section 7): `a not and b` is not in the grammar, yet compiles to the
   same arrays as `not a and b` *)
Example C11_lenient_not_placement :
  compile lookup_abc true [97;32;110;111;116;32;97;110;100;32;98]
  = compile lookup_abc true [110;111;116;32;97;32;97;110;100;32;98].
Proof. vm_compute. reflexivity. Qed.
