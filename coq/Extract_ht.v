(* Extract_ht.v - extraction of the hash-table / dictionary models (slice ht) to model_ht.ml *)
From Coq Require Extraction ExtrOcamlBasic.
From LY Require Import Base HashFn HashTable Dict Own.
Extraction Language OCaml.
Extraction "model_ht.ml"
  N.add N.mul N.div N.modulo N.sub Z.add Z.mul Z.opp Z.of_N Z.abs_N Z.sub Z.ltb
  HashFn.lyht_hash HashFn.lyht_hash_multi
  HashTable.lyht_new HashTable.nht_step HashTable.nht_run
  Dict.lydict_init Dict.dict_step Dict.dict_run
  Own.own_script_delta.
