(* C02, LYD_VALIDATE_NO_STATE: validation of configuration only (ValidateImpl.impl_parse_validate_config) accepts
   exactly the trees without config false nodes that are valid for the configuration view of the schema
   (RfcValid.rfc_valid_config). *)
From Coq Require Import List NArith Bool Arith Lia.
From LY Require Import Base Tree TreeP RfcValid ValidateImpl ValidP.
Import ListNotations.
Local Open Scope N_scope.

Lemma nostate_node_unfold vs x :
  nostate_node vs x = si_config (info vs (d_sid x)) && forallb (nostate_node vs) (d_ch x).
Proof. destruct x; reflexivity. Qed.

Section NoState.
  Variable ty : sid -> bytes -> bool.
  Variable vs : vschema.

  Definition OKns (l : list stree) (x : dnode) (e : verr) : Prop :=
    (e = EState -> forallb (nostate_node vs) (d_ch x) = true) /\ all_ctx_node (Pe vs e) l x = true.

  Lemma level_state (c : forest) e :
    (forall x, In x c -> e = EState -> si_config (info vs (d_sid x)) = true) ->
    (forall x, In x c -> e = EState -> forallb (nostate_node vs) (d_ch x) = true) ->
    e = EState -> forallb (nostate_node vs) c = true.
  Proof.
    intros H1 H2 He. apply forallb_forall. intros x Hx. rewrite nostate_node_unfold. apply andb_true_iff. split.
    - apply (H1 x Hx He).
    - apply (H2 x Hx He).
  Qed.

  Lemma level_state_inv (c : forest) e x :
    (e = EState -> forallb (nostate_node vs) c = true) -> In x c -> e = EState ->
    si_config (info vs (d_sid x)) = true /\ forallb (nostate_node vs) (d_ch x) = true.
  Proof.
    intros H Hx He. specialize (H He). rewrite forallb_forall in H. specialize (H x Hx).
    rewrite nostate_node_unfold in H. apply andb_true_iff in H. exact H.
  Qed.

  Lemma final_node_ns_spec n : forall l, wf_l vs l -> all_ctx_node case_ctx l n = true ->
    vspec (final_node_ns vs l n) (OKns l n).
  Proof.
    induction n as [s v d m ch IH] using dnode_ind'. intros l Hw Hc. rewrite Forall_forall in IH.
    unfold OKns. cbn [final_node_ns all_ctx_node d_ch] in *. apply andb_true_iff in Hc. destruct Hc as [Hc1 Hc2].
    rewrite forallb_forall in Hc2. pose proof (st_children_wf vs l s Hw) as Hw'.
    eapply vspec_ext.
    - apply vspec_vand'; [apply vspec_vall; intros x _; apply vspec_chk|].
      apply vspec_vand'; [apply schema_r_spec|].
      apply (visit_spec vs _ (OKns (st_children l s))).
      intros x Hx. apply (IH x Hx _ Hw' (Hc2 x Hx)).
    - intro e. cbn beta. unfold state_chk.
      rewrite andb_true_iff, (forallb_forall (all_ctx_node (Pe vs e) (st_children l s))), <- (ctx_identity ty vs e _ _ Hw' Hc1).
      unfold OKns. split.
      + intros [H1 [H2 [H3 H4]]]. split; [|split; [split; [exact H2|exact H3]|intros x Hx; apply (H4 x Hx)]].
        apply (level_state ch e); [exact H1|intros x Hx; apply (H4 x Hx)].
      + intros [H1 [[H2 H3] H4]]. split; [|split; [exact H2|split; [exact H3|]]].
        * intros x Hx He. apply (level_state_inv ch e x H1 Hx He).
        * intros x Hx. split; [intro He; apply (level_state_inv ch e x H1 Hx He)|apply (H4 x Hx)].
  Qed.

  Lemma final_top_ns_spec f : wf_l vs (vs_tree vs) -> all_ctx case_ctx (vs_tree vs) f = true ->
    vspec (final_top_ns vs f)
      (fun e => (e = EState -> rfc_nostate vs f = true) /\ all_ctx (Pe vs e) (vs_tree vs) f = true).
  Proof.
    intros Hw Hc. unfold final_top_ns, all_ctx, rfc_nostate in *. apply andb_true_iff in Hc. destruct Hc as [Hc1 Hc2].
    rewrite forallb_forall in Hc2.
    eapply vspec_ext.
    - apply vspec_vand'; [apply vspec_vall; intros x _; apply vspec_chk|].
      apply vspec_vand'; [apply schema_r_spec|].
      apply (visit_spec vs _ (OKns (vs_tree vs))).
      intros x Hx. apply (final_node_ns_spec x _ Hw (Hc2 x Hx)).
    - intro e. cbn beta. unfold state_chk.
      rewrite andb_true_iff, (forallb_forall (all_ctx_node (Pe vs e) (vs_tree vs))), <- (ctx_identity ty vs e _ _ Hw Hc1).
      unfold OKns. split.
      + intros [H1 [H2 [H3 H4]]]. split; [|split; [split; [exact H2|exact H3]|intros x Hx; apply (H4 x Hx)]].
        apply (level_state f e); [exact H1|intros x Hx; apply (H4 x Hx)].
      + intros [H1 [[H2 H3] H4]]. split; [|split; [exact H2|split; [exact H3|]]].
        * intros x Hx He. apply (level_state_inv f e x H1 Hx He).
        * intros x Hx. split; [intro He; apply (level_state_inv f e x H1 Hx He)|apply (H4 x Hx)].
  Qed.

  Hypothesis Hwf : vschema_ok vs = true.

  Definition ClassNS (f : forest) (e : verr) : Prop :=
    match e with
    | EState => rfc_nostate vs f = true
    | _ => ClassOK ty vs f e
    end.

  Lemma pe_class f :
    all_ctx (single_ctx vs) (vs_tree vs) f = true ->
    (forall e, match e with ENoMand | ENoMandChoice | ENoMin | ENoMax | ENoUniq => False | _ => True end -> ClassOK ty vs f e) ->
    forall e, all_ctx (Pe vs e) (vs_tree vs) f = true <-> ClassOK ty vs f e.
  Proof.
    intros Hs Hearly e. destruct (wf_parts vs Hwf) as [Hw [_ [Hu Hwu]]].
    destruct e; try (split; [intros _; apply Hearly; exact I|intros _; apply all_ctx_true; intros l' f'; apply Pe_other; exact I]);
      cbn [ClassOK].
    - reflexivity.
    - reflexivity.
    - reflexivity.
    - unfold rfc_max. rewrite (all_ctx_ext (Pe vs ENoMax) (max_ctx vs) (Pe_max vs)). reflexivity.
    - unfold rfc_unique. rewrite (uniq_all ty vs Hu f _ Hwu Hs). reflexivity.
  Qed.

  Lemma ns_assemble f (Hk : rfc_keys vs f = true) (Hty : rfc_types ty vs f = true)
      (Hcase : all_ctx case_ctx (vs_tree vs) f = true) (Hdup : all_ctx (dup_ctx vs) (vs_tree vs) f = true) :
    vspec (final_top_ns vs f) (ClassNS f).
  Proof.
    destruct (wf_parts vs Hwf) as [Hw [Hkk [Hu Hwu]]].
    apply (dup_rules ty vs Hkk f _ Hk) in Hdup. destruct Hdup as [S1 [S2 S3]].
    assert (Hearly : forall e, match e with ENoMand | ENoMandChoice | ENoMin | ENoMax | ENoUniq => False | _ => True end -> ClassOK ty vs f e).
    { intros e He. destruct e; try contradiction; cbn [ClassOK]; auto. }
    eapply vspec_ext; [apply (final_top_ns_spec f Hw Hcase)|].
    intro e. cbn beta. rewrite (pe_class f S1 Hearly e).
    destruct e; cbn [ClassNS ClassOK]; try (split; [intros [_ H]; exact H|intro H; split; [intro He; discriminate He|exact H]]).
    split; [intros [H _]; apply H; reflexivity|intro H; split; [intros _; exact H|exact I]].
  Qed.

  Theorem parse_validate_ns_spec f : nodflt f = true -> vspec (impl_parse_validate_ns vs ty f) (ClassNS f).
  Proof.
    intro Hd. destruct (wf_parts vs Hwf) as [Hw [Hk [Hu Hwu]]]. unfold impl_parse_validate_ns.
    eapply vspec_ext.
    - apply vspec_vand; [apply parse_spec|]. intro Hp.
      assert (Hty : rfc_types ty vs f = true) by (apply (Hp EType); reflexivity).
      assert (Hkeys : rfc_keys vs f = true) by (apply (Hp EKey); reflexivity).
      instantiate (1 := ClassNS f). unfold impl_validate_ns.
      destruct (vnew_fresh ty vs (S (vfsize (map mark_new f))) (vs_tree vs) f Hd (Nat.lt_succ_diag_r _)) as [[E Hn]|[e0 [E Hn]]]; rewrite E.
      + rewrite map_erase_mark_clr.
        pose proof (proj1 (Hn EDupCase) eq_refl) as Hcase. pose proof (proj2 (Hn EDup) eq_refl) as Hdup.
        apply (ns_assemble f Hkeys Hty Hcase Hdup).
      + apply vspec_err. intro Hc. apply Hn. split; intros ->; cbn [ClassNS ClassOK] in Hc.
        * exact Hc.
        * apply (dup_rules ty vs Hk f _ Hkeys). exact Hc.
    - intro e. cbn beta. split; [intros [_ H]; exact H|]. intro H. split; [|exact H].
      split; intros ->; exact H.
  Qed.
End NoState.

(* ------------------------------------------------------------------------------------------- *)
(* main theorems                                                                                 *)
(* ------------------------------------------------------------------------------------------- *)
Lemma class_ok_config_iff ty vs f e : class_ok_config ty vs f e = true <-> ClassNS ty (cfg_view vs) f e.
Proof. destruct e; cbn [class_ok_config ClassNS]; try apply class_ok_iff. reflexivity. Qed.

Lemma rules_config_classes ty vs f :
  rfc_nostate (cfg_view vs) f && rules_hold ty (cfg_view vs) f = true <-> forall e, class_ok_config ty vs f e = true.
Proof.
  rewrite andb_true_iff, rules_hold_classes. split.
  - intros [H1 H2] e. destruct e; cbn [class_ok_config]; try apply H2. exact H1.
  - intro H. split; [apply (H EState)|]. intro e. specialize (H e). destruct e; cbn [class_ok_config] in H; try exact H. reflexivity.
Qed.

(* cfg_view changes only the constraints of config false nodes *)
Lemma info_cfg_view vs s : info (cfg_view vs) s = neut (info vs s).
Proof.
  unfold info, cfg_view, sget. cbn [vs_info]. induction (vs_info vs) as [|[k i] r IH]; cbn [map lookup fst snd]; [reflexivity|].
  destruct (k =? s); [reflexivity|exact IH].
Qed.

Lemma kind_cfg_view vs s : kind (cfg_view vs) s = kind vs s.
Proof. unfold kind. rewrite info_cfg_view. unfold neut. destruct (si_config (info vs s)); reflexivity. Qed.

Lemma config_cfg_view vs s : si_config (info (cfg_view vs) s) = si_config (info vs s).
Proof. rewrite info_cfg_view. unfold neut. destruct (si_config (info vs s)) eqn:E; [exact E|reflexivity]. Qed.

Lemma fresh_cfg_view vs f : fresh (cfg_view vs) f = fresh vs f.
Proof.
  unfold fresh. f_equal. induction f as [f IH] using forest_ind'. unfold no_empty_np. apply forallb_ext_in.
  intros n Hn. specialize (IH n Hn). destruct n as [s v d m ch]. cbn [no_empty_np_node d_ch] in *.
  rewrite kind_cfg_view. f_equal. exact IH.
Qed.

Lemma nostate_cfg_view vs f : rfc_nostate (cfg_view vs) f = rfc_nostate vs f.
Proof.
  induction f as [f IH] using forest_ind'. unfold rfc_nostate. apply forallb_ext_in.
  intros n Hn. specialize (IH n Hn). destruct n as [s v d m ch]. cbn [nostate_node d_ch] in *.
  rewrite config_cfg_view. f_equal. exact IH.
Qed.

Theorem config_validate_iff_rfc ty vs f :
  vschema_ok (cfg_view vs) = true -> fresh vs f = true ->
  (impl_parse_validate_config vs ty f = VOk <-> rfc_valid_config ty vs f = true).
Proof.
  intros Hw Hf. rewrite <- fresh_cfg_view in Hf. unfold fresh in Hf. apply andb_true_iff in Hf. destruct Hf as [Hd He].
  unfold rfc_valid_config, rfc_valid, impl_parse_validate_config. rewrite (prune_id _ f He), rules_config_classes.
  destruct (parse_validate_ns_spec ty (cfg_view vs) Hw f Hd) as [H _]. rewrite H.
  split; intros Ha e; apply class_ok_config_iff, Ha.
Qed.

Theorem config_error_sound ty vs f e :
  vschema_ok (cfg_view vs) = true -> fresh vs f = true ->
  impl_parse_validate_config vs ty f = VErr e -> class_ok_config ty vs f e = false.
Proof.
  intros Hw Hf He. rewrite <- fresh_cfg_view in Hf. unfold fresh in Hf. apply andb_true_iff in Hf. destruct Hf as [Hd _].
  destruct (parse_validate_ns_spec ty (cfg_view vs) Hw f Hd) as [_ H]. specialize (H e He).
  destruct (class_ok_config ty vs f e) eqn:E; [|reflexivity]. exfalso. apply H, class_ok_config_iff, E.
Qed.

(* exactly one rule (group) is violated: that class is reported; in particular a config false node in an otherwise valid
   configuration is reported as EState *)
Theorem config_error_class ty vs f e :
  vschema_ok (cfg_view vs) = true -> fresh vs f = true ->
  class_ok_config ty vs f e = false -> (forall e', e' <> e -> class_ok_config ty vs f e' = true) ->
  impl_parse_validate_config vs ty f = VErr e.
Proof.
  intros Hw Hf Hbad Hothers.
  destruct (impl_parse_validate_config vs ty f) as [|e2] eqn:E.
  - exfalso. pose proof Hf as Hf'. rewrite <- fresh_cfg_view in Hf'. unfold fresh in Hf'. apply andb_true_iff in Hf'. destruct Hf' as [Hd _].
    destruct (parse_validate_ns_spec ty (cfg_view vs) Hw f Hd) as [H _]. unfold impl_parse_validate_config in E.
    rewrite E in H. pose proof (proj1 H eq_refl e) as Hc. apply class_ok_config_iff in Hc. rewrite Hc in Hbad. discriminate.
  - pose proof (config_error_sound ty vs f e2 Hw Hf E) as H2.
    destruct (verr_dec e2 e) as [->|Hne]; [reflexivity|]. rewrite (Hothers e2 Hne) in H2. discriminate.
Qed.

(* witness: container c { leaf a; leaf st { config false; mandatory true; } list sl { config false; min-elements 1; } }
   sids 0 c (presence), 1 a, 2 st, 3 sl *)
Definition sis (k : skind) (p : option sid) (mand : bool) (mn : N) : sinfo :=
  mk_sinfo k p [] false false [] [] mand mn None OBytes.
Definition ns_schema : vschema :=
  mk_vschema [(0, si (KCont true) None [] [] false 0 None); (1, si KLeaf (Some 0) [] [] false 0 None);
              (2, sis KLeaf (Some 0) true 0); (3, sis KList (Some 0) false 1)]
             [TNode 0 [TNode 1 []; TNode 2 []; TNode 3 []]] [].
Definition ns_cfg : forest := [DN 0 [] false [] [DN 1 [65] false [] []]].
Definition ns_full : forest := [DN 0 [] false [] [DN 1 [65] false [] []; DN 2 [66] false [] []; DN 3 [] false [] []]].

Lemma ns_facts :
  vschema_ok (cfg_view ns_schema) = true /\ cfg_ready ns_schema = true /\
  (* the configuration alone: accepted with NO_STATE, the mandatory state leaf is missing without it *)
  impl_parse_validate_config ns_schema ty_any ns_cfg = VOk /\ rfc_valid_config ty_any ns_schema ns_cfg = true /\
  impl_parse_validate ns_schema ty_any ns_cfg = VErr ENoMand /\
  (* configuration and state: valid, and rejected with NO_STATE because of the state nodes *)
  impl_parse_validate ns_schema ty_any ns_full = VOk /\
  impl_parse_validate_config ns_schema ty_any ns_full = VErr EState /\ rfc_valid_config ty_any ns_schema ns_full = false.
Proof. vm_compute. repeat split; reflexivity. Qed.
