(* XmlDocP.v -- proofs about XmlDoc: what xml_print writes, the generic reader reads back as the generic element tree of
   the forest (for every pair of text readers that invert lyxml_dump_text on a class of values: the standard ones and
   the model of libyang's lexer), and the schema-directed conversion gives the forest back. *)
From LY Require Import Base Utf8 Utf8P XmlText XmlTextP JsonText JsonTextP StdText StdTextP Tree TreeP XmlDoc.
From Coq Require Import ZifyBool ZifyNat ZifyN.
Local Open Scope N_scope.

(* ====================================================================================== *)
(* lexical lemmas                                                                          *)
(* ====================================================================================== *)
Lemma span_app p a c rest :
  forallb p a = true -> p c = false -> span p (a ++ c :: rest) = (a, c :: rest).
Proof.
  induction a as [|x a IH]; intros Ha Hc; cbn [app span].
  - rewrite Hc. reflexivity.
  - cbn [forallb] in Ha. apply andb_true_iff in Ha. destruct Ha as [Hx Ha]. rewrite Hx, (IH Ha Hc). reflexivity.
Qed.

Lemma span_app_nil p a : forallb p a = true -> span p a = (a, []).
Proof.
  induction a as [|x a IH]; intro Ha; cbn [span]; [reflexivity|].
  cbn [forallb] in Ha. apply andb_true_iff in Ha. destruct Ha as [Hx Ha]. rewrite Hx, (IH Ha). reflexivity.
Qed.

Lemma span_stop p c rest : p c = false -> span p (c :: rest) = ([], c :: rest).
Proof. intro H. cbn [span]. rewrite H. reflexivity. Qed.

Lemma ncname_ok_chars nm : ncname_ok nm = true -> forallb is_ncname_char nm = true /\ nm <> [].
Proof.
  destruct nm as [|c r]; [discriminate|]. cbn [ncname_ok forallb]. intro H.
  apply andb_true_iff in H. destruct H as [H1 H2]. split; [|discriminate].
  rewrite H2, andb_true_r. unfold is_ncname_char. rewrite H1. reflexivity.
Qed.

Lemma ncname_first nm : ncname_ok nm = true -> exists c r, nm = c :: r /\ is_ncname_start c = true.
Proof.
  destruct nm as [|c r]; [discriminate|]. cbn [ncname_ok]. intro H. apply andb_true_iff in H.
  exists c, r. split; [reflexivity|apply H].
Qed.

Lemma ncname_start_facts c : is_ncname_start c = true -> c <> 33 /\ c <> 47 /\ c <> 60 /\ is_xml_S c = false /\ c <> 62.
Proof. unfold is_ncname_start, is_alpha, is_xml_S. lia. Qed.

Definition stopper (c : N) : Prop := is_ncname_char c = false /\ c <> 58.

Lemma lex_qname_plain nm c rest :
  ncname_ok nm = true -> stopper c -> lex_qname (nm ++ c :: rest) = (None, nm, c :: rest).
Proof.
  intros Hn [Hc H58]. unfold lex_qname. destruct (ncname_ok_chars nm Hn) as [Hch _].
  rewrite (span_app _ _ _ _ Hch Hc). apply N.eqb_neq in H58. rewrite H58. reflexivity.
Qed.

Lemma lex_qname_prefixed pf nm c rest :
  ncname_ok pf = true -> ncname_ok nm = true -> stopper c ->
  lex_qname (pf ++ 58 :: nm ++ c :: rest) = (Some pf, nm, c :: rest).
Proof.
  intros Hp Hn [Hc H58]. unfold lex_qname. destruct (ncname_ok_chars pf Hp) as [Hpc _].
  destruct (ncname_ok_chars nm Hn) as [Hnc _].
  rewrite (span_app _ _ 58 _ Hpc eq_refl). change (58 =? 58) with true. cbv iota.
  rewrite (span_app _ _ _ _ Hnc Hc). reflexivity.
Qed.

Lemma skip_S_stop c r : is_xml_S c = false -> skip_S (c :: r) = c :: r.
Proof. intro H. unfold skip_S. rewrite (span_stop _ _ _ H). reflexivity. Qed.


(* ====================================================================================== *)
(* start tags                                                                              *)
(* ====================================================================================== *)
Definition lex_pattr (a : pattr) : lattr :=
  match a with
  | PDecl None ns => (None, xmlns_b, ns)
  | PDecl (Some p) ns => (Some xmlns_b, p, ns)
  | PMeta p nm v => (Some p, nm, v)
  end.

Definition ns_ok (ns : bytes) : Prop := forallb ns_char_ok ns = true /\ ns <> [].

Definition pattr_ok (V : bytes -> Prop) (a : pattr) : Prop :=
  match a with
  | PDecl None ns => ns_ok ns
  | PDecl (Some p) ns => ncname_ok p = true /\ p <> xmlns_b /\ ns_ok ns
  | PMeta p nm v => ncname_ok p = true /\ p <> xmlns_b /\ ncname_ok nm = true /\ V v
  end.

Lemma stopper_eq : stopper 61. Proof. split; [reflexivity|discriminate]. Qed.
Lemma stopper_gt : stopper 62. Proof. split; [reflexivity|discriminate]. Qed.
Lemma stopper_slash : stopper 47. Proof. split; [reflexivity|discriminate]. Qed.
Lemma stopper_sp : stopper 32. Proof. split; [reflexivity|discriminate]. Qed.

Lemma xmlns_ncname : ncname_ok xmlns_b = true. Proof. reflexivity. Qed.

Lemma skip_S_sp_name nm rest :
  ncname_ok nm = true -> skip_S (32 :: nm ++ rest) = nm ++ rest.
Proof.
  intro Hn. destruct (ncname_first nm Hn) as (c & r & -> & Hc).
  destruct (ncname_start_facts c Hc) as (_ & _ & _ & HS & _).
  assert (E : forall s, skip_S (32 :: s) = skip_S s).
  { intro s. unfold skip_S. cbn [span]. change (is_xml_S 32) with true. cbv iota.
    destruct (span is_xml_S s); reflexivity. }
  rewrite E. cbn [app]. apply skip_S_stop, HS.
Qed.

Lemma name_not_tagend nm rest :
  ncname_ok nm = true -> starts_with [62] (nm ++ rest) || starts_with [47] (nm ++ rest) = false.
Proof.
  intro Hn. destruct (ncname_first nm Hn) as (c & r & -> & Hc).
  destruct (ncname_start_facts c Hc) as (_ & H47 & _ & _ & H62).
  cbn [app starts_with]. rewrite !andb_true_r.
  apply N.eqb_neq in H47, H62. rewrite (N.eqb_sym 62 c), (N.eqb_sym 47 c), H47, H62. reflexivity.
Qed.

Ltac norm_app := repeat (cbn [app]; rewrite <- ?app_assoc, <- ?app_comm_cons); cbn [app].

Section Attrs.
  Variable V : bytes -> Prop.
  Variable rd_att : N -> bytes -> option (bytes * bytes).
  Hypothesis rd_att_ok : forall v rest, V v -> rd_att 34 (xml_esc true v ++ 34 :: rest) = Some (v, rest).
  Hypothesis rd_att_raw : forall ns rest, forallb ns_char_ok ns = true -> rd_att 34 (ns ++ 34 :: rest) = Some (ns, rest).

  (* one attribute as the printer writes it, then the rest of the tag *)
  Lemma gx_attrs_step f a tail :
    pattr_ok V a ->
    gx_attrs rd_att (S f) (render_attr a ++ tail) =
      match gx_attrs rd_att f tail with
      | Some (l, r) => Some (lex_pattr a :: l, r)
      | None => None
      end.
  Proof.
    intro Ha. destruct a as [[p|] ns|p nm v]; cbn [render_attr pattr_ok lex_pattr] in *.
    - destruct Ha as (Hp & _ & Hns & _).
      norm_app.
      cbn [gx_attrs]. change (is_xml_S 32) with true. cbv iota.
      rewrite (skip_S_sp_name xmlns_b _ xmlns_ncname).
      rewrite (name_not_tagend xmlns_b _ xmlns_ncname).
      rewrite (lex_qname_prefixed xmlns_b p 61 _ xmlns_ncname Hp stopper_eq).
      rewrite (skip_S_stop 61) by reflexivity. change (61 =? 61) with true. cbv iota.
      rewrite (skip_S_stop 34) by reflexivity.
      change ((34 =? 34) || (34 =? 39)) with true. cbv iota.
      rewrite (rd_att_raw ns tail Hns). reflexivity.
    - destruct Ha as (Hns & _).
      norm_app.
      cbn [gx_attrs]. change (is_xml_S 32) with true. cbv iota.
      rewrite (skip_S_sp_name xmlns_b _ xmlns_ncname).
      rewrite (name_not_tagend xmlns_b _ xmlns_ncname).
      rewrite (lex_qname_plain xmlns_b 61 _ xmlns_ncname stopper_eq).
      rewrite (skip_S_stop 61) by reflexivity. change (61 =? 61) with true. cbv iota.
      rewrite (skip_S_stop 34) by reflexivity.
      change ((34 =? 34) || (34 =? 39)) with true. cbv iota.
      rewrite (rd_att_raw ns tail Hns). reflexivity.
    - destruct Ha as (Hp & _ & Hn & Hv).
      norm_app.
      cbn [gx_attrs]. change (is_xml_S 32) with true. cbv iota.
      rewrite (skip_S_sp_name p _ Hp).
      rewrite (name_not_tagend p _ Hp).
      rewrite (lex_qname_prefixed p nm 61 _ Hp Hn stopper_eq).
      rewrite (skip_S_stop 61) by reflexivity. change (61 =? 61) with true. cbv iota.
      rewrite (skip_S_stop 34) by reflexivity.
      change ((34 =? 34) || (34 =? 39)) with true. cbv iota.
      rewrite (rd_att_ok v tail Hv). reflexivity.
  Qed.

  Definition tag_end (tail : bytes) : Prop := exists c r, tail = c :: r /\ is_xml_S c = false.

  Lemma gx_attrs_rt pas : forall fuel tail,
    Forall (pattr_ok V) pas -> tag_end tail -> (length pas < fuel)%nat ->
    gx_attrs rd_att fuel (render_attrs pas ++ tail) = Some (map lex_pattr pas, tail).
  Proof.
    induction pas as [|a pas IH]; intros fuel tail Hall Ht Hf.
    - destruct fuel as [|f]; [cbn in Hf; lia|]. destruct Ht as (c & r & -> & Hc).
      cbn [render_attrs flat_map app gx_attrs map]. rewrite Hc. reflexivity.
    - destruct fuel as [|f]; [cbn in Hf; lia|]. inversion Hall as [|? ? Ha Hr]; subst.
      unfold render_attrs. cbn [flat_map map]. rewrite <- app_assoc.
      rewrite (gx_attrs_step f a _ Ha). fold (render_attrs pas).
      rewrite (IH f tail Hr Ht) by (cbn [length] in Hf; lia). reflexivity.
  Qed.
End Attrs.

(* ====================================================================================== *)
(* side tables                                                                             *)
(* ====================================================================================== *)
Lemma assocN_In {A} (l : list (N * A)) k v : assocN l k = Some v -> In (k, v) l.
Proof.
  induction l as [|[a x] r IH]; cbn [assocN]; [discriminate|].
  destruct (a =? k) eqn:E; intro H.
  - apply N.eqb_eq in E. inversion H; subst. left; reflexivity.
  - right. apply IH, H.
Qed.

Lemma mod_by_ns_ns l ns k i : mod_by_ns l ns = Some (k, i) -> mi_ns i = ns /\ In (k, i) l.
Proof.
  induction l as [|[a x] r IH]; cbn [mod_by_ns]; [discriminate|].
  destruct (beq_bytes (mi_ns x) ns) eqn:E; intro H.
  - apply beq_bytes_eq in E. inversion H; subst. split; [reflexivity|left; reflexivity].
  - destruct (IH H) as [H1 H2]. split; [exact H1|right; exact H2].
Qed.

Lemma mod_by_name_name l nm i : mod_by_name l nm = Some i -> mi_name i = nm.
Proof.
  induction l as [|[a x] r IH]; cbn [mod_by_name]; [discriminate|].
  destruct (beq_bytes (mi_name x) nm) eqn:E; intro H.
  - apply beq_bytes_eq in E. inversion H; subst. reflexivity.
  - apply IH, H.
Qed.

Lemma modinfo_eq a b : mi_name a = mi_name b -> mi_prefix a = mi_prefix b -> mi_ns a = mi_ns b -> a = b.
Proof. destruct a, b; cbn; intros; subst; reflexivity. Qed.

Record mod_facts (t : doctabs) (m : N) (mi : modinfo) : Prop := {
  mf_name : ncname_ok (mi_name mi) = true;
  mf_prefix : ncname_ok (mi_prefix mi) = true;
  mf_notxmlns : mi_prefix mi <> xmlns_b;
  mf_ns : ns_ok (mi_ns mi);
  mf_assoc : exists mi0, assocN (dt_mods t) m = Some mi0;
  mf_byns : mod_by_ns (dt_mods t) (mi_ns mi) = Some (m, mi);
  mf_byname : mod_by_name (dt_mods t) (mi_name mi) = Some mi;
  mf_func : forall m' mi', In (m', mi') (dt_mods t) -> mi_prefix mi' = mi_prefix mi -> mi_ns mi' = mi_ns mi
}.

Lemma mods_ok_entry t m mi : mods_okb t = true -> In (m, mi) (dt_mods t) -> mod_facts t m mi.
Proof.
  unfold mods_okb. rewrite forallb_forall. intros H Hin. specialize (H _ Hin). cbn beta iota in H.
  repeat (apply andb_true_iff in H; destruct H as [H ?]).
  match goal with Hf : forallb _ (dt_mods t) = true |- _ => rename Hf into Hfun end.
  match goal with Hf : match mod_by_name _ _ with _ => _ end = true |- _ => rename Hf into Hbn end.
  match goal with Hf : match mod_by_ns _ _ with _ => _ end = true |- _ => rename Hf into Hbs end.
  match goal with Hf : match assocN _ _ with _ => _ end = true |- _ => rename Hf into Has end.
  match goal with Hf : forallb ns_char_ok _ = true |- _ => rename Hf into Hch end.
  match goal with Hf : negb (match mi_ns mi with _ => _ end) = true |- _ => rename Hf into Hne end.
  match goal with Hf : negb (beq_bytes _ xmlns_b) = true |- _ => rename Hf into Hx end.
  match goal with Hf : ncname_ok (mi_prefix mi) = true |- _ => rename Hf into Hp end.
  constructor.
  - exact H.
  - exact Hp.
  - intro E. rewrite E in Hx. discriminate Hx.
  - split; [exact Hch|]. intro E. rewrite E in Hne. discriminate Hne.
  - destruct (assocN (dt_mods t) m) as [x|]; [exists x; reflexivity|discriminate].
  - destruct (mod_by_ns (dt_mods t) (mi_ns mi)) as [[m' mi']|] eqn:E; [|discriminate].
    destruct (mod_by_ns_ns _ _ _ _ E) as [Ens _].
    repeat (apply andb_true_iff in Hbs; destruct Hbs as [Hbs ?]).
    apply N.eqb_eq in Hbs. subst m'.
    match goal with H1 : beq_bytes (mi_name mi') _ = true, H2 : beq_bytes (mi_prefix mi') _ = true |- _ =>
      apply beq_bytes_eq in H1, H2; rewrite (modinfo_eq mi' mi H1 H2 Ens) end. reflexivity.
  - destruct (mod_by_name (dt_mods t) (mi_name mi)) as [mi'|] eqn:E; [|discriminate].
    pose proof (mod_by_name_name _ _ _ E) as En.
    apply andb_true_iff in Hbn. destruct Hbn as [H1 H2]. apply beq_bytes_eq in H1, H2.
    rewrite (modinfo_eq mi' mi En H2 H1). reflexivity.
  - intros m' mi' Hin' Hpe. rewrite forallb_forall in Hfun. specialize (Hfun _ Hin'). cbn [snd] in Hfun.
    apply orb_true_iff in Hfun. destruct Hfun as [Hf|Hf].
    + apply negb_true_iff in Hf. rewrite <- Hpe in Hf.
      assert (E : beq_bytes (mi_prefix mi') (mi_prefix mi') = true) by (apply beq_bytes_eq; reflexivity).
      rewrite E in Hf. discriminate Hf.
    + apply beq_bytes_eq in Hf. symmetry. exact Hf.
Qed.

Record name_facts (sch : schema) (t : doctabs) (s : sid) : Prop := {
  nf_name : ncname_ok (node_name t s) = true;
  nf_mod : exists mi, In (node_mod t s, mi) (dt_mods t) /\ mod_info t (node_mod t s) = mi;
  nf_sid : sid_by_name sch (dt_names t) (si_parent (sget sch s)) (node_mod t s) (node_name t s) = Some s
}.

Lemma names_ok_entry sch t s i : names_okb sch t = true -> lookup sch s = Some i -> name_facts sch t s.
Proof.
  unfold names_okb. rewrite forallb_forall. intros H Hl. specialize (H _ (lookup_In _ _ _ Hl)). cbn beta iota in H.
  destruct (assocN (dt_names t) s) as [[m nm]|] eqn:E0; [|discriminate].
  repeat (apply andb_true_iff in H; destruct H as [H ?]).
  assert (En : node_name t s = nm) by (unfold node_name; rewrite E0; reflexivity).
  assert (Em : node_mod t s = m) by (unfold node_mod; rewrite E0; reflexivity).
  constructor; rewrite ?En, ?Em.
  - exact H.
  - unfold mod_info. destruct (assocN (dt_mods t) m) as [mi|] eqn:E; [|discriminate].
    exists mi. split; [apply assocN_In, E|reflexivity].
  - destruct (sid_by_name sch (dt_names t) (si_parent (sget sch s)) m nm) as [s'|]; [|discriminate].
    match goal with Hs : (s' =? s) = true |- _ => apply N.eqb_eq in Hs; subst s' end. reflexivity.
Qed.

(* ====================================================================================== *)
(* namespace declarations: what the printer keeps in scope, the reader resolves            *)
(* ====================================================================================== *)
Definition decls_of (attrs : list pattr) : nsstack :=
  flat_map (fun a => match a with PDecl p ns => [(p, ns)] | PMeta _ _ _ => [] end) attrs.

Lemma decls_of_app a b : decls_of (a ++ b) = decls_of a ++ decls_of b.
Proof. unfold decls_of. apply flat_map_app. Qed.

Lemma beq_bytes_false a b : a <> b -> beq_bytes a b = false.
Proof.
  intro H. destruct (beq_bytes a b) eqn:E; [|reflexivity]. apply beq_bytes_eq in E. contradiction.
Qed.
Lemma beq_bytes_true a : beq_bytes a a = true.
Proof. apply beq_bytes_eq. reflexivity. Qed.

Lemma std_decls_printed V attrs :
  Forall (pattr_ok V) attrs -> std_decls (map lex_pattr attrs) = Some (decls_of attrs).
Proof.
  induction 1 as [|a attrs Ha _ IH]; [reflexivity|].
  destruct a as [[p|] ns|p nm v]; cbn [map lex_pattr std_decls pattr_ok] in *; rewrite IH.
  - destruct Ha as (Hp & Hx & _ & Hne). rewrite beq_bytes_true, (beq_bytes_false _ _ Hx).
    destruct ns; [contradiction|]. reflexivity.
  - rewrite beq_bytes_true. reflexivity.
  - destruct Ha as (_ & Hx & _). rewrite (beq_bytes_false _ _ Hx). reflexivity.
Qed.

Lemma print_metas_stack t m : forall st attrs st2,
  print_metas t st m = (attrs, st2) -> st2 = rev (decls_of attrs) ++ st.
Proof.
  induction m as [|[k v] m IH]; intros st attrs st2 H; cbn [print_metas] in H.
  - inversion H; subst. reflexivity.
  - destruct (split_colon k) as [mn nm].
    remember (match mod_by_name (dt_mods t) mn with Some i => i | None => mi_none end) as mi.
    unfold print_ns_prefix in H.
    destruct (ns_find_prefix st (mi_ns mi) (mi_prefix mi) true) as [q|].
    + destruct (print_metas t st m) as [r st3] eqn:E. inversion H; subst attrs st2. cbn [app decls_of flat_map].
      apply (IH _ _ _ E).
    + destruct (print_metas t ((Some (mi_prefix mi), mi_ns mi) :: st) m) as [r st3] eqn:E.
      inversion H; subst attrs st2. cbn [app decls_of flat_map rev]. fold (decls_of r).
      rewrite (IH _ _ _ E). rewrite <- app_assoc. reflexivity.
Qed.

Lemma open_attrs_stack t st s m attrs st' :
  open_attrs t st s m = (attrs, st') -> st' = rev (decls_of attrs) ++ st.
Proof.
  unfold open_attrs, print_ns_default. intro H.
  destruct (ns_has_default st (node_ns t s)).
  - destruct (print_metas t st m) as [r st2] eqn:E. inversion H; subst. cbn [app]. apply (print_metas_stack _ _ _ _ _ E).
  - destruct (print_metas t ((None, node_ns t s) :: st) m) as [r st2] eqn:E. inversion H; subst.
    cbn [app decls_of flat_map rev]. fold (decls_of r). rewrite (print_metas_stack _ _ _ _ _ E), <- app_assoc. reflexivity.
Qed.

(* a declaration with a prefix in the stack comes from the module table *)
Definition PT (t : doctabs) (p u : bytes) : Prop :=
  exists m mi, In (m, mi) (dt_mods t) /\ mi_prefix mi = p /\ mi_ns mi = u.
Definition Inv (t : doctabs) (st : nsstack) : Prop := forall p u, In (Some p, u) st -> PT t p u.

Lemma PT_func t p u u' : mods_okb t = true -> PT t p u -> PT t p u' -> u = u'.
Proof.
  intros Hm (m & mi & Hin & Hp & Hu) (m' & mi' & Hin' & Hp' & Hu'). subst.
  symmetry. apply (mf_func _ _ _ (mods_ok_entry _ _ _ Hm Hin) _ _ Hin' Hp').
Qed.

Lemma std_prefix_ns_in t st p u :
  mods_okb t = true -> Inv t st -> In (Some p, u) st -> std_prefix_ns st p = Some u.
Proof.
  intros Hm. induction st as [|[[q|] w] r IH]; intros HI Hin; [contradiction| |].
  - cbn [std_prefix_ns]. destruct (beq_bytes q p) eqn:E.
    + apply beq_bytes_eq in E. subst q.
      assert (PT t p w) by (apply HI; left; reflexivity).
      assert (PT t p u) by (apply HI; exact Hin).
      f_equal. apply (PT_func t p); assumption.
    + apply IH.
      * intros a b Hab. apply HI. right. exact Hab.
      * destruct Hin as [Hin|Hin]; [|exact Hin]. inversion Hin; subst. rewrite beq_bytes_true in E. discriminate E.
  - cbn [std_prefix_ns]. apply IH.
    + intros a b Hab. apply HI. right. exact Hab.
    + destruct Hin as [Hin|Hin]; [discriminate Hin|exact Hin].
Qed.

Lemma ns_find_prefix_some st ns pfx q :
  ns_find_prefix st ns pfx true = Some q -> q = pfx /\ In (Some pfx, ns) st.
Proof.
  induction st as [|[p u] r IH]; cbn [ns_find_prefix]; [discriminate|].
  destruct (beq_bytes u ns) eqn:Eu.
  - destruct p as [q'|].
    + destruct (beq_bytes q' pfx) eqn:Eq; cbn [orb negb].
      * intro H. inversion H; subst q'. apply beq_bytes_eq in Eq, Eu. subst. split; [reflexivity|left; reflexivity].
      * intro H. destruct (IH H) as [H1 H2]. split; [exact H1|right; exact H2].
    + intro H. destruct (IH H) as [H1 H2]. split; [exact H1|right; exact H2].
  - intro H. destruct (IH H) as [H1 H2]. split; [exact H1|right; exact H2].
Qed.

Lemma ns_find_prefix_none st ns pfx :
  ns_find_prefix st ns pfx true = None -> ~ In (Some pfx, ns) st.
Proof.
  induction st as [|[p u] r IH]; cbn [ns_find_prefix]; [intros _ []|].
  destruct (beq_bytes u ns) eqn:Eu.
  - destruct p as [q'|].
    + destruct (beq_bytes q' pfx) eqn:Eq; cbn [orb negb]; [discriminate|].
      intros H [Hin|Hin]; [|exact (IH H Hin)]. inversion Hin; subst. rewrite beq_bytes_true in Eq. discriminate Eq.
    + intros H [Hin|Hin]; [discriminate Hin|exact (IH H Hin)].
  - intros H [Hin|Hin]; [|exact (IH H Hin)]. inversion Hin; subst. rewrite beq_bytes_true in Eu. discriminate Eu.
Qed.

Lemma std_default_ns_has st ns : ns_has_default st ns = true -> std_default_ns st = ns.
Proof.
  induction st as [|[[q|] u] r IH]; cbn [ns_has_default std_default_ns]; [discriminate|exact IH|].
  intro H. apply beq_bytes_eq in H. exact H.
Qed.

Lemma std_default_ns_skip pre st :
  Forall (fun e : option bytes * bytes => fst e <> None) pre -> std_default_ns (pre ++ st) = std_default_ns st.
Proof.
  induction 1 as [|[[q|] u] pre Hq _ IH]; [reflexivity| |].
  - cbn [app std_default_ns]. exact IH.
  - cbn [fst] in Hq. contradiction.
Qed.

Definition meta_ok (t : doctabs) (V : bytes -> Prop) (kv : bytes * bytes) : Prop :=
  V (snd kv) /\ exists m mi nm, In (m, mi) (dt_mods t) /\ ncname_ok nm = true /\ fst kv = mi_name mi ++ 58 :: nm.

Lemma split_colon_app a b : forallb is_ncname_char a = true -> split_colon (a ++ 58 :: b) = (a, b).
Proof.
  induction a as [|x a IH]; intro H; cbn [app split_colon].
  - reflexivity.
  - cbn [forallb] in H. apply andb_true_iff in H. destruct H as [Hx Ha].
    destruct (x =? 58) eqn:E; [apply N.eqb_eq in E; subst x; discriminate Hx|].
    rewrite (IH Ha). reflexivity.
Qed.

Definition qn (a : lattr) : option bytes * bytes := (fst (fst a), snd (fst a)).

Lemma beq_opt_bytes_eq a b : beq_opt_bytes a b = true -> a = b.
Proof.
  destruct a, b; cbn; try discriminate; try reflexivity. intro H. apply beq_bytes_eq in H. congruence.
Qed.

Lemma uniq_qnames_NoDup l : NoDup (map qn l) -> uniq_qnames l = true.
Proof.
  induction l as [|[[p nm] v] r IH]; intro H; [reflexivity|].
  cbn [map] in H. inversion H as [|? ? Hn Hr]; subst. cbn [uniq_qnames]. rewrite (IH Hr), andb_true_r.
  apply negb_true_iff. destruct (existsb (same_qname p nm) r) eqn:E; [|reflexivity].
  apply existsb_exists in E. destruct E as ([[p' nm'] v'] & Hin & Hs). unfold same_qname in Hs.
  apply andb_true_iff in Hs. destruct Hs as [H1 H2]. apply beq_opt_bytes_eq in H1. apply beq_bytes_eq in H2. subst.
  exfalso. apply Hn. apply in_map_iff. exists (p', nm', v'). split; [reflexivity|exact Hin].
Qed.

Section Metas.
  Variable t : doctabs.
  Variable V : bytes -> Prop.
  Hypothesis Hmods : mods_okb t = true.

  Lemma print_metas_spec m : forall st attrs st2,
    Inv t st -> Forall (meta_ok t V) m -> NoDup (map fst m) -> print_metas t st m = (attrs, st2) ->
    Forall (pattr_ok V) attrs /\ Inv t st2 /\
    (forall p u, In (PDecl p u) attrs -> exists pf, p = Some pf /\ PT t pf u /\ ~ In (Some pf, u) st) /\
    (forall q nm v, In (PMeta q nm v) attrs ->
       exists m0 mi, In (m0, mi) (dt_mods t) /\ q = mi_prefix mi /\ In (mi_name mi ++ 58 :: nm, v) m) /\
    NoDup (map qn (map lex_pattr attrs)).
  Proof.
    induction m as [|[k v] m IH]; intros st attrs st2 HI Hall Hnd H; cbn [print_metas] in H.
    - inversion H; subst. repeat split; try constructor; try assumption; intros; contradiction.
    - inversion Hall as [|? ? Hk Hall']; subst. destruct Hk as (Hv & m0 & mi & nm & Hin & Hnm & Ek). cbn [fst snd] in *.
      pose proof (mods_ok_entry _ _ _ Hmods Hin) as MF.
      subst k. rewrite (split_colon_app _ _ (proj1 (ncname_ok_chars _ (mf_name _ _ _ MF)))) in H.
      rewrite (mf_byname _ _ _ MF) in H.
      cbn [map] in Hnd. inversion Hnd as [|? ? Hnk Hnd']; subst.
      unfold print_ns_prefix in H.
      assert (PTmi : PT t (mi_prefix mi) (mi_ns mi)) by (exists m0, mi; auto).
      (* facts shared by both branches, given the stack st1 the rest is printed with *)
      assert (Step : forall d st1 r,
                 (d = [] /\ st1 = st /\ In (Some (mi_prefix mi), mi_ns mi) st) \/
                 (d = [PDecl (Some (mi_prefix mi)) (mi_ns mi)] /\ st1 = (Some (mi_prefix mi), mi_ns mi) :: st /\
                  ~ In (Some (mi_prefix mi), mi_ns mi) st) ->
                 print_metas t st1 m = (r, st2) ->
                 attrs = d ++ PMeta (mi_prefix mi) nm v :: r ->
                 Forall (pattr_ok V) attrs /\ Inv t st2 /\
                 (forall p u, In (PDecl p u) attrs -> exists pf, p = Some pf /\ PT t pf u /\ ~ In (Some pf, u) st) /\
                 (forall q nm' v', In (PMeta q nm' v') attrs ->
                    exists m1 mi1, In (m1, mi1) (dt_mods t) /\ q = mi_prefix mi1 /\
                                   In (mi_name mi1 ++ 58 :: nm', v') ((mi_name mi ++ 58 :: nm, v) :: m)) /\
                 NoDup (map qn (map lex_pattr attrs))).
      { intros d st1 r Hd E Ea.
        assert (HI1 : Inv t st1).
        { destruct Hd as [(_ & -> & _)|(_ & -> & _)]; [exact HI|].
          intros p u [Hpu|Hpu]; [inversion Hpu; subst; exact PTmi|apply HI, Hpu]. }
        destruct (IH _ _ _ HI1 Hall' Hnd' E) as (A1 & A2 & A3 & A4 & A5).
        assert (Pm : pattr_ok V (PMeta (mi_prefix mi) nm v)).
        { cbn [pattr_ok]. repeat split; [apply (mf_prefix _ _ _ MF)|apply (mf_notxmlns _ _ _ MF)|exact Hnm|exact Hv]. }
        assert (Incl1 : forall e, In e st -> In e st1).
        { destruct Hd as [(_ & -> & _)|(_ & -> & _)]; intros e He; [exact He|right; exact He]. }
        (* the attribute of this metadata instance is not among those of the rest *)
        assert (NotInR : ~ In (Some (mi_prefix mi), nm) (map qn (map lex_pattr r))).
        { intro Hq. rewrite map_map in Hq. apply in_map_iff in Hq. destruct Hq as (a & Hqa & Har).
          destruct a as [[p|] ns|q nm' v']; cbn [lex_pattr qn fst snd] in Hqa.
          - inversion Hqa as [[Hx Hy]]. apply (mf_notxmlns _ _ _ MF). symmetry. exact Hx.
          - discriminate Hqa.
          - inversion Hqa; subst q nm'.
            destruct (A4 _ _ _ Har) as (m1 & mi1 & Hin1 & Hq1 & Hk1).
            pose proof (mods_ok_entry _ _ _ Hmods Hin1) as MF1.
            assert (Ens : mi_ns mi1 = mi_ns mi) by (apply (mf_func _ _ _ MF _ _ Hin1); symmetry; exact Hq1).
            pose proof (mf_byns _ _ _ MF1) as B1. rewrite Ens, (mf_byns _ _ _ MF) in B1.
            inversion B1; subst mi1. apply Hnk. change (mi_name mi ++ 58 :: nm) with (fst (mi_name mi ++ 58 :: nm, v')).
            apply in_map, Hk1. }
        subst attrs. split; [|split; [|split; [|split]]].
        - apply Forall_app. split.
          + destruct Hd as [(-> & _)|(-> & _)]; constructor; [|constructor].
            cbn [pattr_ok]. repeat split; [apply (mf_prefix _ _ _ MF)|apply (mf_notxmlns _ _ _ MF)|apply (mf_ns _ _ _ MF)|apply (mf_ns _ _ _ MF)].
          + constructor; assumption.
        - exact A2.
        - intros p u Hpu. apply in_app_or in Hpu. destruct Hpu as [Hpu|[Hpu|Hpu]].
          + destruct Hd as [(-> & _)|(-> & _ & Hn)]; [contradiction|].
            destruct Hpu as [Hpu|[]]. inversion Hpu; subst. exists (mi_prefix mi). repeat split; assumption.
          + discriminate Hpu.
          + destruct (A3 _ _ Hpu) as (pf & -> & Hpt & Hni). exists pf. repeat split; [exact Hpt|].
            intro Hx. apply Hni, Incl1, Hx.
        - intros q nm' v' Hq. apply in_app_or in Hq. destruct Hq as [Hq|[Hq|Hq]].
          + destruct Hd as [(-> & _)|(-> & _)]; [contradiction|]. destruct Hq as [Hq|[]]. discriminate Hq.
          + inversion Hq; subst. exists m0, mi. repeat split; [exact Hin|left; reflexivity].
          + destruct (A4 _ _ _ Hq) as (m1 & mi1 & X1 & X2 & X3). exists m1, mi1. repeat split; [exact X1|exact X2|right; exact X3].
        - rewrite !map_app. cbn [map lex_pattr qn fst snd].
          destruct Hd as [(-> & _ & _)|(-> & -> & Hn)]; cbn [map app].
          + constructor; assumption.
          + cbn [lex_pattr qn fst snd]. constructor.
            * intros [Hx|Hx].
              { inversion Hx as [[Hy Hz]]. apply (mf_notxmlns _ _ _ MF). exact Hy. }
              rewrite map_map in Hx. apply in_map_iff in Hx. destruct Hx as (a & Hqa & Har).
              destruct a as [[p|] ns|q nm' v']; cbn [lex_pattr qn fst snd] in Hqa.
              -- inversion Hqa; subst p.
                 destruct (A3 _ _ Har) as (pf & Hpf & Hpt & Hni). inversion Hpf; subst pf.
                 assert (ns = mi_ns mi) by (apply (PT_func t (mi_prefix mi)); assumption). subst ns.
                 apply Hni. left. reflexivity.
              -- discriminate Hqa.
              -- inversion Hqa as [[Hy Hz]].
                 destruct (A4 _ _ _ Har) as (m1 & mi1 & Hin1 & Hq1 & _).
                 apply (mf_notxmlns _ _ _ (mods_ok_entry _ _ _ Hmods Hin1)). rewrite <- Hq1. exact Hy.
            * constructor; assumption. }
      destruct (ns_find_prefix st (mi_ns mi) (mi_prefix mi) true) as [q|] eqn:Ef.
      + destruct (ns_find_prefix_some _ _ _ _ Ef) as [-> Hin1].
        destruct (print_metas t st m) as [r st3] eqn:E. inversion H; subst attrs st3.
        apply (Step [] st r); [left; repeat split; assumption|exact E|reflexivity].
      + pose proof (ns_find_prefix_none _ _ _ Ef) as Hn.
        destruct (print_metas t ((Some (mi_prefix mi), mi_ns mi) :: st) m) as [r st3] eqn:E. inversion H; subst attrs st3.
        apply (Step [PDecl (Some (mi_prefix mi)) (mi_ns mi)] ((Some (mi_prefix mi), mi_ns mi) :: st) r); [right; repeat split; assumption|exact E|reflexivity].
  Qed.
End Metas.

Definition xn (a : bytes * bytes * bytes) : bytes * bytes := (fst (fst a), snd (fst a)).

Lemma uniq_expanded_NoDup l : NoDup (map xn l) -> uniq_expanded l = true.
Proof.
  induction l as [|[[u nm] v] r IH]; intro H; [reflexivity|].
  cbn [map] in H. inversion H as [|? ? Hn Hr]; subst. cbn [uniq_expanded]. rewrite (IH Hr), andb_true_r.
  apply negb_true_iff. destruct (existsb (same_xname u nm) r) eqn:E; [|reflexivity].
  apply existsb_exists in E. destruct E as ([[u' nm'] v'] & Hin & Hs). unfold same_xname in Hs.
  apply andb_true_iff in Hs. destruct Hs as [H1 H2]. apply beq_bytes_eq in H1, H2. subst.
  exfalso. apply Hn. apply in_map_iff. exists (u', nm', v'). split; [reflexivity|exact Hin].
Qed.

Lemma pattr_qname_ok V a : pattr_ok V a -> lattr_qname_ok (lex_pattr a) = true.
Proof.
  destruct a as [[p|] ns|p nm v]; cbn [pattr_ok lex_pattr]; unfold lattr_qname_ok, qname_ok.
  - intros (Hp & _). rewrite Hp. reflexivity.
  - intros _. reflexivity.
  - intros (Hp & _ & Hn & _). rewrite Hp, Hn. reflexivity.
Qed.

Section Metas2.
  Variable t : doctabs.
  Variable V : bytes -> Prop.
  Hypothesis Hmods : mods_okb t = true.

  Lemma meta_generic_ok k v m0 mi nm :
    In (m0, mi) (dt_mods t) -> k = mi_name mi ++ 58 :: nm -> meta_generic t (k, v) = (mi_ns mi, nm, v).
  Proof.
    intros Hin ->. pose proof (mods_ok_entry _ _ _ Hmods Hin) as MF. unfold meta_generic. cbn [fst snd].
    rewrite (split_colon_app _ _ (proj1 (ncname_ok_chars _ (mf_name _ _ _ MF)))), (mf_byname _ _ _ MF). reflexivity.
  Qed.

  Lemma expand_printed m : forall st attrs st2 stF,
    print_metas t st m = (attrs, st2) -> Inv t stF -> (forall e, In e st2 -> In e stF) -> Forall (meta_ok t V) m ->
    std_expand_attrs stF (map lex_pattr attrs) = Some (map (meta_generic t) m).
  Proof.
    induction m as [|[k v] m IH]; intros st attrs st2 stF H HIF Hincl Hall; cbn [print_metas] in H.
    - inversion H; subst. reflexivity.
    - inversion Hall as [|? ? Hk Hall']; subst. destruct Hk as (Hv & m0 & mi & nm & Hin & Hnm & Ek). cbn [fst snd] in *.
      pose proof (mods_ok_entry _ _ _ Hmods Hin) as MF.
      rewrite Ek in H. rewrite (split_colon_app _ _ (proj1 (ncname_ok_chars _ (mf_name _ _ _ MF)))) in H.
      rewrite (mf_byname _ _ _ MF) in H. unfold print_ns_prefix in H.
      cbn [map]. pose proof (meta_generic_ok k v m0 mi nm Hin Ek) as Q. Set Printing All. Show. Abort. End Metas2.
