(* XPathSem.v — slice xpath (C08): executable semantics of XPath 1.0 on YANG data trees.

   [eval fl t cx e] evaluates expression [e] on tree [t] with context [cx].
   With [fl = spec_flags] this is a REFERENCE evaluator written from the W3C XPath 1.0 recommendation (sections 2-4)
   and RFC 7950 section 6.4 / 10 (data model, current()); it is not a transcription of src/xpath.c.
   Each field of [flags] switches ONE construct to what src/xpath.c does instead (as coded, with the source location
   in the comment of the field); [impl_flags] switches all of them on and is what the library is expected to answer
   case by case (checked by the correspondence run).  A case where the two evaluators differ is a deviation of the
   library from XPath 1.0; the flags that are needed to explain the library's answer name the deviation.

   Node-sets are lists of items in document order without duplicates (proved in XPathSemP.v for every expression).
   The axes are defined as relations between items, decided from the pre-order indices of XPathTree: a step selects
   by filtering the document-order list of all items. *)
From Coq Require Import QArith.
From LY Require Import Base XPathConv XPathTree.
From Coq Require Import ZifyBool ZifyNat ZifyN.
Local Open Scope N_scope.

Inductive axis : Type :=
| AxChild | AxDescendant | AxDescendantOrSelf | AxParent | AxAncestor | AxAncestorOrSelf
| AxFollowing | AxFollowingSibling | AxPreceding | AxPrecedingSibling | AxSelf | AxAttribute | AxNamespace.

(* node tests; the optional prefix is a module name (RFC 7951 style); an unprefixed name belongs to the module
   of the parent of the selected node (a top-level node: to any module) *)
Inductive ntest : Type :=
| TName (pfx : option bytes) (name : bytes)
| TStar (pfx : option bytes)
| TNode                                  (* node() *)
| TText                                  (* text() *)
| TAny.                                  (* the node test of the abbreviations '.' and '..' (= node()) *)

Inductive cmpop : Type := CEq | CNe | CLt | CLe | CGt | CGe.
Inductive arop : Type := AAdd | ASub | AMul | ADiv | AMod.

Inductive fn : Type :=
| FLast | FPosition | FCount | FLocalName | FName | FString | FConcat | FStartsWith | FContains
| FSubBefore | FSubAfter | FSubstring | FStrLen | FNormSpace | FTranslate | FBoolean | FNot | FTrue | FFalse
| FNumber | FSum | FFloor | FCeiling | FRound | FCurrent.

Inductive expr : Type :=
| ERoot                                                       (* the root node: '/' *)
| ECtx                                                        (* the context node: start of a relative path *)
| EStep (base : expr) (ds : bool) (ax : axis) (nt : ntest) (ps : preds)
                                                              (* base '/' step, or base '//' step when ds *)
| EFilter (e : expr) (ps : preds)                             (* PrimaryExpr Predicate+ *)
| EOr (a b : expr)
| EAnd (a b : expr)
| ECmp (op : cmpop) (a b : expr)
| EArith (op : arop) (a b : expr)
| ENeg (a : expr)
| EUnion (a b : expr)
| ELit (s : bytes)
| ENum (text : bytes)                                         (* Digits ('.' Digits?)? | '.' Digits *)
| EFun0 (f : fn)
| EFun1 (f : fn) (a : expr)
| EFun2 (f : fn) (a b : expr)
| EFun3 (f : fn) (a b c : expr)
with preds : Type :=
| PNil
| PCons (p : expr) (r : preds).

Inductive value : Type :=
| VSet (l : list item)
| VStr (s : bytes)
| VNum (x : xnum)
| VBool (b : bool).

(* one switch per construct in which src/xpath.c departs from the recommendation *)
Record flags : Type := {
  f_prec : Z;             (* mantissa bits: 53 IEEE double; 64 long double (struct lyxp_set val.num) *)
  f_n2s : bool;           (* lyxp_set_cast(): number -> string with '%lld' / '%03.1Lf' *)
  f_s2n : bool;           (* cast_string_to_number(): strtold() *)
  f_floor : bool;         (* xpath_floor/xpath_ceiling/xpath_round: (long long) casts *)
  f_bytes : bool;         (* xpath_string_length/xpath_substring/xpath_translate count bytes *)
  f_strval : bool;        (* cast_string_recursive(): string value of inner nodes with line feeds and indentation *)
  f_predtrunc : bool;     (* eval_predicate(): (long long)number == position *)
  f_predglobal : bool;    (* eval_predicate(): positions count over the whole step result, not per context node *)
  f_following : bool;     (* moveto_axis_node_next_first(): following starts at the next sibling only *)
  f_preceding : bool;     (* ...: preceding needs a previous sibling and then includes the ancestors *)
  f_rootstar : bool;      (* moveto_node_check(): the root matches '*' *)
  f_text : bool;          (* text nodes exist only as the result of child::text() on term nodes *)
  f_dslash : bool;        (* eval_node_type_with_predicate(): '//' before node() / text() is ignored *)
  f_assert : bool;        (* moveto_node(): assert(!set_sort(set)) on child/self steps from nested context nodes *)
  f_crash : bool;         (* get_node_pos(): restart of the search with a stale iterator (SIGSEGV) *)
  f_cmpbool : bool;       (* moveto_op_comp(): node-set vs boolean compared item by item *)
  f_canon : bool;         (* set_comp_canonize(): string operand canonized by the type of the compared node *)
  f_fast : bool;          (* eval_name_test_try_compile_predicates(): key predicates answered by a string lookup *)
  f_nsaxis : bool;        (* the namespace axis is a syntax error *)
  f_attrnode : bool;      (* moveto_node(): assert(0) for attribute::node() *)
  f_nonset : bool;        (* a step after a non-node-set: assert in moveto_resolve_model() for a name test,
                             empty node-set instead of an error for node() (xpath_pi_node) *)
  f_alldup : bool;        (* moveto_node_alldesc_child(): a node that is also a start node is inserted twice *)
  f_skip : bool;          (* xpath_pi_node() ignores LYXP_SKIP_EXPR: a skipped operand of or/and containing
                             '//' + a non-child axis + a name test empties the accumulated result *)
  f_fastpos : bool;       (* the key lookup is also used when the value expression calls position() or last(): they are
                             evaluated once, in a context of size 1 *)
  f_normsp : bool;        (* xpath_normalize_space() keeps a single tab / line break between words *)
  f_texthash : bool       (* xpath_pi_text() retypes set items without updating the set's hash table (present from
                             4 items on); the consistency assert of set_sort() fails at the next predicate *)
}.

Definition spec_flags : flags :=
  {| f_prec := 53; f_n2s := false; f_s2n := false; f_floor := false; f_bytes := false; f_strval := false;
     f_predtrunc := false; f_predglobal := false; f_following := false; f_preceding := false; f_rootstar := false;
     f_text := false; f_dslash := false; f_assert := false; f_crash := false; f_cmpbool := false; f_canon := false;
     f_fast := false; f_nsaxis := false; f_attrnode := false; f_nonset := false; f_alldup := false; f_skip := false; f_fastpos := false; f_normsp := false; f_texthash := false |}.

Definition impl_flags : flags :=
  {| f_prec := 64; f_n2s := true; f_s2n := true; f_floor := true; f_bytes := true; f_strval := true;
     f_predtrunc := true; f_predglobal := true; f_following := true; f_preceding := true; f_rootstar := true;
     f_text := true; f_dslash := true; f_assert := true; f_crash := true; f_cmpbool := true; f_canon := true;
     f_fast := true; f_nsaxis := true; f_attrnode := true; f_nonset := true; f_alldup := true; f_skip := true; f_fastpos := true; f_normsp := true; f_texthash := true |}.

(* error classes *)
Definition E_TYPE : N := 7.        (* LY_EVALID: wrong operand / argument type, unknown function, wrong arity *)
Definition E_ASSERT : N := 90.     (* as coded only: an assert() of xpath.c fails *)
Definition E_CRASH : N := 91.      (* as coded only: invalid memory access *)

(* ------------------------------------------------------------------------------------------------ *)
(* axes as relations between a context item c and a candidate item m                                *)
(* ------------------------------------------------------------------------------------------------ *)
Definition elem_anc (a c : xnode) (strict : bool) : bool :=
  (if strict then x_id a <? x_id c else x_id a <=? x_id c) && (x_id c <=? x_last a).

(* a is a proper ancestor of c *)
Definition is_anc (a c : item) : bool :=
  match a, c with
  | IRoot, IRoot => false
  | IRoot, _ => true
  | IElem x, IElem y => elem_anc x y true
  | IElem x, IText y => elem_anc x y false
  | _, _ => false
  end.

(* p is the parent of c *)
Definition is_parent (p c : item) : bool :=
  match c with
  | IRoot => false
  | IElem y =>
      match x_parent y, p with
      | None, IRoot => true
      | Some i, IElem x => x_id x =? i
      | _, _ => false
      end
  | IText y => match p with IElem x => x_id x =? x_id y | _ => false end
  end.

Definition same_parent (x y : xnode) : bool :=
  match x_parent x, x_parent y with
  | None, None => true
  | Some a, Some b => a =? b
  | _, _ => false
  end.

Definition is_itext (m : item) : bool := match m with IText _ => true | _ => false end.
Definition is_ielem (m : item) : bool := match m with IElem _ => true | _ => false end.

(* XPath 1.0 section 2.2 *)
Definition axis_spec (ax : axis) (c m : item) : bool :=
  match ax with
  | AxSelf => item_eqb c m
  | AxChild => is_parent c m
  | AxParent => is_parent m c
  | AxDescendant => is_anc c m
  | AxDescendantOrSelf => item_eqb c m || is_anc c m
  | AxAncestor => is_anc m c
  | AxAncestorOrSelf => item_eqb c m || is_anc m c
  | AxFollowing => (item_key c <? item_key m) && negb (is_anc c m)
  | AxPreceding => (item_key m <? item_key c) && negb (is_anc m c)
  | AxFollowingSibling =>
      match c, m with IElem x, IElem y => same_parent x y && (x_id x <? x_id y) | _, _ => false end
  | AxPrecedingSibling =>
      match c, m with IElem x, IElem y => same_parent x y && (x_id y <? x_id x) | _, _ => false end
  | AxAttribute | AxNamespace => false
  end.

Definition axis_rel (fl : flags) (ax : axis) (c m : item) : bool :=
  if f_text fl && is_itext m then false
  else
    match ax with
    | AxFollowing =>
        if f_following fl then
          match c, m with IElem x, IElem y => x_next x && (x_last x <? x_id y) | _, _ => false end
        else if f_text fl && is_itext c then false else axis_spec ax c m
    | AxPreceding =>
        if f_preceding fl then
          match c, m with IElem x, IElem y => x_prev x && (x_id y <? x_id x) | _, _ => false end
        else if f_text fl && is_itext c then false else axis_spec ax c m
    | _ => axis_spec ax c m
    end.

Definition item_mod (it : item) : option bytes :=
  match it with
  | IRoot => None
  | IElem n | IText n => Some (ni_mod (x_info n))
  end.

Definition node_test (fl : flags) (nt : ntest) (c m : item) : bool :=
  match nt with
  | TNode | TAny => true
  | TText => is_itext m
  | TStar None => is_ielem m || (f_rootstar fl && match m with IRoot => true | _ => false end)
  | TStar (Some p) => match m with IElem y => beq_bytes (ni_mod (x_info y)) p | _ => false end
  | TName pfx nm =>
      match m with
      | IElem y =>
          beq_bytes (ni_name (x_info y)) nm &&
          match pfx with
          | Some p => beq_bytes (ni_mod (x_info y)) p
          | None => match x_pmod y with Some pm => beq_bytes (ni_mod (x_info y)) pm | None => true end
          end
      | _ => false
      end
  end.

Definition reverse_axis (ax : axis) : bool :=
  match ax with
  | AxAncestor | AxAncestorOrSelf | AxPreceding | AxPrecedingSibling => true
  | _ => false
  end.

(* axes after which moveto_node() sorts instead of asserting sortedness (set->non_child_axis) *)
Definition nonchild_axis (ax : axis) : bool :=
  match ax with
  | AxChild | AxSelf | AxAttribute | AxNamespace => false
  | _ => true
  end.

Definition is_ns_axis (ax : axis) : bool := match ax with AxNamespace => true | _ => false end.
Definition is_attr_axis (ax : axis) : bool := match ax with AxAttribute => true | _ => false end.
Definition is_child_axis (ax : axis) : bool := match ax with AxChild => true | _ => false end.

(* as coded (xpath_pi_text): a term node of the context set is replaced by its text node *)
Definition text_of_item (c : item) : list item :=
  match c with
  | IElem n => if is_term n then [IText n] else []
  | _ => []
  end.

(* the items selected from context item c, in document order *)
Definition cands (fl : flags) (t : list xnode) (ax : axis) (nt : ntest) (c : item) : list item :=
  filter (fun m => axis_rel fl ax c m && node_test fl nt c m) (all_items t).

(* ------------------------------------------------------------------------------------------------ *)
(* node-set operations                                                                              *)
(* ------------------------------------------------------------------------------------------------ *)
(* union of two sorted duplicate-free lists *)
Fixpoint merge_items (l1 : list item) : list item -> list item :=
  fix inner (l2 : list item) : list item :=
    match l1, l2 with
    | [], _ => l2
    | _, [] => l1
    | a :: r1, b :: r2 =>
        match item_key a ?= item_key b with
        | Lt => a :: merge_items r1 l2
        | Eq => a :: merge_items r1 r2
        | Gt => b :: inner r2
        end
    end.

(* merge of two weakly sorted lists that keeps equal items of both (a sorted multiset union) *)
Fixpoint merge_keep (l1 : list item) : list item -> list item :=
  fix inner (l2 : list item) : list item :=
    match l1, l2 with
    | [], _ => l2
    | _, [] => l1
    | a :: r1, b :: r2 =>
        if item_key a <=? item_key b then a :: merge_keep r1 l2 else b :: inner r2
    end.

Definition mem_item (it : item) (l : list item) : bool := existsb (item_eqb it) l.

(* keep the first occurrence of every item *)
Fixpoint dedupe (l : list item) (seen : list item) : list item :=
  match l with
  | [] => []
  | a :: r => if mem_item a seen then dedupe r seen else a :: dedupe r (a :: seen)
  end.

(* some element after a non-root item has a smaller key (roots have position 0 and are skipped by set_assign_pos) *)
Fixpoint has_descent (l : list item) (prev : option N) : bool :=
  match l with
  | [] => false
  | IRoot :: r => has_descent r prev
  | a :: r =>
      match prev with
      | Some k => if item_key a <? k then true else has_descent r (Some (item_key a))
      | None => has_descent r (Some (item_key a))
      end
  end.

(* the last top-level node has no children *)
Fixpoint last_top_childless (t : list xnode) (cur : bool) : bool :=
  match t with
  | [] => cur
  | n :: r => last_top_childless r (match x_parent n with None => x_last n =? x_id n | Some _ => cur end)
  end.

(* ------------------------------------------------------------------------------------------------ *)
(* string value (XPath 1.0 section 5) and conversions (section 4)                                   *)
(* ------------------------------------------------------------------------------------------------ *)
Definition in_subtree (a d : xnode) : bool := (x_id a <? x_id d) && (x_id d <=? x_last a).

(* concatenation of the text of the descendants in document order *)
Definition text_of (t : list xnode) (sel : xnode -> bool) : bytes :=
  concat (map (fun d => if sel d && is_term d then ni_val (x_info d) else []) t).

Fixpoint spaces (n : nat) : bytes := match n with O => [] | S k => 32 :: spaces k end.

(* cast_string_recursive(): every inner node contributes a line feed, every term node
   2*(relative depth) blanks, its value and a line feed *)
Definition indented_of (t : list xnode) (sel : xnode -> bool) (base : N) : bytes :=
  concat (map (fun d => if sel d then
                          (if is_term d then spaces (N.to_nat (2 * (x_depth d - base))) ++ ni_val (x_info d) ++ [10]
                           else [10])
                        else []) t).

Definition string_value (fl : flags) (t : list xnode) (it : item) : bytes :=
  match it with
  | IText n => ni_val (x_info n)
  | IElem n =>
      if is_term n then ni_val (x_info n)
      else if f_strval fl then 10 :: indented_of t (in_subtree n) (x_depth n)
      else text_of t (in_subtree n)
  | IRoot =>
      if f_strval fl then
        10 :: concat (map (fun d => if is_term d then spaces (N.to_nat (2 * (x_depth d + 1))) ++ ni_val (x_info d) ++ [10]
                                    else [10]) t) ++ [10]
      else text_of t (fun _ => true)
  end.

Definition s2n (fl : flags) (s : bytes) : xnum :=
  if f_s2n fl then impl_s2n (f_prec fl) s else spec_s2n (f_prec fl) s.
Definition n2s (fl : flags) (x : xnum) : bytes :=
  if f_n2s fl then impl_n2s x else spec_n2s (f_prec fl) x.

Definition set_string (fl : flags) (t : list xnode) (l : list item) : bytes :=
  match l with [] => [] | it :: _ => string_value fl t it end.

Definition to_str (fl : flags) (t : list xnode) (v : value) : bytes :=
  match v with
  | VSet l => set_string fl t l
  | VStr s => s
  | VNum x => n2s fl x
  | VBool b => bool_to_str b
  end.

Definition to_num (fl : flags) (t : list xnode) (v : value) : xnum :=
  match v with
  | VSet l => s2n fl (set_string fl t l)
  | VStr s => s2n fl s
  | VNum x => x
  | VBool b => bool_to_num b
  end.

Definition to_bool (v : value) : bool :=
  match v with
  | VSet l => match l with [] => false | _ => true end
  | VStr s => str_to_bool s
  | VNum x => num_to_bool x
  | VBool b => b
  end.

(* ------------------------------------------------------------------------------------------------ *)
(* comparisons (XPath 1.0 section 3.4)                                                              *)
(* ------------------------------------------------------------------------------------------------ *)
Definition cmp_num (op : cmpop) (a b : xnum) : bool :=
  match op with
  | CEq => x_eq a b
  | CNe => negb (x_eq a b)
  | CLt => x_lt a b
  | CLe => x_le a b
  | CGt => x_lt b a
  | CGe => x_le b a
  end.

Definition is_relational (op : cmpop) : bool :=
  match op with CEq | CNe => false | _ => true end.

(* two strings: = and != compare the strings, the others compare their numbers *)
Definition cmp_str (fl : flags) (op : cmpop) (a b : bytes) : bool :=
  match op with
  | CEq => beq_bytes a b
  | CNe => negb (beq_bytes a b)
  | _ => cmp_num op (s2n fl a) (s2n fl b)
  end.

Definition cmp_bool (op : cmpop) (a b : bool) : bool :=
  match op with
  | CEq => Bool.eqb a b
  | CNe => negb (Bool.eqb a b)
  | _ => cmp_num op (bool_to_num a) (bool_to_num b)
  end.

(* neither operand is a node-set *)
Definition cmp_atomic (fl : flags) (t : list xnode) (op : cmpop) (a b : value) : bool :=
  if is_relational op then cmp_num op (to_num fl t a) (to_num fl t b)
  else
    match a, b with
    | VBool _, _ | _, VBool _ => cmp_bool op (to_bool a) (to_bool b)
    | VNum _, _ | _, VNum _ => cmp_num op (to_num fl t a) (to_num fl t b)
    | _, _ => cmp_str fl op (to_str fl t a) (to_str fl t b)
    end.

Definition flip_op (op : cmpop) : cmpop :=
  match op with CLt => CGt | CLe => CGe | CGt => CLt | CGe => CLe | o => o end.

Definition item_type (it : item) : ltype :=
  match it with
  | IElem n => if is_term n then ni_type (x_info n) else TyStr
  | _ => TyStr
  end.

(* set_comp_canonize(): the string operand is replaced by its canonical form for the type of the compared node
   when that type accepts it; the replacement stays for the following nodes *)
Definition canon_for (fl : flags) (it : item) (s : bytes) : bytes :=
  if f_canon fl then match canonize (item_type it) s with Some c => c | None => s end else s.

(* exists a node n in l with  string-value(n) op s  (the string threaded through canonization) *)
Fixpoint cmp_set_str (fl : flags) (t : list xnode) (op : cmpop) (l : list item) (s : bytes) : bool :=
  match l with
  | [] => false
  | it :: r =>
      let s' := canon_for fl it s in
      cmp_str fl op (string_value fl t it) s' || cmp_set_str fl t op r s'
  end.

Definition cmp_values (fl : flags) (t : list xnode) (op : cmpop) (a b : value) : bool :=
  match a, b with
  | VSet l1, VSet l2 =>
      existsb (fun i1 => cmp_set_str fl t (flip_op op) l2 (string_value fl t i1)) l1
  | VSet l, VNum x => existsb (fun it => cmp_num op (s2n fl (string_value fl t it)) x) l
  | VNum x, VSet l => existsb (fun it => cmp_num op x (s2n fl (string_value fl t it))) l
  | VSet l, VStr s => cmp_set_str fl t op l s
  | VStr s, VSet l => cmp_set_str fl t (flip_op op) l s
  | VSet l, VBool bb =>
      if f_cmpbool fl then
        (* as coded: item by item; a relational operator casts the boolean operand to a number for good, so only
           the first node is compared as boolean(node) and the following ones as number(node) *)
        if is_relational op then
          match l with
          | [] => false
          | _ :: r => cmp_num op (bool_to_num true) (bool_to_num bb) ||
                      existsb (fun it => cmp_num op (s2n fl (string_value fl t it)) (bool_to_num bb)) r
          end
        else existsb (fun _ => cmp_bool op true bb) l
      else cmp_atomic fl t op (VBool (to_bool a)) (VBool bb)
  | VBool bb, VSet l =>
      if f_cmpbool fl then
        if is_relational op then
          match l with
          | [] => false
          | _ :: r => cmp_num op (bool_to_num bb) (bool_to_num true) ||
                      existsb (fun it => cmp_num op (bool_to_num bb) (s2n fl (string_value fl t it))) r
          end
        else existsb (fun _ => cmp_bool op bb true) l
      else cmp_atomic fl t op (VBool bb) (VBool (to_bool b))
  | _, _ => cmp_atomic fl t op a b
  end.

Definition arith (fl : flags) (op : arop) (a b : xnum) : xnum :=
  match op with
  | AAdd => x_add (f_prec fl) a b
  | ASub => x_sub (f_prec fl) a b
  | AMul => x_mul (f_prec fl) a b
  | ADiv => x_div (f_prec fl) a b
  | AMod => x_mod a b
  end.

(* ------------------------------------------------------------------------------------------------ *)
(* evaluation context                                                                               *)
(* ------------------------------------------------------------------------------------------------ *)
Record ectx : Type := {
  c_item : item;          (* context node *)
  c_pos : N;              (* context position *)
  c_size : N;             (* context size *)
  c_cur : item;           (* current() : the initial context node *)
  c_nca : bool            (* as coded only: set->non_child_axis of the context set *)
}.

(* predicate truth: a number is compared with the context position *)
Definition pred_true (fl : flags) (v : value) (pos : N) : bool :=
  match v with
  | VNum x =>
      if f_predtrunc fl then (ll_cast x =? Z.of_N pos)%Z
      else x_eq x (x_of_Z (Z.of_N pos))
  | _ => to_bool v
  end.

Fixpoint filter_idx (f : item -> N -> res bool) (l : list item) (i : N) : res (list item) :=
  match l with
  | [] => Ok []
  | it :: r =>
      bind (f it i) (fun b => bind (filter_idx f r (i + 1)) (fun r' => Ok (if b then it :: r' else r')))
  end.

Fixpoint fold_res {A B} (f : A -> B -> res A) (l : list B) (a : A) : res A :=
  match l with
  | [] => Ok a
  | b :: r => bind (f a b) (fun a' => fold_res f r a')
  end.

(* as coded: set->non_child_axis after evaluating e from a context set with flag n *)
Fixpoint nca_of (e : expr) (n : bool) : bool :=
  match e with
  | ERoot => false
  | ECtx => n
  | EStep base ds ax nt _ =>
      nca_of base n || nonchild_axis ax ||
      (ds && negb (match ax, nt with AxChild, TName _ _ | AxChild, TStar _ => true | _, _ => false end))
  | EFilter e' _ => nca_of e' n
  | EUnion a _ => nca_of a n
  | _ => n
  end.

(* a value expression whose result cannot depend on the context node (the fast path evaluates it once) *)
Fixpoint closed_expr (pos : bool) (e : expr) : bool :=
  match e with
  | ELit _ | ENum _ => true
  | EFun0 f => match f with FTrue | FFalse => true | FLast | FPosition => pos | _ => false end
  | EFun1 f a => match f with
                 | FString | FNumber | FBoolean | FNot | FFloor | FCeiling | FRound | FStrLen | FNormSpace => closed_expr pos a
                 | _ => false
                 end
  | EFun2 f a b => match f with
                   | FConcat | FStartsWith | FContains | FSubBefore | FSubAfter | FSubstring => closed_expr pos a && closed_expr pos b
                   | _ => false
                   end
  | EFun3 f a b c => match f with
                     | FSubstring | FTranslate => closed_expr pos a && closed_expr pos b && closed_expr pos c
                     | _ => false
                     end
  | EArith _ a b | ECmp _ a b => closed_expr pos a && closed_expr pos b
  | ENeg a => closed_expr pos a
  | _ => false
  end.

(* the leading predicates [k1=v1][k2=v2].. for the keys in schema order: value expressions and the rest *)
Fixpoint key_preds (pos : bool) (mod_ : bytes) (keys : list bytes) (ps : preds) : option (list expr * preds) :=
  match keys with
  | [] => Some ([], ps)
  | k :: keys' =>
      match ps with
      | PCons (ECmp CEq (EStep ECtx false AxChild (TName pfx nm) PNil) rhs) r =>
          if beq_bytes nm k && match pfx with Some p => beq_bytes p mod_ | None => true end && closed_expr pos rhs then
            match key_preds pos mod_ keys' r with
            | Some (vs, rest) => Some (rhs :: vs, rest)
            | None => None
            end
          else None
      | _ => None
      end
  end.

(* the child of list instance n named k *)
Definition key_child (t : list xnode) (n : xnode) (k : bytes) : option xnode :=
  find (fun d => match x_parent d with Some p => (p =? x_id n) && beq_bytes (ni_name (x_info d)) k | None => false end) t.

Definition inst_matches (t : list xnode) (n : xnode) (keys : list bytes) (vals : list bytes) : bool :=
  forallb (fun kv => match key_child t n (fst kv) with
                     | Some d => beq_bytes (ni_val (x_info d)) (snd kv)
                     | None => false
                     end) (combine keys vals).

(* does the expression use the namespace axis anywhere (as coded: rejected when the expression is parsed) *)
Fixpoint uses_ns (e : expr) : bool :=
  match e with
  | ERoot | ECtx | ELit _ | ENum _ | EFun0 _ => false
  | EStep base _ ax _ ps => uses_ns base || match ax with AxNamespace => true | _ => false end || uses_ns_p ps
  | EFilter e' ps => uses_ns e' || uses_ns_p ps
  | EOr a b | EAnd a b | ECmp _ a b | EArith _ a b | EUnion a b | EFun2 _ a b => uses_ns a || uses_ns b
  | ENeg a | EFun1 _ a => uses_ns a
  | EFun3 _ a b c => uses_ns a || uses_ns b || uses_ns c
  end
with uses_ns_p (ps : preds) : bool :=
  match ps with
  | PNil => false
  | PCons p r => uses_ns p || uses_ns_p r
  end.

(* as coded: a step '//' + axis other than child/attribute + name test anywhere in e: parsing it in skip mode
   calls xpath_pi_node(), which frees the set it is given *)
Fixpoint skip_clobbers (e : expr) : bool :=
  match e with
  | ERoot | ECtx | ELit _ | ENum _ | EFun0 _ => false
  | EStep base ds ax nt ps =>
      skip_clobbers base || skip_clobbers_p ps ||
      (ds && match ax with AxChild | AxAttribute | AxNamespace => false | _ => true end &&
       match nt with TName _ _ | TStar _ => true | _ => false end)
  | EFilter e' ps => skip_clobbers e' || skip_clobbers_p ps
  | EOr a b | EAnd a b | ECmp _ a b | EArith _ a b | EUnion a b | EFun2 _ a b => skip_clobbers a || skip_clobbers b
  | ENeg a | EFun1 _ a => skip_clobbers a
  | EFun3 _ a b c => skip_clobbers a || skip_clobbers b || skip_clobbers c
  end
with skip_clobbers_p (ps : preds) : bool :=
  match ps with
  | PNil => false
  | PCons p r => skip_clobbers p || skip_clobbers_p r
  end.

(* non-decreasing keys (set_sort() finds nothing to swap) *)
Fixpoint sorted_weak_from (k : N) (l : list item) : bool :=
  match l with
  | [] => true
  | it :: r => (k <=? item_key it) && sorted_weak_from (item_key it) r
  end.

Section Eval.
  Variable fl : flags.
  Variable t : list xnode.

  Definition num_of (v : value) : xnum := to_num fl t v.
  Definition str_of (v : value) : bytes := to_str fl t v.

  Definition floor_f (x : xnum) (cx : ectx) : value :=
    if f_floor fl then match impl_floor x with Some r => VNum r | None => VSet [c_item cx] end
    else VNum (spec_floor x).
  Definition ceiling_f (x : xnum) : xnum := if f_floor fl then impl_ceiling x else spec_ceiling x.
  Definition round_f (x : xnum) : xnum := if f_floor fl then impl_round (f_prec fl) x else spec_round (f_prec fl) x.
  Definition substring_f (s : bytes) (a : xnum) (b : option xnum) : bytes :=
    if f_bytes fl then impl_substring (f_prec fl) s a b else spec_substring (f_prec fl) s a b.

  (* first node of a node-set argument (or of the context) for local-name() / name() *)
  Definition name_of (local : bool) (l : list item) : bytes :=
    match l with
    | IElem n :: _ => if local then ni_name (x_info n) else ni_mod (x_info n) ++ 58 :: ni_name (x_info n)
    | _ => []
    end.

  Definition fun1 (f : fn) (cx : ectx) (v : value) : res value :=
    match f with
    | FCount => match v with VSet l => Ok (VNum (x_of_Z (Z.of_nat (length l)))) | _ => Err E_TYPE end
    | FLocalName => match v with VSet l => Ok (VStr (name_of true l)) | _ => Err E_TYPE end
    | FName => match v with VSet l => Ok (VStr (name_of false l)) | _ => Err E_TYPE end
    | FString => Ok (VStr (str_of v))
    | FStrLen => Ok (VNum (x_of_Z (Z.of_nat (if f_bytes fl then impl_string_length (str_of v)
                                               else spec_string_length (str_of v)))))
    | FNormSpace => Ok (VStr (if f_normsp fl then impl_normalize_space (str_of v) else normalize_space (str_of v)))
    | FBoolean => Ok (VBool (to_bool v))
    | FNot => Ok (VBool (negb (to_bool v)))
    | FNumber => Ok (VNum (num_of v))
    | FSum => match v with
              | VSet l => Ok (VNum (fold_left (fun acc it => x_add (f_prec fl) acc (s2n fl (string_value fl t it))) l x_zero))
              | _ => Err E_TYPE
              end
    | FFloor => Ok (floor_f (num_of v) cx)
    | FCeiling => Ok (VNum (ceiling_f (num_of v)))
    | FRound => Ok (VNum (round_f (num_of v)))
    | _ => Err E_TYPE
    end.

  Definition fun2 (f : fn) (a b : value) : res value :=
    match f with
    | FConcat => Ok (VStr (str_of a ++ str_of b))
    | FStartsWith => Ok (VBool (starts_with (str_of b) (str_of a)))
    | FContains => Ok (VBool (str_contains (str_of a) (str_of b)))
    | FSubBefore => Ok (VStr (match split_at_sub (str_of a) (str_of b) with Some (x, _) => x | None => [] end))
    | FSubAfter => Ok (VStr (match split_at_sub (str_of a) (str_of b) with Some (_, y) => y | None => [] end))
    | FSubstring => Ok (VStr (substring_f (str_of a) (num_of b) None))
    | _ => Err E_TYPE
    end.

  Definition fun3 (f : fn) (a b c : value) : res value :=
    match f with
    | FSubstring => Ok (VStr (substring_f (str_of a) (num_of b) (Some (num_of c))))
    | FTranslate => Ok (VStr (translate (f_bytes fl) (str_of a) (str_of b) (str_of c)))
    | _ => Err E_TYPE
    end.

  (* as coded checks of one step over the context set S (moveto_node): assert on child/self steps whose
     concatenated result is not in document order; crash in get_node_pos() when a set has to be sorted and the
     last top-level node has no children *)
  Definition step_checks (nca : bool) (ax : axis) (nt : ntest) (S : list item) : res unit :=
    let raw := flat_map (fun c => if reverse_axis ax then rev (cands fl t ax nt c) else cands fl t ax nt c) S in
    if nonchild_axis ax || nca then
      if f_crash fl && has_descent (dedupe raw []) None && last_top_childless t false then Err E_CRASH else Ok tt
    else
      (* set_sort() finds nothing to swap between equal items *)
      if f_assert fl && negb (match raw with [] => true | it :: r => sorted_weak_from (item_key it) r end)
      then Err E_ASSERT else Ok tt.

  (* the union over the context items of S of the selected items *)
  Definition step_union (ax : axis) (nt : ntest) (S : list item) : list item :=
    filter (fun m => existsb (fun c => axis_rel fl ax c m && node_test fl nt c m) S) (all_items t).

  (* as coded: moveto_node_alldesc_child() - from every child c1 of the context nodes a DFS collects the matching
     nodes; below a matching node that is itself one of the start nodes the DFS does not descend (it is 'processed
     later'), but that node has been inserted already and is inserted again as a start node *)
  Definition alldesc_coded (nt : ntest) (C1 : list item) : list item :=
    flat_map (fun st =>
      match st with
      | IElem sn =>
          filter (fun m =>
            match m with
            | IElem y =>
                ((x_id sn =? x_id y) || in_subtree sn y) && node_test fl nt st m &&
                negb (existsb (fun z => match z with
                                        | IElem zn => negb (x_id zn =? x_id sn) && in_subtree sn zn &&
                                                      node_test fl nt st z && in_subtree zn y
                                        | _ => false
                                        end) C1)
            | _ => false
            end) (all_items t)
      | _ => []
      end) C1.

  (* as coded: does the step qualify for the key lookup? first selected instance and its key names *)
  Definition fast_pre (ax : axis) (ds : bool) (nt : ntest) (ps : preds) (all : list item) : option (xnode * list bytes) :=
    if negb (f_fast fl) || ds then None
    else
      match ax, nt, all with
      | AxChild, TName _ _, IElem n0 :: _ =>
          match ni_kind (x_info n0), ni_keys (x_info n0) with
          | KList, k0 :: krest =>
              match key_preds (f_fastpos fl) (ni_mod (x_info n0)) (k0 :: krest) ps with
              | Some _ => Some (n0, k0 :: krest)
              | None => None
              end
          | _, _ => None
          end
      | _, _, _ => None
      end.

  (* one step 'base/axis::test[preds]' (or 'base//...') from the context set S0.
     [ap nca rv skip l] applies the predicates of the step to the candidate list l (eval's apply_preds);
     [fastp] / [fastv] are the as-coded key lookup of the step (fast_pre, fast_vals). *)
  Definition step_body (nca0 : bool) (S0 : list item) (ds : bool) (ax : axis) (nt : ntest) (has_preds : bool)
             (ap : bool -> bool -> nat -> list item -> res (list item))
             (fastp : list item -> option (xnode * list bytes))
             (fastv : xnode -> list bytes -> option (list bytes)) : res value :=
    if is_ns_axis ax then (if f_nsaxis fl then Err E_TYPE else Ok (VSet []))
    else if is_attr_axis ax then
      (* no metadata in the modelled trees: the attribute axis is empty *)
      (if f_attrnode fl && match nt with TNode => true | _ => false end && match S0 with [] => false | _ => true end
       then Err E_ASSERT else Ok (VSet []))
    else
      (* '//' = /descendant-or-self::node()/ ; as coded ignored before a node type test, and before a
         name test on the child axis done by moveto_node_alldesc_child() which first moves to the children *)
      let is_type := match nt with TNode | TText => true | _ => false end in
      let ds_eff := ds && negb (f_dslash fl && is_type) in
      let alldesc_child := ds_eff && is_child_axis ax in
      bind (if ds_eff && (f_assert fl || f_crash fl) then
              if alldesc_child then step_checks nca0 AxChild TNode S0
              else step_checks nca0 AxDescendantOrSelf TNode S0
            else Ok tt) (fun _ =>
      let S := if ds_eff then step_union AxDescendantOrSelf TNode S0 else S0 in
      let nca1 := nca0 || (ds_eff && negb alldesc_child) in
      let nca2 := nca1 || nonchild_axis ax in
      if f_text fl && match nt with TText => true | _ => false end then
        (* xpath_pi_text(): on the child axis the term nodes of the context set become their text nodes *)
        let texts := if is_child_axis ax then flat_map text_of_item S else [] in
        if f_texthash fl && has_preds && (4 <=? length texts)%nat then Err E_ASSERT
        else bind (ap nca2 false 0%nat texts) (fun l => Ok (VSet l))
      else
      bind (if (f_assert fl || f_crash fl) && negb alldesc_child then step_checks nca1 ax nt S else Ok tt) (fun _ =>
      if f_predglobal fl then
        let is_name := match nt with TName _ _ | TStar _ => true | _ => false end in
        let dup_mode := f_alldup fl && alldesc_child && is_name in
        (* as coded a child or self step does not look for duplicates: from a context set that holds a node twice
           (see dup_mode) the selected nodes come twice as well *)
        let keep_dups := f_alldup fl && negb (nonchild_axis ax) && negb ds_eff &&
                         negb (length (dedupe S []) =? length S)%nat in
        let all := if dup_mode then alldesc_coded nt (step_union AxChild TNode S0)
                   else if keep_dups then fold_left (fun acc c => merge_keep acc (cands fl t ax nt c)) S []
                   else step_union ax nt S in
        (* asserts of the debug build: a duplicate cannot be inserted into the hash table a set has from its
           4th item on (set_insert_node_hash); the final set must not need sorting *)
        if dup_mode && f_assert fl &&
           (negb (match all with [] => true | it :: r => sorted_weak_from (item_key it) r end) ||
            ((4 <=? length all)%nat && negb (length (dedupe all []) =? length all)%nat))
        then Err E_ASSERT else
        let generic := bind (ap nca2 (reverse_axis ax) 0%nat all) (fun l => Ok (VSet l)) in
        match fastp all with
        | Some (n0, keys) =>
            match fastv n0 keys with
            | Some vs =>
                bind (ap nca2 false (length keys)
                        (filter (fun m => match m with IElem n => inst_matches t n keys vs | _ => false end) all))
                     (fun l => Ok (VSet l))
            | None => generic
            end
        | None => generic
        end
      else
        (* XPath 1.0 section 2.1: for each context node the axis and node test give the candidates, the predicates
           filter them with positions along the axis; the step selects the union *)
        bind (fold_res (fun acc c =>
                          bind (ap nca2 (reverse_axis ax) 0%nat (cands fl t ax nt c))
                               (fun l => Ok (merge_items acc l))) S [])
             (fun l => Ok (VSet l)))).

  (* as coded: a step applied to something that is not a node-set *)
  Definition step_nonset (nt : ntest) : res value :=
    if f_nonset fl then
      match nt with
      | TName _ _ | TStar (Some _) => Err E_ASSERT
      | TNode => Ok (VSet [])
      | _ => Err E_TYPE
      end
    else Err E_TYPE.

  Fixpoint eval (cx : ectx) (e : expr) {struct e} : res value :=
    match e with
    | ERoot => Ok (VSet [IRoot])
    | ECtx => Ok (VSet [c_item cx])
    | EStep base ds ax nt ps =>
        bind (eval cx base) (fun bv =>
        match bv with
        | VSet S0 =>
            step_body (nca_of base (c_nca cx)) S0 ds ax nt (match ps with PNil => false | _ => true end)
              (fun nca rv skip l => apply_preds cx nca rv skip ps l)
              (fast_pre ax ds nt ps)
              (fun n0 keys => fast_vals cx n0 keys ps)
        | _ => step_nonset nt
        end)
    | EFilter e' ps =>
        bind (eval cx e') (fun v =>
        match v with
        | VSet l => bind (apply_preds cx (nca_of e' (c_nca cx)) false 0 ps l) (fun l' => Ok (VSet l'))
        | _ => Err E_TYPE
        end)
    | EOr a b =>
        bind (eval cx a) (fun va => if to_bool va then (if f_skip fl && skip_clobbers b then Ok (VSet []) else Ok (VBool true))
                                    else bind (eval cx b) (fun vb => Ok (VBool (to_bool vb))))
    | EAnd a b =>
        (* a chain 'x and y and z' is EAnd (EAnd x y) z and is evaluated operand by operand on one result set: when
           (as coded) a skipped operand emptied that set, it is no longer the boolean false and the next operand is
           evaluated *)
        bind (eval cx a) (fun va =>
          let emptied := f_skip fl && match a, va with EAnd _ _, VSet [] => true | _, _ => false end in
          if to_bool va || emptied then bind (eval cx b) (fun vb => Ok (VBool (to_bool vb)))
          else if f_skip fl && skip_clobbers b then Ok (VSet []) else Ok (VBool false))
    | ECmp op a b =>
        bind (eval cx a) (fun va => bind (eval cx b) (fun vb => Ok (VBool (cmp_values fl t op va vb))))
    | EArith op a b =>
        bind (eval cx a) (fun va => bind (eval cx b) (fun vb => Ok (VNum (arith fl op (num_of va) (num_of vb)))))
    | ENeg a => bind (eval cx a) (fun va => Ok (VNum (x_neg (num_of va))))
    | EUnion a b =>
        bind (eval cx a) (fun va => bind (eval cx b) (fun vb =>
          match va, vb with
          | VSet l1, VSet l2 =>
              (* as coded: an operand that holds a node twice (see f_alldup) cannot be merged into a set that has a
                 hash table (4 items): assert in set_insert_node_hash() *)
              if f_alldup fl && f_assert fl && (4 <=? length (merge_items l1 l2))%nat &&
                 negb ((length (dedupe l1 []) =? length l1)%nat && (length (dedupe l2 []) =? length l2)%nat)
              then Err E_ASSERT else Ok (VSet (merge_items l1 l2))
          | _, _ => Err E_TYPE
          end))
    | ELit s => Ok (VStr s)
    | ENum s => Ok (VNum (match parse_mantissa s with
                          | Some (q, []) => XFin false (rnd (f_prec fl) q)
                          | _ => XNaN
                          end))
    | EFun0 f =>
        match f with
        | FLast => Ok (VNum (x_of_Z (Z.of_N (c_size cx))))
        | FPosition => Ok (VNum (x_of_Z (Z.of_N (c_pos cx))))
        | FTrue => Ok (VBool true)
        | FFalse => Ok (VBool false)
        | FCurrent => Ok (VSet [c_cur cx])
        | FString | FNumber | FStrLen | FNormSpace | FLocalName | FName => fun1 f cx (VSet [c_item cx])
        | _ => Err E_TYPE
        end
    | EFun1 f a => bind (eval cx a) (fun va => fun1 f cx va)
    | EFun2 f a b => bind (eval cx a) (fun va => bind (eval cx b) (fun vb => fun2 f va vb))
    | EFun3 f a b c =>
        bind (eval cx a) (fun va => bind (eval cx b) (fun vb => bind (eval cx c) (fun vc => fun3 f va vb vc)))
    end
  (* Predicate*: each predicate filters the list; positions count in document order, or in reverse document order
     on a reverse axis. The first [skip] predicates are passed over (as coded: answered by the key lookup). *)
  with apply_preds (cx : ectx) (nca : bool) (rv : bool) (skip : nat) (ps : preds) (l : list item)
                   {struct ps} : res (list item) :=
    match ps with
    | PNil => Ok l
    | PCons p r =>
        match skip with
        | S sk => apply_preds cx nca rv sk r l
        | O =>
            let n := N.of_nat (length l) in
            bind (filter_idx (fun it i =>
                    let pos := if rv then n + 1 - i else i in
                    bind (eval {| c_item := it; c_pos := pos; c_size := n; c_cur := c_cur cx; c_nca := nca |} p)
                         (fun v => Ok (pred_true fl v pos))) l 1)
                 (fun l' => apply_preds cx nca rv O r l')
        end
    end
  (* as coded: eval_name_test_try_compile_predicates() + moveto_node_hash_child(): on a child step to a keyed list
     whose first predicates are [key=value] for all keys in schema order with context-independent values, each value
     is evaluated ONCE (context: the first instance), converted to a STRING, brought to the canonical form of the key
     type (no lookup when the type rejects it) and the instances are found by comparing key strings *)
  with fast_vals (cx : ectx) (n0 : xnode) (keys : list bytes) (ps : preds) {struct ps} : option (list bytes) :=
    match keys with
    | [] => Some []
    | k :: keys' =>
        match ps with
        | PCons (ECmp CEq _ rhs) r =>
            match eval {| c_item := IElem n0; c_pos := 1; c_size := 1; c_cur := c_cur cx; c_nca := false |} rhs with
            | Ok v =>
                match key_child t n0 k with
                | Some d =>
                    match canonize (ni_type (x_info d)) (str_of v) with
                    | Some c => match fast_vals cx n0 keys' r with Some vs => Some (c :: vs) | None => None end
                    | None => None
                    end
                | None => None
                end
            | Err _ => None
            end
        | _ => None
        end
    end.

  (* the context of a top-level evaluation with context item c *)
  Definition top_ctx (c : item) : ectx := {| c_item := c; c_pos := 1; c_size := 1; c_cur := c; c_nca := false |}.
  Definition eval_top (c : item) (e : expr) : res value :=
    if f_nsaxis fl && uses_ns e then Err E_TYPE else eval (top_ctx c) e.
End Eval.
