(* XPathSem.v — slice xpath (C08): executable semantics of XPath 1.0 on YANG data trees.

   [eval fl t cx e] evaluates expression [e] on tree [t] with context [cx].
   With [fl = spec_flags] this is a REFERENCE evaluator written from the W3C XPath 1.0 recommendation (sections 2-4)
   and RFC 7950 section 6.4 / 10 (data model, current()); it is not a transcription of src/xpath.c.
   Each field of [flags] switches ONE construct to what src/xpath.c does instead (as coded, with the source location
   in the comment of the field); [impl_flags] switches all of them on and is what the library is expected to answer
   case by case (checked by the correspondence run).  A case where the two evaluators differ is a deviation of the
   library from XPath 1.0; the flags that are needed to explain the library's answer name the deviation.
   The switches of the deviations that were repaired in /repo (commits 61e2388 .. f6e5fb8: sort restart crash, skipped
   operands, '//' duplicates, unsorted child steps, floor/ceiling/round, numeric predicates, node-set vs boolean,
   '//' before node types, following and preceding axes, key lookups with non-string or context-dependent values,
   attribute::node(), node() after a non-node-set (17c1e75), normalize-space, stale hash entries) have been removed: both evaluators follow the
   recommendation there.

   Node-sets are lists of items in document order without duplicates (proved in XPathSemP.v for every expression).
   The axes are defined as relations between items, decided from the pre-order indices of XPathTree: a step selects
   by filtering the document-order list of all items. *)
From Coq Require Import QArith.
From LY Require Import Base XPathConv XPathTree.
From Coq Require Import ZifyBool ZifyNat ZifyN.
Local Open Scope N_scope.

Inductive axis : Type :=
| AxChild | AxDescendant | AxDescendantOrSelf | AxParent | AxAncestor | AxAncestorOrSelf
| AxFollowing | AxFollowingSibling | AxPreceding | AxPrecedingSibling | AxSelf | AxAttribute | AxNamespace.

(* node tests; the optional prefix is a module name (RFC 7951 style); an unprefixed name belongs to the module
   of the parent of the selected node (a top-level node: to any module) *)
Inductive ntest : Type :=
| TName (pfx : option bytes) (name : bytes)
| TStar (pfx : option bytes)
| TNode                                  (* node() *)
| TText                                  (* text() *)
| TAny.                                  (* the node test of the abbreviations '.' and '..' (= node()) *)

Inductive cmpop : Type := CEq | CNe | CLt | CLe | CGt | CGe.
Inductive arop : Type := AAdd | ASub | AMul | ADiv | AMod.

Inductive fn : Type :=
| FLast | FPosition | FCount | FLocalName | FName | FString | FConcat | FStartsWith | FContains
| FSubBefore | FSubAfter | FSubstring | FStrLen | FNormSpace | FTranslate | FBoolean | FNot | FTrue | FFalse
| FNumber | FSum | FFloor | FCeiling | FRound | FCurrent.

Inductive expr : Type :=
| ERoot                                                       (* the root node: '/' *)
| ECtx                                                        (* the context node: start of a relative path *)
| EStep (base : expr) (ds : bool) (ax : axis) (nt : ntest) (ps : preds)
                                                              (* base '/' step, or base '//' step when ds *)
| EFilter (e : expr) (ps : preds)                             (* PrimaryExpr Predicate+ *)
| EOr (a b : expr)
| EAnd (a b : expr)
| ECmp (op : cmpop) (a b : expr)
| EArith (op : arop) (a b : expr)
| ENeg (a : expr)
| EUnion (a b : expr)
| ELit (s : bytes)
| ENum (text : bytes)                                         (* Digits ('.' Digits?)? | '.' Digits *)
| EFun0 (f : fn)
| EFun1 (f : fn) (a : expr)
| EFun2 (f : fn) (a b : expr)
| EFun3 (f : fn) (a b c : expr)
with preds : Type :=
| PNil
| PCons (p : expr) (r : preds).

Inductive value : Type :=
| VSet (l : list item)
| VStr (s : bytes)
| VNum (x : xnum)
| VBool (b : bool).

(* one switch per construct in which src/xpath.c departs from the recommendation *)
Record flags : Type := {
  f_prec : Z;             (* mantissa bits: 53 IEEE double; 64 long double (struct lyxp_set val.num) *)
  f_bytes : bool;         (* xpath_string_length/xpath_substring/xpath_translate count bytes *)
  f_strval : bool;        (* cast_string_recursive(): string value of inner nodes with line feeds and indentation *)
  f_predglobal : bool;    (* eval_predicate(): positions count over the whole step result, not per context node *)
  f_text : bool;          (* text nodes exist only as the result of child::text() on term nodes *)
  f_canon : bool;         (* set_comp_canonize(): string operand canonized by the type of the compared node *)
  f_nsaxis : bool         (* the namespace axis is a syntax error *)
}.

Definition spec_flags : flags :=
  {| f_prec := 53; f_bytes := false; f_strval := false; f_predglobal := false;
     f_text := false; f_canon := false; f_nsaxis := false |}.

Definition impl_flags : flags :=
  {| f_prec := 64; f_bytes := true; f_strval := true; f_predglobal := true;
     f_text := true; f_canon := true; f_nsaxis := true |}.

(* error classes *)
Definition E_TYPE : N := 7.        (* LY_EVALID: wrong operand / argument type, unknown function, wrong arity *)

(* ------------------------------------------------------------------------------------------------ *)
(* axes as relations between a context item c and a candidate item m                                *)
(* ------------------------------------------------------------------------------------------------ *)
Definition elem_anc (a c : xnode) (strict : bool) : bool :=
  (if strict then x_id a <? x_id c else x_id a <=? x_id c) && (x_id c <=? x_last a).

(* a is a proper ancestor of c *)
Definition is_anc (a c : item) : bool :=
  match a, c with
  | IRoot, IRoot => false
  | IRoot, _ => true
  | IElem x, IElem y => elem_anc x y true
  | IElem x, IText y => elem_anc x y false
  | _, _ => false
  end.

(* p is the parent of c *)
Definition is_parent (p c : item) : bool :=
  match c with
  | IRoot => false
  | IElem y =>
      match x_parent y, p with
      | None, IRoot => true
      | Some i, IElem x => x_id x =? i
      | _, _ => false
      end
  | IText y => match p with IElem x => x_id x =? x_id y | _ => false end
  end.

Definition same_parent (x y : xnode) : bool :=
  match x_parent x, x_parent y with
  | None, None => true
  | Some a, Some b => a =? b
  | _, _ => false
  end.

Definition is_itext (m : item) : bool := match m with IText _ => true | _ => false end.
Definition is_ielem (m : item) : bool := match m with IElem _ => true | _ => false end.

(* XPath 1.0 section 2.2 *)
Definition axis_spec (ax : axis) (c m : item) : bool :=
  match ax with
  | AxSelf => item_eqb c m
  | AxChild => is_parent c m
  | AxParent => is_parent m c
  | AxDescendant => is_anc c m
  | AxDescendantOrSelf => item_eqb c m || is_anc c m
  | AxAncestor => is_anc m c
  | AxAncestorOrSelf => item_eqb c m || is_anc m c
  | AxFollowing => (item_key c <? item_key m) && negb (is_anc c m)
  | AxPreceding => (item_key m <? item_key c) && negb (is_anc m c)
  | AxFollowingSibling =>
      match c, m with IElem x, IElem y => same_parent x y && (x_id x <? x_id y) | _, _ => false end
  | AxPrecedingSibling =>
      match c, m with IElem x, IElem y => same_parent x y && (x_id y <? x_id x) | _, _ => false end
  | AxAttribute | AxNamespace => false
  end.

(* as coded (f_text) text items are never selected by an axis, and nothing follows or precedes a text item *)
Definition axis_rel (fl : flags) (ax : axis) (c m : item) : bool :=
  if f_text fl && is_itext m then false
  else
    match ax with
    | AxFollowing | AxPreceding => if f_text fl && is_itext c then false else axis_spec ax c m
    | _ => axis_spec ax c m
    end.

Definition item_mod (it : item) : option bytes :=
  match it with
  | IRoot => None
  | IElem n | IText n => Some (ni_mod (x_info n))
  end.

Definition node_test (fl : flags) (nt : ntest) (c m : item) : bool :=
  match nt with
  | TNode | TAny => true
  | TText => is_itext m
  | TStar None => is_ielem m                 (* elements only: not the root (as coded since /repo c545a4e) *)
  | TStar (Some p) => match m with IElem y => beq_bytes (ni_mod (x_info y)) p | _ => false end
  | TName pfx nm =>
      match m with
      | IElem y =>
          beq_bytes (ni_name (x_info y)) nm &&
          match pfx with
          | Some p => beq_bytes (ni_mod (x_info y)) p
          | None => match x_pmod y with Some pm => beq_bytes (ni_mod (x_info y)) pm | None => true end
          end
      | _ => false
      end
  end.

Definition reverse_axis (ax : axis) : bool :=
  match ax with
  | AxAncestor | AxAncestorOrSelf | AxPreceding | AxPrecedingSibling => true
  | _ => false
  end.

Definition is_ns_axis (ax : axis) : bool := match ax with AxNamespace => true | _ => false end.
Definition is_attr_axis (ax : axis) : bool := match ax with AxAttribute => true | _ => false end.
Definition is_child_axis (ax : axis) : bool := match ax with AxChild => true | _ => false end.

(* as coded (xpath_pi_text): a term node of the context set is replaced by its text node *)
Definition text_of_item (c : item) : list item :=
  match c with
  | IElem n => if is_term n then [IText n] else []
  | _ => []
  end.

(* the items selected from context item c, in document order *)
Definition cands (fl : flags) (t : list xnode) (ax : axis) (nt : ntest) (c : item) : list item :=
  filter (fun m => axis_rel fl ax c m && node_test fl nt c m) (all_items t).

(* ------------------------------------------------------------------------------------------------ *)
(* node-set operations                                                                              *)
(* ------------------------------------------------------------------------------------------------ *)
(* union of two sorted duplicate-free lists *)
Fixpoint merge_items (l1 : list item) : list item -> list item :=
  fix inner (l2 : list item) : list item :=
    match l1, l2 with
    | [], _ => l2
    | _, [] => l1
    | a :: r1, b :: r2 =>
        match item_key a ?= item_key b with
        | Lt => a :: merge_items r1 l2
        | Eq => a :: merge_items r1 r2
        | Gt => b :: inner r2
        end
    end.

(* ------------------------------------------------------------------------------------------------ *)
(* string value (XPath 1.0 section 5) and conversions (section 4)                                   *)
(* ------------------------------------------------------------------------------------------------ *)
Definition in_subtree (a d : xnode) : bool := (x_id a <? x_id d) && (x_id d <=? x_last a).

(* concatenation of the text of the descendants in document order *)
Definition text_of (t : list xnode) (sel : xnode -> bool) : bytes :=
  concat (map (fun d => if sel d && is_term d then ni_val (x_info d) else []) t).

Fixpoint spaces (n : nat) : bytes := match n with O => [] | S k => 32 :: spaces k end.

(* cast_string_recursive(): every inner node contributes a line feed, every term node
   2*(relative depth) blanks, its value and a line feed *)
Definition indented_of (t : list xnode) (sel : xnode -> bool) (base : N) : bytes :=
  concat (map (fun d => if sel d then
                          (if is_term d then spaces (N.to_nat (2 * (x_depth d - base))) ++ ni_val (x_info d) ++ [10]
                           else [10])
                        else []) t).

Definition string_value (fl : flags) (t : list xnode) (it : item) : bytes :=
  match it with
  | IText n => ni_val (x_info n)
  | IElem n =>
      if is_term n then ni_val (x_info n)
      else if f_strval fl then 10 :: indented_of t (in_subtree n) (x_depth n)
      else text_of t (in_subtree n)
  | IRoot =>
      if f_strval fl then
        10 :: concat (map (fun d => if is_term d then spaces (N.to_nat (2 * (x_depth d + 1))) ++ ni_val (x_info d) ++ [10]
                                    else [10]) t) ++ [10]
      else text_of t (fun _ => true)
  end.

(* the two conversions of the code are those of the recommendation at the precision of the code
   (XPathConvP.s2n_impl_eq_spec, n2s_impl_eq_spec; since /repo b906576 and 54bf5db) *)
Definition s2n (fl : flags) (s : bytes) : xnum :=
  spec_s2n (f_prec fl) s.
Definition n2s (fl : flags) (x : xnum) : bytes :=
  spec_n2s (f_prec fl) x.

Definition set_string (fl : flags) (t : list xnode) (l : list item) : bytes :=
  match l with [] => [] | it :: _ => string_value fl t it end.

Definition to_str (fl : flags) (t : list xnode) (v : value) : bytes :=
  match v with
  | VSet l => set_string fl t l
  | VStr s => s
  | VNum x => n2s fl x
  | VBool b => bool_to_str b
  end.

Definition to_num (fl : flags) (t : list xnode) (v : value) : xnum :=
  match v with
  | VSet l => s2n fl (set_string fl t l)
  | VStr s => s2n fl s
  | VNum x => x
  | VBool b => bool_to_num b
  end.

Definition to_bool (v : value) : bool :=
  match v with
  | VSet l => match l with [] => false | _ => true end
  | VStr s => str_to_bool s
  | VNum x => num_to_bool x
  | VBool b => b
  end.

(* ------------------------------------------------------------------------------------------------ *)
(* comparisons (XPath 1.0 section 3.4)                                                              *)
(* ------------------------------------------------------------------------------------------------ *)
Definition cmp_num (op : cmpop) (a b : xnum) : bool :=
  match op with
  | CEq => x_eq a b
  | CNe => negb (x_eq a b)
  | CLt => x_lt a b
  | CLe => x_le a b
  | CGt => x_lt b a
  | CGe => x_le b a
  end.

Definition is_relational (op : cmpop) : bool :=
  match op with CEq | CNe => false | _ => true end.

(* two strings: = and != compare the strings, the others compare their numbers *)
Definition cmp_str (fl : flags) (op : cmpop) (a b : bytes) : bool :=
  match op with
  | CEq => beq_bytes a b
  | CNe => negb (beq_bytes a b)
  | _ => cmp_num op (s2n fl a) (s2n fl b)
  end.

Definition cmp_bool (op : cmpop) (a b : bool) : bool :=
  match op with
  | CEq => Bool.eqb a b
  | CNe => negb (Bool.eqb a b)
  | _ => cmp_num op (bool_to_num a) (bool_to_num b)
  end.

(* neither operand is a node-set *)
Definition cmp_atomic (fl : flags) (t : list xnode) (op : cmpop) (a b : value) : bool :=
  if is_relational op then cmp_num op (to_num fl t a) (to_num fl t b)
  else
    match a, b with
    | VBool _, _ | _, VBool _ => cmp_bool op (to_bool a) (to_bool b)
    | VNum _, _ | _, VNum _ => cmp_num op (to_num fl t a) (to_num fl t b)
    | _, _ => cmp_str fl op (to_str fl t a) (to_str fl t b)
    end.

Definition flip_op (op : cmpop) : cmpop :=
  match op with CLt => CGt | CLe => CGe | CGt => CLt | CGe => CLe | o => o end.

Definition item_type (it : item) : ltype :=
  match it with
  | IElem n => if is_term n then ni_type (x_info n) else TyStr
  | _ => TyStr
  end.

(* set_comp_canonize(): the string operand is replaced by its canonical form for the type of the compared node
   when that type accepts it; the replacement stays for the following nodes *)
Definition canon_for (fl : flags) (it : item) (s : bytes) : bytes :=
  if f_canon fl then match canonize (item_type it) s with Some c => c | None => s end else s.

(* exists a node n in l with  string-value(n) op s.
   As coded (f_canon) the string is first canonized for the type of the compared node and stays so for the following
   nodes; a relational operator converts the string to a number when the first node is compared (moveto_op_comp casts
   the operand in place), so only the first node can canonize it *)
Fixpoint cmp_set_str_eq (fl : flags) (t : list xnode) (op : cmpop) (l : list item) (s : bytes) : bool :=
  match l with
  | [] => false
  | it :: r =>
      let s' := canon_for fl it s in
      cmp_str fl op (string_value fl t it) s' || cmp_set_str_eq fl t op r s'
  end.

Definition cmp_set_str (fl : flags) (t : list xnode) (op : cmpop) (l : list item) (s : bytes) : bool :=
  if is_relational op then
    match l with
    | [] => false
    | it :: _ =>
        let x := s2n fl (canon_for fl it s) in
        existsb (fun n => cmp_num op (s2n fl (string_value fl t n)) x) l
    end
  else cmp_set_str_eq fl t op l s.

Definition cmp_values (fl : flags) (t : list xnode) (op : cmpop) (a b : value) : bool :=
  match a, b with
  | VSet l1, VSet l2 =>
      existsb (fun i1 => cmp_set_str fl t (flip_op op) l2 (string_value fl t i1)) l1
  | VSet l, VNum x => existsb (fun it => cmp_num op (s2n fl (string_value fl t it)) x) l
  | VNum x, VSet l => existsb (fun it => cmp_num op x (s2n fl (string_value fl t it))) l
  | VSet l, VStr s => cmp_set_str fl t op l s
  | VStr s, VSet l => cmp_set_str fl t (flip_op op) l s
  | VSet l, VBool bb => cmp_atomic fl t op (VBool (to_bool a)) (VBool bb)
  | VBool bb, VSet l => cmp_atomic fl t op (VBool bb) (VBool (to_bool b))
  | _, _ => cmp_atomic fl t op a b
  end.

Definition arith (fl : flags) (op : arop) (a b : xnum) : xnum :=
  match op with
  | AAdd => x_add (f_prec fl) a b
  | ASub => x_sub (f_prec fl) a b
  | AMul => x_mul (f_prec fl) a b
  | ADiv => x_div (f_prec fl) a b
  | AMod => x_mod a b
  end.

(* ------------------------------------------------------------------------------------------------ *)
(* evaluation context                                                                               *)
(* ------------------------------------------------------------------------------------------------ *)
Record ectx : Type := {
  c_item : item;          (* context node *)
  c_pos : N;              (* context position *)
  c_size : N;             (* context size *)
  c_cur : item            (* current() : the initial context node *)
}.

(* predicate truth: a number is compared with the context position *)
Definition pred_true (v : value) (pos : N) : bool :=
  match v with
  | VNum x => x_eq x (x_of_Z (Z.of_N pos))
  | _ => to_bool v
  end.

Fixpoint filter_idx (f : item -> N -> res bool) (l : list item) (i : N) : res (list item) :=
  match l with
  | [] => Ok []
  | it :: r =>
      bind (f it i) (fun b => bind (filter_idx f r (i + 1)) (fun r' => Ok (if b then it :: r' else r')))
  end.

Fixpoint fold_res {A B} (f : A -> B -> res A) (l : list B) (a : A) : res A :=
  match l with
  | [] => Ok a
  | b :: r => bind (f a b) (fun a' => fold_res f r a')
  end.

(* does the expression use the namespace axis anywhere (as coded: rejected when the expression is parsed) *)
Fixpoint uses_ns (e : expr) : bool :=
  match e with
  | ERoot | ECtx | ELit _ | ENum _ | EFun0 _ => false
  | EStep base _ ax _ ps => uses_ns base || match ax with AxNamespace => true | _ => false end || uses_ns_p ps
  | EFilter e' ps => uses_ns e' || uses_ns_p ps
  | EOr a b | EAnd a b | ECmp _ a b | EArith _ a b | EUnion a b | EFun2 _ a b => uses_ns a || uses_ns b
  | ENeg a | EFun1 _ a => uses_ns a
  | EFun3 _ a b c => uses_ns a || uses_ns b || uses_ns c
  end
with uses_ns_p (ps : preds) : bool :=
  match ps with
  | PNil => false
  | PCons p r => uses_ns p || uses_ns_p r
  end.

Section Eval.
  Variable fl : flags.
  Variable t : list xnode.

  Definition num_of (v : value) : xnum := to_num fl t v.
  Definition str_of (v : value) : bytes := to_str fl t v.

  (* first node of a node-set argument (or of the context) for local-name() / name() *)
  Definition name_of (local : bool) (l : list item) : bytes :=
    match l with
    | IElem n :: _ => if local then ni_name (x_info n) else ni_mod (x_info n) ++ 58 :: ni_name (x_info n)
    | _ => []
    end.

  Definition fun1 (f : fn) (v : value) : res value :=
    match f with
    | FCount => match v with VSet l => Ok (VNum (x_of_Z (Z.of_nat (length l)))) | _ => Err E_TYPE end
    | FLocalName => match v with VSet l => Ok (VStr (name_of true l)) | _ => Err E_TYPE end
    | FName => match v with VSet l => Ok (VStr (name_of false l)) | _ => Err E_TYPE end
    | FString => Ok (VStr (str_of v))
    | FStrLen => Ok (VNum (x_of_Z (Z.of_nat (if f_bytes fl then impl_string_length (str_of v)
                                               else spec_string_length (str_of v)))))
    | FNormSpace => Ok (VStr (normalize_space (str_of v)))
    | FBoolean => Ok (VBool (to_bool v))
    | FNot => Ok (VBool (negb (to_bool v)))
    | FNumber => Ok (VNum (num_of v))
    | FSum => match v with
              | VSet l => Ok (VNum (fold_left (fun acc it => x_add (f_prec fl) acc (s2n fl (string_value fl t it))) l x_zero))
              | _ => Err E_TYPE
              end
    | FFloor => Ok (VNum (spec_floor (num_of v)))
    | FCeiling => Ok (VNum (spec_ceiling (num_of v)))
    | FRound => Ok (VNum (spec_round (f_prec fl) (num_of v)))
    | _ => Err E_TYPE
    end.

  Definition fun2 (f : fn) (a b : value) : res value :=
    match f with
    | FConcat => Ok (VStr (str_of a ++ str_of b))
    | FStartsWith => Ok (VBool (starts_with (str_of b) (str_of a)))
    | FContains => Ok (VBool (str_contains (str_of a) (str_of b)))
    | FSubBefore => Ok (VStr (match split_at_sub (str_of a) (str_of b) with Some (x, _) => x | None => [] end))
    | FSubAfter => Ok (VStr (match split_at_sub (str_of a) (str_of b) with Some (_, y) => y | None => [] end))
    | FSubstring => Ok (VStr (substring (f_prec fl) (f_bytes fl) (str_of a) (num_of b) None))
    | _ => Err E_TYPE
    end.

  Definition fun3 (f : fn) (a b c : value) : res value :=
    match f with
    | FSubstring => Ok (VStr (substring (f_prec fl) (f_bytes fl) (str_of a) (num_of b) (Some (num_of c))))
    | FTranslate => Ok (VStr (translate (f_bytes fl) (str_of a) (str_of b) (str_of c)))
    | _ => Err E_TYPE
    end.

  (* the union over the context items of S of the selected items *)
  Definition step_union (ax : axis) (nt : ntest) (S : list item) : list item :=
    filter (fun m => existsb (fun c => axis_rel fl ax c m && node_test fl nt c m) S) (all_items t).

  (* one step 'base/axis::test[preds]' (or 'base//...') from the context set S0.
     [ap rv l] applies the predicates of the step to the candidate list l (eval's apply_preds), positions counted in
     reverse document order when rv. *)
  Definition step_body (S0 : list item) (ds : bool) (ax : axis) (nt : ntest)
             (ap : bool -> list item -> res (list item)) : res value :=
    if is_ns_axis ax then (if f_nsaxis fl then Err E_TYPE else Ok (VSet []))
    else if is_attr_axis ax then Ok (VSet [])         (* no metadata in the modelled trees *)
    else
      (* '//' = /descendant-or-self::node()/ *)
      let S := if ds then step_union AxDescendantOrSelf TNode S0 else S0 in
      if f_text fl && match nt with TText => true | _ => false end then
        (* xpath_pi_text(): on the child axis the term nodes of the context set become their text nodes *)
        bind (ap false (if is_child_axis ax then flat_map text_of_item S else [])) (fun l => Ok (VSet l))
      else if f_predglobal fl then
        (* as coded: the predicates filter the merged result of the step *)
        bind (ap (reverse_axis ax) (step_union ax nt S)) (fun l => Ok (VSet l))
      else
        (* XPath 1.0 section 2.1: for each context node the axis and node test give the candidates, the predicates
           filter them with positions along the axis; the step selects the union *)
        bind (fold_res (fun acc c =>
                          bind (ap (reverse_axis ax) (cands fl t ax nt c))
                               (fun l => Ok (merge_items acc l))) S [])
             (fun l => Ok (VSet l)).

  Fixpoint eval (cx : ectx) (e : expr) {struct e} : res value :=
    match e with
    | ERoot => Ok (VSet [IRoot])
    | ECtx => Ok (VSet [c_item cx])
    | EStep base ds ax nt ps =>
        bind (eval cx base) (fun bv =>
        match bv with
        | VSet S0 => step_body S0 ds ax nt (fun rv l => apply_preds cx rv ps l)
        | _ => Err E_TYPE          (* a step applied to something that is not a node-set *)
        end)
    | EFilter e' ps =>
        bind (eval cx e') (fun v =>
        match v with
        | VSet l => bind (apply_preds cx false ps l) (fun l' => Ok (VSet l'))
        | _ => Err E_TYPE
        end)
    | EOr a b =>
        bind (eval cx a) (fun va => if to_bool va then Ok (VBool true)
                                    else bind (eval cx b) (fun vb => Ok (VBool (to_bool vb))))
    | EAnd a b =>
        bind (eval cx a) (fun va => if to_bool va then bind (eval cx b) (fun vb => Ok (VBool (to_bool vb)))
                                    else Ok (VBool false))
    | ECmp op a b =>
        bind (eval cx a) (fun va => bind (eval cx b) (fun vb => Ok (VBool (cmp_values fl t op va vb))))
    | EArith op a b =>
        bind (eval cx a) (fun va => bind (eval cx b) (fun vb => Ok (VNum (arith fl op (num_of va) (num_of vb)))))
    | ENeg a => bind (eval cx a) (fun va => Ok (VNum (x_neg (num_of va))))
    | EUnion a b =>
        bind (eval cx a) (fun va => bind (eval cx b) (fun vb =>
          match va, vb with
          | VSet l1, VSet l2 => Ok (VSet (merge_items l1 l2))
          | _, _ => Err E_TYPE
          end))
    | ELit s => Ok (VStr s)
    | ENum s => Ok (VNum (match parse_mantissa s with
                          | Some (q, []) => XFin false (rnd (f_prec fl) q)
                          | _ => XNaN
                          end))
    | EFun0 f =>
        match f with
        | FLast => Ok (VNum (x_of_Z (Z.of_N (c_size cx))))
        | FPosition => Ok (VNum (x_of_Z (Z.of_N (c_pos cx))))
        | FTrue => Ok (VBool true)
        | FFalse => Ok (VBool false)
        | FCurrent => Ok (VSet [c_cur cx])
        | FString | FNumber | FStrLen | FNormSpace | FLocalName | FName => fun1 f (VSet [c_item cx])
        | _ => Err E_TYPE
        end
    | EFun1 f a => bind (eval cx a) (fun va => fun1 f va)
    | EFun2 f a b => bind (eval cx a) (fun va => bind (eval cx b) (fun vb => fun2 f va vb))
    | EFun3 f a b c =>
        bind (eval cx a) (fun va => bind (eval cx b) (fun vb => bind (eval cx c) (fun vc => fun3 f va vb vc)))
    end
  (* Predicate*: each predicate filters the list; positions count in document order, or in reverse document order
     on a reverse axis (XPath 1.0 section 2.4); the context of the predicate expression is the node with its
     position and the size of the list, also inside function arguments and operands *)
  with apply_preds (cx : ectx) (rv : bool) (ps : preds) (l : list item) {struct ps} : res (list item) :=
    match ps with
    | PNil => Ok l
    | PCons p r =>
        let n := N.of_nat (length l) in
        bind (filter_idx (fun it i =>
                let pos := if rv then n + 1 - i else i in
                bind (eval {| c_item := it; c_pos := pos; c_size := n; c_cur := c_cur cx |} p)
                     (fun v => Ok (pred_true v pos))) l 1)
             (fun l' => apply_preds cx rv r l')
    end.

  (* the context of a top-level evaluation with context item c *)
  Definition top_ctx (c : item) : ectx := {| c_item := c; c_pos := 1; c_size := 1; c_cur := c |}.
  Definition eval_top (c : item) (e : expr) : res value :=
    if f_nsaxis fl && uses_ns e then Err E_TYPE else eval (top_ctx c) e.
End Eval.
