(* XPathTree.v — slice xpath (C08): the data tree an XPath expression is evaluated on.

   A data tree is a forest (the top-level siblings) of rose trees; the XPath document is that forest under one root
   node. Every element node carries what XPath can observe: module name, local name, for leaves and leaf-list
   instances the canonical string value, the default flag, and (only for the as-coded parts: canonization and key
   lookups) the value type and the key names of a list.

   The evaluator works on the flat form: the nodes in document order (pre-order), each with its index, the index of
   its parent, the index of its last descendant and its depth ([index_tree]); [flatten] turns the rose forest
   into the list of (depth, info) pairs that [index_tree] consumes.  XPath items are the root, element nodes and
   the text node of a leaf; their document order is the order of [item_key]. *)
From LY Require Import Base XPathConv.
From Coq Require Import ZifyBool ZifyNat ZifyN.
Local Open Scope N_scope.

Inductive nkind : Type := KCont | KList | KLeaf | KLeafList.

Record ninfo : Type := {
  ni_kind : nkind;
  ni_mod : bytes;           (* module name *)
  ni_name : bytes;          (* local name *)
  ni_val : bytes;           (* canonical value of a term node, [] otherwise *)
  ni_dflt : bool;
  ni_type : ltype;          (* value type of a term node (as-coded canonization only) *)
  ni_keys : list bytes      (* key leaf names of a list, in schema order (as-coded fast path only) *)
}.

Inductive rtree : Type := RNode (i : ninfo) (ch : list rtree).

(* pre-order list of (depth, info) *)
Fixpoint flatten (d : N) (t : rtree) : list (N * ninfo) :=
  match t with
  | RNode i ch =>
      (d, i) :: (fix go (l : list rtree) : list (N * ninfo) :=
                   match l with
                   | [] => []
                   | c :: r => flatten (d + 1) c ++ go r
                   end) ch
  end.

Definition flatten_forest (f : list rtree) : list (N * ninfo) := flat_map (flatten 0) f.

Record xnode : Type := {
  x_id : N;                 (* index in document order, from 0 *)
  x_parent : option N;      (* None: top-level node (child of the root) *)
  x_pmod : option bytes;    (* module of the parent node, None for a top-level node *)
  x_last : N;               (* index of the last descendant (x_id when there is none) *)
  x_depth : N;
  x_prev : bool;            (* has a preceding sibling *)
  x_next : bool;            (* has a following sibling *)
  x_info : ninfo
}.

(* nearest node before with a smaller depth; [before] is the reversed prefix as (id, depth) *)
Fixpoint find_parent (before : list (N * N)) (d : N) : option N :=
  match before with
  | [] => None
  | (i, di) :: r => if di <? d then Some i else find_parent r d
  end.

(* module of the nearest node before with a smaller depth; [before] as (depth, module) *)
Fixpoint find_parent_mod (before : list (N * bytes)) (d : N) : option bytes :=
  match before with
  | [] => None
  | (di, m) :: r => if di <? d then Some m else find_parent_mod r d
  end.

(* is there a node of depth d before any node of smaller depth? *)
Fixpoint has_sibling_in (l : list (N * N)) (d : N) : bool :=
  match l with
  | [] => false
  | (_, di) :: r => if di =? d then true else if di <? d then false else has_sibling_in r d
  end.

Fixpoint count_deeper (after : list (N * ninfo)) (d : N) : N :=
  match after with
  | [] => 0
  | (di, _) :: r => if d <? di then 1 + count_deeper r d else 0
  end.

Fixpoint index_aux (l : list (N * ninfo)) (i : N) (before : list (N * N)) (bmods : list (N * bytes)) : list xnode :=
  match l with
  | [] => []
  | (d, info) :: r =>
      {| x_id := i; x_parent := find_parent before d; x_pmod := find_parent_mod bmods d;
         x_last := i + count_deeper r d; x_depth := d;
         x_prev := has_sibling_in before d;
         x_next := has_sibling_in (map (fun p : N * ninfo => (0, fst p)) r) d;
         x_info := info |} :: index_aux r (i + 1) ((i, d) :: before) ((d, ni_mod info) :: bmods)
  end.

Definition index_tree (l : list (N * ninfo)) : list xnode := index_aux l 0 [] [].
Definition tree_of_forest (f : list rtree) : list xnode := index_tree (flatten_forest f).

(* ------------------------------------------------------------------------------------------------ *)
(* XPath items                                                                                      *)
(* ------------------------------------------------------------------------------------------------ *)
Inductive item : Type :=
| IRoot
| IElem (n : xnode)
| IText (n : xnode).       (* the text node of term node n *)

Definition item_key (it : item) : N :=
  match it with
  | IRoot => 0
  | IElem n => 2 * x_id n + 1
  | IText n => 2 * x_id n + 2
  end.

Definition item_eqb (a b : item) : bool := item_key a =? item_key b.

Definition is_term (n : xnode) : bool :=
  match ni_kind (x_info n) with KLeaf | KLeafList => true | _ => false end.

(* XML view: a leaf with a non-empty value has one text child *)
Definition has_text (n : xnode) : bool :=
  is_term n && match ni_val (x_info n) with [] => false | _ => true end.

Definition node_items (n : xnode) : list item :=
  if has_text n then [IElem n; IText n] else [IElem n].

(* every item of the document, in document order *)
Definition all_items (t : list xnode) : list item := IRoot :: flat_map node_items t.

(* well-formed: ids are the positions *)
Fixpoint ids_from (t : list xnode) (i : N) : Prop :=
  match t with
  | [] => True
  | n :: r => x_id n = i /\ ids_from r (i + 1)
  end.
Definition wf_tree (t : list xnode) : Prop := ids_from t 0.

Fixpoint ids_fromb (t : list xnode) (i : N) : bool :=
  match t with
  | [] => true
  | n :: r => (x_id n =? i) && ids_fromb r (i + 1)
  end.

(* strictly increasing keys *)
Fixpoint sorted_from (k : N) (l : list item) : bool :=
  match l with
  | [] => true
  | it :: r => (k <? item_key it) && sorted_from (item_key it) r
  end.
Definition sorted_items (l : list item) : bool :=
  match l with
  | [] => true
  | it :: r => sorted_from (item_key it) r
  end.
