(* Properties_C10_ytext.v — property C10 (printed schemas re-parse to the same module), string arguments:
   what ypr_text()/ypr_encode() of printer_yang.c print, read_qstring() of parser_yang.c reads back.
   Only statements here; each is closed by [exact] of a lemma of YangTextP.v. *)
From LY Require Import Base Utf8 YangText YangTextP.
Local Open Scope N_scope.

(* For every argument string s made of characters the lexer accepts, every statement name, every
   indentation level (and LY_PRINT_SHRINK), both layouts (single_line: the text starts after the name;
   otherwise on a line of its own, as for description, reference, contact, organization, error-message)
   and both quote kinds: lexing the printed text, followed by any byte c that is not + or white space
   (the printer puts ; or { there), at the column where the printer put the opening quote, returns
   exactly s and stops at c. The hypothesis rt_hyp is forced (see the refuted statements below):
     double quotes: s has no carriage return;
     single quotes: s has no newline.
   Since the printer escapes a newline next to blanks that would be stripped (commit f628c31), blanks
   before a newline and - single-line layout - blanks after a newline need no hypothesis any more. Tabs
   (always printed as backslash t), either quote character, backslashes, empty lines, blanks anywhere,
   lines of any length and any multi-byte characters are covered. *)
Theorem C10_yang_text_roundtrip :
  forall shrink level name s single_line single_quoted c rest,
    no_byte 10 name = true -> ylexable s = true -> is_term c = true ->
    rt_hyp single_quoted s = true ->
    print_then_lex shrink level name s single_line single_quoted (c :: rest) = Ok (s, c :: rest).
Proof. exact text_roundtrip. Qed.
Print Assumptions C10_yang_text_roundtrip.

(* The double-quoted case spelled out (every statement argument the schema printers print, except the
   single-quoted arguments kept from the source): the only hypothesis on s beyond being lexable is the
   absence of a carriage return, in both layouts. *)
Theorem C10_yang_text_roundtrip_dquoted :
  forall shrink level name s single_line c rest,
    no_byte 10 name = true -> ylexable s = true -> is_term c = true -> no_byte 13 s = true ->
    print_then_lex shrink level name s single_line false (c :: rest) = Ok (s, c :: rest).
Proof. exact text_roundtrip_dq. Qed.
Print Assumptions C10_yang_text_roundtrip_dquoted.

(* ylexable holds for the RFC 3629 encoding of every sequence of yang-char of RFC 7950 section 14: these are exactly
   the characters that ly_getutf8() and is_yangutf8char() accept (C10_yang_char_spec; since /repo commits f25b870
   and d2cc93f). *)
Theorem C10_yang_text_roundtrip_unicode :
  forall shrink level name cps single_line single_quoted c rest,
    let s := flat_map utf8_encode cps in
    no_byte 10 name = true -> forallb is_yang_char cps = true -> is_term c = true ->
    rt_hyp single_quoted s = true ->
    print_then_lex shrink level name s single_line single_quoted (c :: rest) = Ok (s, c :: rest).
Proof.
  exact (fun shrink level name cps sl sq c rest Hn Hc Ht Hh =>
           text_roundtrip shrink level name _ sl sq c rest Hn (ylexable_encoded cps (forallb_lexer_accepts cps Hc)) Ht Hh).
Qed.
Print Assumptions C10_yang_text_roundtrip_unicode.

(* The same for an argument printed by ypr_encode() between double quotes on one line (arguments of
   extension instances): only carriage returns are excluded. *)
Theorem C10_yang_encode_roundtrip :
  forall col s c rest,
    ylexable s = true -> is_term c = true -> no_byte 13 s = true ->
    lex_qstring col ([34] ++ ypr_encode s ++ [34] ++ c :: rest) = Ok (s, c :: rest).
Proof. exact encode_roundtrip. Qed.
Print Assumptions C10_yang_encode_roundtrip.

(* print (lex (print s)) = print s. Partial: only under rt_hyp (no carriage return in a double-quoted
   text, no newline in a single-quoted one); without it the statement is false
   (C10_yang_text_print_fixpoint_cr_refuted). *)
Theorem C10_yang_text_print_fixpoint_partial :
  forall shrink level name s single_line single_quoted c rest s' rest',
    no_byte 10 name = true -> ylexable s = true -> is_term c = true ->
    rt_hyp single_quoted s = true ->
    print_then_lex shrink level name s single_line single_quoted (c :: rest) = Ok (s', rest') ->
    ypr_text shrink level name s' single_line single_quoted = ypr_text shrink level name s single_line single_quoted.
Proof. exact print_fixpoint. Qed.
Print Assumptions C10_yang_text_print_fixpoint_partial.

(* The strings of the two repaired defects, with what is printed now (92 110 = backslash n):
   a blank before a newline in the multi-line layout - the newline is escaped, also when the blanks are
   followed by an empty line or end the text - and read back unchanged ... *)
Theorem C10_yang_text_roundtrip_trailing_ws_fixed :
  let s := [97; 32; 10; 32; 98] in
  snd (ypr_text_parts false 1 nm_description s false false) = [34; 97; 32; 92; 110; 32; 98; 34] /\
  print_then_lex false 1 nm_description s false false [59] = Ok (s, [59]) /\
  snd (ypr_text_parts false 1 nm_description [97; 32; 32; 10; 10; 32; 10; 98; 32] false false) =
    [34; 97; 32; 32; 92; 110; 10; 32; 32; 32; 32; 32; 32; 92; 110; 98; 32; 34].
Proof.
  destruct trailing_ws_fixed as (H1 & H2 & H3). cbv zeta. rewrite H1, H3. auto.
Qed.
Print Assumptions C10_yang_text_roundtrip_trailing_ws_fixed.

(* ... and blanks at the start of a continuation line in the single-line layout (units, default, presence,
   must, when, ...): that newline is escaped, the next one (no blank after it) is a real line break; the
   multi-line layout prints both as line breaks and indents to the column of the text. *)
Theorem C10_yang_text_roundtrip_singleline_indent_fixed :
  let s := [97; 10; 32; 32; 98; 10; 99] in
  snd (ypr_text_parts false 1 nm_units s true false) = [34; 97; 92; 110; 32; 32; 98; 10; 32; 32; 32; 99; 34] /\
  print_then_lex false 1 nm_units s true false [59] = Ok (s, [59]) /\
  snd (ypr_text_parts false 1 nm_description s false false) =
    [34; 97; 10; 32; 32; 32; 32; 32; 32; 32; 98; 10; 32; 32; 32; 32; 32; 99; 34] /\
  print_then_lex false 1 nm_description s false false [59] = Ok (s, [59]).
Proof.
  destruct singleline_indent_fixed as (H1 & H2 & H3 & H4). cbv zeta. rewrite H1, H3. auto.
Qed.
Print Assumptions C10_yang_text_roundtrip_singleline_indent_fixed.

(* A carriage return before a newline is dropped; anywhere else the printed text is rejected. *)
Theorem C10_yang_text_roundtrip_cr_refuted :
  (exists s s', s' <> s /\ ylexable s = true /\
     print_then_lex false 1 nm_description s false false [59] = Ok (s', [59])) /\
  (exists s, ylexable s = true /\ print_then_lex false 1 nm_description s false false [59] = Err E_CR).
Proof.
  destruct cr_witness as (H1 & _ & H4 & H5 & H6). split.
  - exists [97; 13; 10; 98], [97; 10; 98]. split; [discriminate|]. auto.
  - exists [97; 13; 98]. auto.
Qed.
Print Assumptions C10_yang_text_roundtrip_cr_refuted.

(* ... and then the second print differs from the first: print is not a fixpoint without the hypothesis. *)
Theorem C10_yang_text_print_fixpoint_cr_refuted :
  exists s s', print_then_lex false 1 nm_description s false false [59] = Ok (s', [59]) /\
    ypr_text false 1 nm_description s' false false <> ypr_text false 1 nm_description s false false.
Proof. exists [97; 13; 10; 98]. exact fixpoint_cr_witness. Qed.
Print Assumptions C10_yang_text_print_fixpoint_cr_refuted.

(* Single-quoted text holding a newline: the indentation printed on the next line becomes content. *)
Theorem C10_yang_text_roundtrip_squote_newline_refuted :
  exists s s', s' <> s /\ ylexable s = true /\
    print_then_lex false 1 nm_default s true true [59] = Ok (s', [59]).
Proof.
  exists [97; 10; 98], [97; 10; 32; 32; 32; 98]. split; [discriminate|].
  destruct squote_newline_witness as (H1 & _ & H3). auto.
Qed.
Print Assumptions C10_yang_text_roundtrip_squote_newline_refuted.

(* The lexer's character test is the RFC 7950 yang-char rule. (Until /repo commit f25b870 it rejected plane 4,
   U+40000..U+4FFFD; C10_yang_char_plane4_regression keeps the former witnesses.) *)
Theorem C10_yang_char_spec :
  forall c, c < 1114112 -> is_yangutf8char c = is_yang_char c.
Proof.
  exact (fun c Hc => proj1 (Bool.eqb_true_iff _ _) (N_all_below_spec _ _ yangutf8char_spec c Hc)).
Qed.
Print Assumptions C10_yang_char_spec.

Theorem C10_yang_char_plane4_regression :
  is_yang_char 262144 = true /\ is_yangutf8char 262144 = true /\ is_yangutf8char 327677 = true /\
  ylexable (utf8_encode 262144) = true /\ ylexable (utf8_encode 324989) = true /\ is_yangutf8char 327678 = false.
Proof. exact plane4_witness. Qed.
Print Assumptions C10_yang_char_plane4_regression.

(* The hypotheses are satisfiable by a non-trivial text (both quote kinds, backslash, tabs, empty lines,
   leading blanks, blanks before a newline, final blanks, 2-, 3-, 4-byte characters), at two indentation
   settings and in the single-line layout, and for a single-quoted text with quotes, a backslash, a tab and
   a carriage return. *)
Example C10_yang_text_example :
  ylexable example_text = true /\ rt_hyp false example_text = true /\
  print_then_lex false 3 nm_description example_text false false [59] = Ok (example_text, [59]) /\
  print_then_lex true 0 nm_description example_text false false [32; 123] = Ok (example_text, [123]) /\
  print_then_lex false 3 nm_units example_text true false [59] = Ok (example_text, [59]) /\
  (let s := [73; 116; 39; 115; 32; 39; 39; 34; 92; 9; 13] in
   rt_hyp true s = true /\ print_then_lex false 2 nm_default s true true [59] = Ok (s, [59])).
Proof. exact example_ok. Qed.
