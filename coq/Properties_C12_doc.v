(* Properties_C12_doc.v -- property C12 (printed XML / JSON are standard-conformant and mean the same to any parser),
   document level on the Tree subset: theorem statements only.

   [std_xml_content] is a reader written from XML 1.0 (Fifth Edition) and Namespaces in XML 1.0 for the subset of the
   grammar without prolog, comments, processing instructions, CDATA sections and DTD: elements [39]-[44], attributes
   [41] with both quote characters and optional white space, character data and attribute values through the readers of
   StdText.v (references, Char check, line ends 2.11, attribute-value normalisation 3.3.3), well-formedness constraints
   Element Type Match and Unique Att Spec, namespace constraints Prefix Declared, no prefix bound to the empty name, the
   prefix xmlns not declared, Attributes Unique (expanded names). It shares nothing with the libyang models; a document
   outside the subset is refused (None), so a result is the meaning every conformant parser reports.
   Result: character data at the top level (must be empty) and the generic element trees: namespace name, local name,
   attributes with their namespace names (declarations excluded), character data, children.
   [to_generic t f]: what the tree holds in those terms. *)
From LY Require Import Base Utf8 XmlText Tree TreeP StdText StdTextP XmlDoc XmlDocP.
Local Open Scope N_scope.

(* XML: what the printer writes for a forest is well-formed element content with correct namespaces, and it means
   exactly the forest: element structure and order, namespace of every element and metadata attribute, canonical values
   as character data. Values are the UTF-8 encodings of XML Chars ([V_std], the hypothesis of C12_xml_text_std). *)
Theorem C12_xml_doc_std :
  forall sch t f,
    tabs_okb sch t = true -> Canon sch f -> Forall (DocN sch t V_std) f ->
    std_xml_content (xml_print_all sch t f) = Some ([], to_generic t f).
Proof. exact xml_doc_std_proof. Qed.
Print Assumptions C12_xml_doc_std.

(* ... for any node selection: the selected part *)
Theorem C12_xml_doc_std_sel :
  forall sch t (sel : dnode -> bool) f,
    tabs_okb sch t = true -> Canon sch f -> Forall (DocN sch t V_std) f ->
    std_xml_content (xml_print sch t sel f) = Some ([], to_generic t (prune sel f)).
Proof. exact xml_doc_std_sel_proof. Qed.
Print Assumptions C12_xml_doc_std_sel.

(* one top-level node: a well-formed document (production [1]: exactly one root element) *)
Theorem C12_xml_doc_std_single :
  forall sch t n,
    tabs_okb sch t = true -> Canon sch [n] -> DocN sch t V_std n ->
    std_xml_document (xml_print_all sch t [n]) = Some (to_generic_node t n).
Proof. exact xml_doc_std_single_proof. Qed.
Print Assumptions C12_xml_doc_std_single.

(* several top-level nodes are NOT a document in the sense of production [1] (no single root): the property's wording
   holds for the printed siblings as element content only *)
Theorem C12_xml_doc_std_siblings_refuted :
  exists sch t f, tabs_okb sch t = true /\ canonb sch None f = true /\ forallb (docb sch t std_valb) f = true /\
                  std_xml_document (xml_print_all sch t f) = None.
Proof.
  exists [(0, mk_sinfo KLeaf None [] false true [] [] false 0 None OBytes); (1, mk_sinfo KLeaf None [] false true [] [] false 0 None OBytes)],
         (mk_doctabs [(0, (0, [97])); (1, (0, [98]))] [(0, mk_modinfo [109] [109] [117; 58; 109])]),
         [DN 0 [49] false [] []; DN 1 [50] false [] []].
  vm_compute. repeat split.
Qed.
Print Assumptions C12_xml_doc_std_siblings_refuted.

(* two modules with the same prefix (legal YANG: prefixes need not be unique across modules) that both contribute
   metadata to one node: [tabs_okb] does not exclude it (it did before 91f0178, when xml_print_meta() declared the prefix
   twice in one start tag - former finding xml-meta-prefix-clash, former theorem C12_xml_doc_prefix_clash_refuted). The
   second module gets a numbered prefix; regression case on the former witness:
   <l xmlns="urn:a" xmlns:p="urn:a" p:x="1" xmlns:p1="urn:b" p1:y="2">v</l> *)
Example C12_xml_doc_prefix_clash_regression :
  let sch := [(0, mk_sinfo KLeaf None [] false true [] [] false 0 None OBytes)] in
  let t := mk_doctabs [(0, (0, [108]))]
                      [(0, mk_modinfo [109; 97] [112] [117; 114; 110; 58; 97]); (1, mk_modinfo [109; 98] [112] [117; 114; 110; 58; 98])] in
  let f := [DN 0 [118] false [([109; 97; 58; 120], [49]); ([109; 98; 58; 121], [50])] []] in
  tabs_okb sch t = true /\ canonb sch None f = true /\ forallb (docb sch t std_valb) f = true /\
  std_xml_content (xml_print_all sch t f) = Some ([], to_generic t f) /\
  xml_parse sch t (xml_print_all sch t f) = Some f /\
  xml_print_all sch t f =
    [60; 108; 32; 120; 109; 108; 110; 115; 61; 34; 117; 114; 110; 58; 97; 34;
     32; 120; 109; 108; 110; 115; 58; 112; 61; 34; 117; 114; 110; 58; 97; 34; 32; 112; 58; 120; 61; 34; 49; 34;
     32; 120; 109; 108; 110; 115; 58; 112; 49; 61; 34; 117; 114; 110; 58; 98; 34; 32; 112; 49; 58; 121; 61; 34; 50; 34;
     62; 118; 60; 47; 108; 62].
Proof. vm_compute. repeat split. Qed.

(* The namespace law of the start tags, stated on the printer itself (what the oracle comps_doc.QNamesX checks on
   libyang's bytes with expat): [TagsOK t st n] (XmlDocP.v) says of the start tag xml_print_node() writes for n under the
   declarations st, and of the start tags of all its descendants: no prefix is defined twice in the tag; no prefix that is
   in the scope is defined again; the default namespace of the element is the namespace of the node's module; the prefix of
   every metadata attribute is bound, in the scope of the element, to the namespace of the module of its annotation. It
   holds for every node of a canonical forest from the empty scope - also when modules share a prefix (numbered prefixes).
   (For the bytes the same follows from C12_xml_doc_std: Unique Att Spec and Prefix Declared are checked by the standard
   reader, the namespaces of the attributes are part of its result.)
   NOT covered by THIS statement: prefixes INSIDE values - the Tree subset of XmlDoc.v holds canonical strings only, so the
   part of xml_print_term() / xml_print_meta() that defines namespaces for identityref / instance-identifier / xpath1.0
   values (e9b7253) is vacuous here. It is modelled separately, per start tag, in XmlQn.v: C12_xml_value_prefixes below. *)
Theorem C12_xml_doc_start_tags :
  forall sch t f,
    tabs_okb sch t = true -> Canon sch f -> Forall (DocN sch t V_std) f ->
    Forall (TagsOK t []) f.
Proof.
  intros sch t f Ht HC HD. pose proof (Canon_Placed sch f HC) as HP.
  rewrite Forall_forall in *. intros n Hn. apply (tags_ok sch t V_std Ht n None [] (HP n Hn) (HD n Hn) Inv_nil).
Qed.
Print Assumptions C12_xml_doc_start_tags.

(* The namespace law for PREFIXED VALUES (XmlQn.v): values of identityref / instance-identifier / xpath1.0 type are lists of
   pieces, literal bytes or references to a module, printed with the module's OWN prefix; [open_tag st ens metas v] is the
   namespace handling of one start tag as coded after e9b7253 (xml_print_node_open / xml_print_meta / xml_print_ns: the
   modules of the values of the tag reserved first, definitions for value modules with LYXML_PREFIX_REQUIRED, prefixes of
   attribute names avoiding reserved ones, definitions hidden by a nested one not reused) under the definitions [st] of
   the ancestors - ANY definitions, hidden ones included. Hypothesis [TagAgree]: the modules the values of THIS tag refer
   to do not need one prefix for two namespaces (true when module prefixes are pairwise distinct:
   XmlQn.distinct_prefixes_agree; the annotation modules and the ancestors' definitions may share prefixes freely).
   Then: no prefix is defined twice in the start tag; every module reference in the value of the node and in the values
   of its metadata resolves, in the scope of the element, to the namespace of the module it stands for; the prefix of every
   metadata attribute resolves to the namespace of its annotation's module. Without the hypothesis the law fails
   (XmlQn.qn_same_prefix_clash_refuted = listed finding xml-same-prefix-value-clash). Regression Examples in XmlQn.v for
   the shapes of the seeded changes C12-3 (qn_value_prefix_redefined) and C12-8 (qn_generated_prefix_avoids_reserved),
   for hidden definitions and for the former finding xml-value-ns-redeclared.
   Tie to the code: XmlQn.open_tag is extracted and compared byte for byte with the start tags libyang prints for generated
   elements (T2 component QnTagModel: namespace definitions, metadata attributes with prefixes and values; two nested
   tags per case, clash cases included); the oracle comps_doc.QNamesX checks the law itself on libyang's bytes with expat.
   XmlQn.v is a model of the start tag only: element names, character data and the byte level of the rest are XmlDoc.v's,
   whose values are canonical strings. *)
From LY Require Import XmlQn.

Theorem C12_xml_value_prefixes :
  forall st ens metas v attrs st',
    TagAgree metas v -> open_tag st ens metas v = (attrs, st') ->
    NoDup (sprefs (decls_of attrs)) /\
    (forall m, In (Ref m) v -> std_prefix_ns st' (qm_prefix m) = Some (qm_ns m)) /\
    (forall a m, In a metas -> In (Ref m) (qa_val a) -> std_prefix_ns st' (qm_prefix m) = Some (qm_ns m)) /\
    (forall q nm val, In (PMeta q nm val) attrs ->
       exists a, In a metas /\ nm = qa_name a /\ val = render_value (qa_val a) /\ std_prefix_ns st' q = Some (qm_ns (qa_mod a))).
Proof. exact open_tag_law. Qed.
Print Assumptions C12_xml_value_prefixes.

(* ... for a whole element tree: the definitions of a start tag are the scope of the descendants *)
Theorem C12_xml_value_prefixes_tree :
  forall e st, QAgree e -> QTagsOK st e.
Proof. exact qtags_ok. Qed.
Print Assumptions C12_xml_value_prefixes_tree.

Theorem C12_xml_value_prefixes_shared_refuted :
  exists st ens metas v, let '(attrs, st') := open_tag st ens metas v in
    ~ NoDup (sprefs (decls_of attrs)) /\ exists m, In (Ref m) v /\ std_prefix_ns st' (qm_prefix m) <> Some (qm_ns m).
Proof.
  exists [(None, ns_top)], ns_top, [], [Ref (mk_qmod b_p ns_a); Lit [47]; Ref (mk_qmod b_p ns_b)].
  vm_compute. split.
  - intro H. inversion H as [|? ? Hn _]; subst. apply Hn. left. reflexivity.
  - exists (mk_qmod b_p ns_a). split; [left; reflexivity|]. vm_compute. discriminate.
Qed.
Print Assumptions C12_xml_value_prefixes_shared_refuted.

(* the data hypothesis "distinct metadata keys on a node" cannot be dropped either: the same annotation twice on one
   node (the JSON parser accepts a repeated member, lyd_new_meta does not check) is printed as a repeated attribute *)
Theorem C12_xml_doc_dup_meta_refuted :
  exists sch t f, tabs_okb sch t = true /\ canonb sch None f = true /\
                  std_xml_content (xml_print_all sch t f) = None.
Proof.
  exists [(0, mk_sinfo KLeaf None [] false true [] [] false 0 None OBytes)],
         (mk_doctabs [(0, (0, [108]))] [(0, mk_modinfo [109; 97] [112] [117; 114; 110; 58; 97])]),
         [DN 0 [118] false [([109; 97; 58; 120], [49]); ([109; 97; 58; 120], [51])] []].
  vm_compute. repeat split.
Qed.
Print Assumptions C12_xml_doc_dup_meta_refuted.

(* the hypotheses as boolean checks *)
Theorem C12_xml_doc_std_checked :
  forall sch t (sel : dnode -> bool) f,
    tabs_okb sch t = true -> canonb sch None f = true -> forallb (docb sch t std_valb) f = true ->
    std_xml_content (xml_print sch t sel f) = Some ([], to_generic t (prune sel f)).
Proof.
  intros sch t sel f Ht HC HD. apply xml_doc_std_sel_proof; [exact Ht|apply canonb_spec, HC|].
  apply (docb_forest sch t std_valb V_std f std_valb_spec V_std_nil HD).
Qed.
Print Assumptions C12_xml_doc_std_checked.

(* non-vacuity (the forest of Properties_C01_doc: markup characters, CR, TAB / LF / quotes in metadata, a multi-byte
   character, two modules with different prefixes) *)
Definition ex_sch : schema :=
  [(0, mk_sinfo (KCont false) None [] false true [] [] false 0 None OBytes);
   (1, mk_sinfo KLeaf (Some 0) [] false true [[100]] [] false 0 None OBytes);
   (2, mk_sinfo KList (Some 0) [3] true true [] [] false 0 None OBytes);
   (3, mk_sinfo KLeaf (Some 2) [] false true [] [] false 0 None OBytes);
   (4, mk_sinfo KLeafList (Some 2) [] true true [] [] false 0 None OBytes);
   (5, mk_sinfo KLeaf None [] false true [[120]] [] false 0 None OBytes)].
Definition ex_tabs : doctabs :=
  mk_doctabs [(0, (0, [99])); (1, (0, [108; 102])); (2, (0, [108])); (3, (0, [107])); (4, (0, [108; 108])); (5, (0, [122]))]
             [(0, mk_modinfo [109; 49] [109; 49] [117; 114; 110; 58; 109; 49]);
              (1, mk_modinfo [109; 50] [112; 50] [117; 114; 110; 58; 109; 50])].
Definition ex_forest : forest :=
  [DN 0 [] false []
      [DN 1 [97; 38; 60; 62; 13; 98] false [] [];
       DN 2 [] false [([109; 49; 58; 110; 111; 116; 101], [34; 9; 10; 39]); ([109; 50; 58; 116], [])]
          [DN 3 [49] false [] []; DN 4 [] false [] []; DN 4 [195; 169; 32] false [([109; 50; 58; 116], [120])] []];
       DN 2 [] false [] [DN 3 [50] false [] []]];
   DN 5 [120] true [] []].

Example C12_xml_doc_std_example :
  tabs_okb ex_sch ex_tabs = true /\ canonb ex_sch None ex_forest = true /\
  forallb (docb ex_sch ex_tabs std_valb) ex_forest = true /\
  std_xml_content (xml_print_all ex_sch ex_tabs ex_forest) = Some ([], to_generic ex_tabs ex_forest).
Proof. vm_compute. repeat split. Qed.

(* ------------------------------------------------------------------------------------------- *)
(* JSON                                                                                          *)
(* ------------------------------------------------------------------------------------------- *)
From LY Require Import JsonText JsonDoc JsonDocP.

(* [std_json_value] is a reader written from RFC 8259: ws, the six structural characters, values false / null / true /
   object / array / number (the grammar of section 6) / string; a string token is cut at its closing quotation mark
   (a reverse solidus escapes the next character) and read by StdText.std_json_string (escapes, surrogate pairs, strict
   UTF-8). It shares nothing with the libyang models. [json_tree sch t jk f] is the RFC 7951 reading of the forest.

   JSON: what the transcription of printer_json.c (WITH its state: level, level_printed, open arrays, first_leaflist)
   writes for a forest is, for every node selection, valid RFC 8259 JSON and an independent reader recovers exactly the
   RFC 7951 value of the selected part of the forest: member structure and order, module qualifiers exactly where the module changes, int64 /
   uint64 / decimal64 / strings as strings, other integers and booleans as literals, empty as [null], metadata objects
   per RFC 7952, every string as the tree holds it. Data hypothesis: strings are valid UTF-8 without NUL ([utf8_nonul],
   the hypothesis of C12_json_string_std). *)
Theorem C12_json_doc_std :
  forall sch t jk f,
    tabs_okb sch t = true -> parents_ltb sch = true -> Canon sch f -> Forall (JDocN sch t jk utf8_nonul) f ->
    std_json_value (json_print_all sch t jk f) = Some (json_tree sch t jk f).
Proof. exact json_print_std_proof. Qed.
Print Assumptions C12_json_doc_std.

(* ... for any node selection (explicit, trim, ...): the selected part *)
Theorem C12_json_doc_std_sel :
  forall sch t jk (sel : dnode -> bool) f,
    tabs_okb sch t = true -> parents_ltb sch = true -> Canon sch f -> Forall (JDocN sch t jk utf8_nonul) f ->
    std_json_value (json_print sch t jk sel f) = Some (json_tree sch t jk (prune sel f)).
Proof. exact json_print_std_sel_proof. Qed.
Print Assumptions C12_json_doc_std_sel.

Theorem C12_json_doc_std_checked :
  forall sch t jk (sel : dnode -> bool) f,
    tabs_okb sch t = true -> parents_ltb sch = true -> canonb sch None f = true -> forallb (jdocb sch t jk nonulb) f = true ->
    std_json_value (json_print sch t jk sel f) = Some (json_tree sch t jk (prune sel f)).
Proof.
  intros sch t jk sel f Ht Hp HC HD. apply json_print_std_sel_proof; [exact Ht|exact Hp|apply canonb_spec, HC|].
  rewrite forallb_forall in HD. apply Forall_forall. intros x Hx. apply (jdocb_spec sch t jk nonulb utf8_nonul x nonulb_spec), HD, Hx.
Qed.
Print Assumptions C12_json_doc_std_checked.

(* the RFC 7951 rendering of ANY forest in canonical position is valid JSON meaning that forest *)
Theorem C12_json_rendering_std :
  forall sch t jk f,
    tabs_okb sch t = true -> Canon sch f -> Forall (JDocN sch t jk utf8_nonul) f ->
    std_json_value (json_doc sch t jk f) = Some (json_tree sch t jk f).
Proof. exact json_doc_std_proof. Qed.
Print Assumptions C12_json_rendering_std.

(* trim mode: regression case on the witness of the former theorem C12_json_trim_refuted (former finding
   json-trim-leaflist-meta, fixed by f592167): leaf-list ll (defaults -5, -7) with the instances -9 (carrying metadata)
   and -7, then a container; the selection drops the second instance (an explicit node with a default value). The
   printer writes  {"m1:ll":[-9],"@m1:ll":[{"m1:note":"N"}],"m1:c":{"x":"a"}}  (before the fix:
   {"m1:ll":[-9,"m1:c":{"x":"a"}} ). *)
Example C12_json_trim_regression :
  let sch := [(0, mk_sinfo KLeafList None [] true true [[45; 53]; [45; 55]] [] false 0 None OInt);
              (1, mk_sinfo (KCont false) None [] false true [] [] false 0 None OBytes);
              (2, mk_sinfo KLeaf (Some 1) [] false true [] [] false 0 None OBytes)] in
  let t := mk_doctabs [(0, (0, [108; 108])); (1, (0, [99])); (2, (0, [120]))] [(0, mk_modinfo [109; 49] [109; 49] [117; 114; 110; 58; 109; 49])] in
  let jk := [(0, JNum); (2, JStr)] in
  let sel := fun n => negb (beq_bytes (d_val n) [45; 55]) in
  let f := [DN 0 [45; 57] false [([109; 49; 58; 110; 111; 116; 101], [78])] []; DN 0 [45; 55] false [] [];
            DN 1 [] false [] [DN 2 [97] false [] []]] in
  tabs_okb sch t = true /\ parents_ltb sch = true /\ canonb sch None f = true /\ forallb (jdocb sch t jk nonulb) f = true /\
  std_json_value (json_print sch t jk sel f) = Some (json_tree sch t jk (prune sel f)) /\
  json_print sch t jk sel f = json_doc sch t jk (prune sel f) /\
  json_print sch t jk sel f =
    [123; 34; 109; 49; 58; 108; 108; 34; 58; 91; 45; 57; 93; 44; 34; 64; 109; 49; 58; 108; 108; 34; 58; 91; 123; 34; 109; 49; 58; 110; 111;
     116; 101; 34; 58; 34; 78; 34; 125; 93; 44; 34; 109; 49; 58; 99; 34; 58; 123; 34; 120; 34; 58; 34; 97; 34; 125; 125].
Proof. vm_compute. repeat split. Qed.

Definition exj_sch : schema :=
  [(0, mk_sinfo (KCont false) None [] false true [] [] false 0 None OBytes);
   (1, mk_sinfo KLeaf (Some 0) [] false true [] [] false 0 None OBytes);
   (2, mk_sinfo KList (Some 0) [3] true true [] [] false 0 None OInt);
   (3, mk_sinfo KLeaf (Some 2) [] false true [] [] false 0 None OInt);
   (4, mk_sinfo KLeafList (Some 2) [] true true [] [] false 0 None OBytes);
   (5, mk_sinfo KLeaf (Some 2) [] false true [] [] false 0 None OBool);
   (6, mk_sinfo KLeaf None [] false true [] [] false 0 None OBytes)].
Definition exj_tabs : doctabs :=
  mk_doctabs [(0, (0, [99])); (1, (0, [108; 102])); (2, (0, [108])); (3, (0, [107])); (4, (0, [108; 108])); (5, (0, [98])); (6, (0, [101]))]
             [(0, mk_modinfo [109; 49] [109; 49] [117; 114; 110; 58; 109; 49])].
Definition exj_kinds : list (sid * jkind) := [(1, JStr); (3, JNum); (4, JStr); (5, JBool); (6, JEmpty)].
Definition exj_forest : forest :=
  [DN 0 [] false []
      [DN 1 [97; 34; 92; 13; 9; 10; 1; 127; 98] false [([109; 49; 58; 110; 111; 116; 101], [120])] [];
       DN 2 [] false [([109; 49; 58; 110; 111; 116; 101], [34; 9])]
          [DN 3 [45; 49; 50] false [] []; DN 4 [] false [] []; DN 4 [195; 169] false [([109; 49; 58; 110; 111; 116; 101], [])] [];
           DN 5 [116; 114; 117; 101] false [] []];
       DN 2 [] false [] [DN 3 [55] false [] []]];
   DN 6 [] false [] []].

Example C12_json_doc_std_example :
  tabs_okb exj_sch exj_tabs = true /\ canonb exj_sch None exj_forest = true /\
  forallb (jdocb exj_sch exj_tabs exj_kinds nonulb) exj_forest = true /\ parents_ltb exj_sch = true /\
  json_print_all exj_sch exj_tabs exj_kinds exj_forest = json_doc exj_sch exj_tabs exj_kinds exj_forest /\
  std_json_value (json_print_all exj_sch exj_tabs exj_kinds exj_forest) = Some (json_tree exj_sch exj_tabs exj_kinds exj_forest).
Proof. vm_compute. repeat split. Qed.
