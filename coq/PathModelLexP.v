(* PathModelLexP.v -- proofs about PathModel.v, part 1: what lyd_path() prints is tokenized by the model of
   lyxp_expr_parse() into the expected tokens, and those are accepted by the model of ly_path_parse(). *)
From LY Require Import Base Utf8 PathQuote PathQuoteP PathModel.
From Coq Require Import ZifyBool ZifyNat ZifyN.
Local Open Scope N_scope.

(* ---------- decimal strings (N_to_dec / dec_to_N of Base.v) ---------- *)
Lemma pm_dec_acc_app l1 l2 a : dec_to_N_acc (l1 ++ l2) a = dec_to_N_acc l2 (dec_to_N_acc l1 a).
Proof. revert a; induction l1 as [|d l1 IH]; intro a; cbn [app dec_to_N_acc]; [reflexivity|apply IH]. Qed.

Lemma pm_digits_fuel_spec f : forall n acc,
  n <> 0 -> n < 2 ^ N.of_nat f ->
  exists c r, N_digits_fuel f n acc = (c :: r) ++ acc /\
              forallb is_digit (c :: r) = true /\ c <> 48 /\ dec_to_N (c :: r) = n.
Proof.
  induction f as [|f IH]; intros n acc Hn Hlt.
  - cbn in Hlt. lia.
  - cbn [N_digits_fuel].
    assert (Hd : is_digit (48 + n mod 10) = true).
    { unfold is_digit. pose proof (N.mod_upper_bound n 10). lia. }
    destruct (n / 10 =? 0) eqn:Hq.
    + exists (48 + n mod 10), []. repeat split.
      * cbn [forallb]. rewrite Hd. reflexivity.
      * pose proof (N.div_mod n 10). lia.
      * unfold dec_to_N. cbn [dec_to_N_acc]. pose proof (N.div_mod n 10). lia.
    + assert (Hq1 : n / 10 <> 0) by lia.
      assert (Hq2 : n / 10 < 2 ^ N.of_nat f).
      { apply N.div_lt_upper_bound; [lia|].
        rewrite Nat2N.inj_succ, N.pow_succ_r' in Hlt. lia. }
      destruct (IH (n / 10) ((48 + n mod 10) :: acc) Hq1 Hq2) as [c [r [Heq [Hdig [Hc Hval]]]]].
      exists c, (r ++ [48 + n mod 10]). repeat split.
      * rewrite Heq. cbn [app]. rewrite <- app_assoc. reflexivity.
      * change (c :: r ++ [48 + n mod 10]) with ((c :: r) ++ [48 + n mod 10]).
        rewrite forallb_app, Hdig. cbn [forallb]. rewrite Hd. reflexivity.
      * exact Hc.
      * change (c :: r ++ [48 + n mod 10]) with ((c :: r) ++ [48 + n mod 10]).
        unfold dec_to_N in *. rewrite pm_dec_acc_app, Hval. cbn [dec_to_N_acc].
        pose proof (N.div_mod n 10). lia.
Qed.

(* the decimal form of a positive number: digits, the first one not 0, and it reads back *)
Lemma pm_N_to_dec_pos n :
  n <> 0 ->
  exists c r, N_to_dec n = c :: r /\ forallb is_digit (c :: r) = true /\ c <> 48 /\ dec_to_N (c :: r) = n.
Proof.
  intro Hn. unfold N_to_dec.
  assert (Hlt : n < 2 ^ N.of_nat (S (N.to_nat (N.size n)))).
  { rewrite Nat2N.inj_succ, N2Nat.id, N.pow_succ_r'.
    pose proof (N.size_gt n). lia. }
  destruct (pm_digits_fuel_spec _ n [] Hn Hlt) as [c [r [Heq H]]].
  exists c, r. rewrite Heq, app_nil_r. split; [reflexivity|exact H].
Qed.

(* ---------- abstract segments: what one iteration of lyd_path() prints ---------- *)
Inductive apred := ANone | AKeys (l : list (bytes * bytes)) | ADot (v : bytes) | APos (n : N).
Record aseg := mk_aseg { a_pfx : option bytes; a_n : bytes; a_pred : apred }.

Definition render_pred (a : apred) : bytes :=
  match a with
  | ANone => []
  | AKeys l => flat_map (fun kv => list_pred (fst kv) (snd kv)) l
  | ADot v => leaflist_pred v
  | APos n => [91] ++ N_to_dec n ++ [93]
  end.
Definition render_seg (a : aseg) : bytes :=
  [47] ++ (match a_pfx a with Some m => m ++ [58] | None => [] end) ++ a_n a ++ render_pred (a_pred a).
Definition render (l : list aseg) : bytes := flat_map render_seg l.

Definition toks_keys (l : list (bytes * bytes)) : list tok :=
  flat_map (fun kv => [TB1; TName None (fst kv); TEq; TLit (snd kv); TB2]) l.
Definition toks_pred (a : apred) : list tok :=
  match a with
  | ANone => []
  | AKeys l => toks_keys l
  | ADot v => [TB1; TDot; TEq; TLit v; TB2]
  | APos n => [TB1; TNum (N_to_dec n) (N_to_dec n); TB2]
  end.
Definition toks_seg (a : aseg) : list tok := TPath :: TName (a_pfx a) (a_n a) :: toks_pred (a_pred a).
Definition toks (l : list aseg) : list tok := flat_map toks_seg l.

Definition apred_ok (a : apred) : Prop :=
  match a with
  | ANone => True
  | AKeys l => Forall (fun kv => name_ok (fst kv) = true /\ one_quote (snd kv) = true) l
  | ADot v => one_quote v = true
  | APos n => n <> 0
  end.
Definition aseg_ok (a : aseg) : Prop :=
  name_ok (a_n a) = true /\
  match a_pfx a with Some m => name_ok m = true | None => True end /\
  apred_ok (a_pred a).

(* ---------- character classes ---------- *)
Lemma name_start_facts c : is_name_start c = true ->
  c <> 40 /\ c <> 41 /\ c <> 91 /\ c <> 93 /\ c <> 46 /\ c <> 64 /\ c <> 44 /\ c <> 39 /\ c <> 34 /\ c <> 36 /\ c <> 47 /\
  c <> 33 /\ c <> 60 /\ c <> 62 /\ c <> 124 /\ c <> 43 /\ c <> 45 /\ c <> 61 /\ c <> 42 /\ c <> 58 /\ c < 128 /\
  is_digit c = false /\ is_xmlws c = false /\ is_name_byte c = true.
Proof.
  unfold is_name_start, is_digit, is_xmlws, is_name_byte, is_name_start, is_digit. intro H. repeat split; lia.
Qed.

Lemma name_start_eqbs c : is_name_start c = true ->
  (c =? 40) = false /\ (c =? 41) = false /\ (c =? 91) = false /\ (c =? 93) = false /\ (c =? 46) = false /\
  (c =? 64) = false /\ (c =? 44) = false /\ (c =? 39) = false /\ (c =? 34) = false /\ (c =? 36) = false /\
  (c =? 47) = false /\ (c =? 33) = false /\ (c =? 60) = false /\ (c =? 62) = false /\ (c =? 124) = false /\
  (c =? 43) = false /\ (c =? 45) = false /\ (c =? 61) = false /\ is_digit c = false.
Proof.
  unfold is_name_start, is_digit. intro H. repeat split; lia.
Qed.

Lemma digit_eqbs c : is_digit c = true ->
  (c =? 40) = false /\ (c =? 41) = false /\ (c =? 91) = false /\ (c =? 93) = false /\ (c =? 46) = false /\
  (c =? 64) = false /\ (c =? 44) = false /\ (c =? 39) = false /\ (c =? 34) = false.
Proof. unfold is_digit. intro H. repeat split; lia. Qed.

Ltac rw_false := repeat match goal with H : _ = false |- _ => rewrite H; clear H end.

Lemma digit_facts c : is_digit c = true ->
  c <> 40 /\ c <> 41 /\ c <> 91 /\ c <> 93 /\ c <> 46 /\ c <> 64 /\ c <> 44 /\ c <> 39 /\ c <> 34.
Proof. unfold is_digit. intro H. repeat split; lia. Qed.

Lemma name_ok_head n : name_ok n = true -> exists c n', n = c :: n' /\ is_name_start c = true.
Proof.
  destruct n as [|c n']; [discriminate|]. cbn [name_ok]. intro H. apply andb_true_iff in H.
  exists c, n'. split; [reflexivity|apply H].
Qed.

(* the byte after a name in a printed path: none, or one of / [ = *)
Definition term_ok (R : bytes) : Prop :=
  match R with [] => True | c :: _ => c = 47 \/ c = 91 \/ c = 61 end.

Lemma span_name_gen n : forall R acc,
  forallb is_name_byte n = true ->
  match R with [] => True | c :: _ => is_name_byte c = false end ->
  span_name (n ++ R) acc = (rev acc ++ n, R).
Proof.
  induction n as [|x n IH]; intros R acc Hn HR; cbn [app].
  - rewrite app_nil_r. destruct R as [|c R]; cbn [span_name]; [reflexivity|]. rewrite HR. reflexivity.
  - cbn [forallb] in Hn. apply andb_true_iff in Hn. destruct Hn as [H1 H2].
    cbn [span_name]. rewrite H1, IH by assumption. cbn [rev]. rewrite <- app_assoc. reflexivity.
Qed.

Lemma term_ok_not_name R : term_ok R -> match R with [] => True | c :: _ => is_name_byte c = false end.
Proof. destruct R as [|c R]; [auto|]. cbn. intros [-> | [-> | ->]]; reflexivity. Qed.

Lemma term_ok_ws R : term_ok R -> skip_ws R = R.
Proof. destruct R as [|c R]; [auto|]. cbn [term_ok skip_ws]. intros [-> | [-> | ->]]; reflexivity. Qed.

Lemma scan_ncname_ok n R : name_ok n = true -> term_ok R -> scan_ncname (n ++ R) = Ok (n, R).
Proof.
  intros Hn HR. destruct (name_ok_head n Hn) as (c & n' & -> & Hc).
  pose proof (name_start_facts c Hc) as F. decompose [and] F.
  unfold scan_ncname. cbn [app].
  replace (128 <=? c) with false by lia. rewrite Hc. cbn [negb].
  change (c :: n' ++ R) with ((c :: n') ++ R).
  rewrite (span_name_gen (c :: n') R []); [|apply name_ok_bytes; exact Hn|apply term_ok_not_name; exact HR].
  cbn [rev app]. destruct R as [|d R]; [reflexivity|].
  cbn [term_ok] in HR. replace (128 <=? d) with false by (destruct HR as [-> | [-> | ->]]; reflexivity). reflexivity.
Qed.

Lemma scan_name_or_star_ok n R : name_ok n = true -> term_ok R -> scan_name_or_star (n ++ R) = Ok (n, R).
Proof.
  intros Hn HR. destruct (name_ok_head n Hn) as (c & n' & E & Hc).
  pose proof (name_start_facts c Hc) as F. decompose [and] F.
  unfold scan_name_or_star. rewrite <- (scan_ncname_ok n R Hn HR). subst n. cbn [app].
  destruct c as [|p]; [reflexivity|].
  do 6 (destruct p as [p|p|]; try reflexivity). all: try reflexivity; try lia.
Qed.

(* ---------- one token ---------- *)
Lemma scan_nametest_plain n R :
  name_ok n = true -> term_ok R -> scan_nametest (n ++ R) = Ok (TName None n, R).
Proof.
  intros Hn HR. unfold scan_nametest. rewrite scan_name_or_star_ok by assumption.
  destruct R as [|c R]; [reflexivity|]. cbn [term_ok] in HR.
  destruct HR as [-> | [-> | ->]]; reflexivity.
Qed.

Lemma scan_nametest_pfx m n R :
  name_ok m = true -> name_ok n = true -> term_ok R ->
  scan_nametest (m ++ 58 :: n ++ R) = Ok (TName (Some m) n, R).
Proof.
  intros Hm Hn HR. unfold scan_nametest.
  assert (E1 : scan_name_or_star (m ++ 58 :: n ++ R) = Ok (m, 58 :: n ++ R)).
  { destruct (name_ok_head m Hm) as (c & m' & -> & Hc).
    pose proof (name_start_facts c Hc) as F. decompose [and] F.
    assert (Es : scan_name_or_star ((c :: m') ++ 58 :: n ++ R) = scan_ncname ((c :: m') ++ 58 :: n ++ R)).
    { unfold scan_name_or_star. cbn [app]. destruct c as [|p]; [reflexivity|].
      do 6 (destruct p as [p|p|]; try reflexivity). all: try reflexivity; try lia. }
    rewrite Es. unfold scan_ncname. cbn [app].
    replace (128 <=? c) with false by lia. rewrite Hc. cbn [negb].
    change (c :: m' ++ 58 :: n ++ R) with ((c :: m') ++ 58 :: n ++ R).
    rewrite (span_name_gen (c :: m') (58 :: n ++ R) []); [|apply name_ok_bytes; exact Hm|reflexivity].
    reflexivity. }
  rewrite E1.
  destruct (name_ok_head n Hn) as (c & n' & En & Hc).
  pose proof (name_start_facts c Hc) as F. decompose [and] F.
  assert (E2 : forall (A : Type) (a b : A), match n ++ R with 58 :: _ => a | _ => b end = b).
  { intros A a b. subst n. cbn [app]. destruct c as [|p]; [reflexivity|].
    do 6 (destruct p as [p|p|]; try reflexivity). all: try reflexivity; try lia. }
  rewrite E2. rewrite scan_name_or_star_ok by assumption. reflexivity.
Qed.

Definition name_bytes (pfx : option bytes) (n : bytes) : bytes :=
  match pfx with Some m => m ++ 58 :: n | None => n end.

Lemma scan_nametest_ok pfx n R :
  match pfx with Some m => name_ok m = true | None => True end -> name_ok n = true -> term_ok R ->
  scan_nametest (name_bytes pfx n ++ R) = Ok (TName pfx n, R).
Proof.
  destruct pfx as [m|]; intros Hm Hn HR; cbn [name_bytes].
  - rewrite <- app_assoc. cbn [app]. apply scan_nametest_pfx; assumption.
  - apply scan_nametest_plain; assumption.
Qed.

Lemma name_bytes_head pfx n R :
  match pfx with Some m => name_ok m = true | None => True end -> name_ok n = true ->
  exists c r, name_bytes pfx n ++ R = c :: r /\ is_name_start c = true.
Proof.
  destruct pfx as [m|]; intros Hm Hn; cbn [name_bytes].
  - destruct (name_ok_head m Hm) as (c & m' & -> & Hc). exists c, ((m' ++ 58 :: n) ++ R). split; [reflexivity|exact Hc].
  - destruct (name_ok_head n Hn) as (c & n' & -> & Hc). exists c, (n' ++ R). split; [reflexivity|exact Hc].
Qed.

(* NameTest where a name may stand *)
Lemma next_token_name prev pfx n R :
  name_pos_ok prev = true ->
  match pfx with Some m => name_ok m = true | None => True end -> name_ok n = true -> term_ok R ->
  next_token prev (name_bytes pfx n ++ R) = Ok (TName pfx n, R).
Proof.
  intros Hp Hm Hn HR.
  pose proof (scan_nametest_ok pfx n R Hm Hn HR) as Es.
  destruct (name_bytes_head pfx n R Hm Hn) as (c & r & E & Hc). rewrite E in *.
  pose proof (name_start_eqbs c Hc) as F. decompose [and] F. clear F.
  unfold next_token. rw_false. rewrite Hp.
  cbn [orb andb negb]. rewrite Es. rewrite term_ok_ws by exact HR. reflexivity.
Qed.

(* the path operator before a name *)
Lemma next_token_path prev c r : is_name_start c = true -> next_token prev (47 :: c :: r) = Ok (TPath, c :: r).
Proof.
  intro Hc. pose proof (name_start_facts c Hc) as F. decompose [and] F.
  unfold next_token. cbn [N.eqb Pos.eqb orb andb negb].
  destruct c as [|p]; [discriminate|].
  assert (E : forall (A : Type) (a b : A), match N.pos p :: r with 47 :: _ => a | _ => b end = b).
  { intros A a b. do 6 (destruct p as [p|p|]; try reflexivity). all: try reflexivity; try lia. }
  rewrite E. cbn [skip_ws]. replace (is_xmlws (N.pos p)) with false by (symmetry; assumption). reflexivity.
Qed.

Lemma next_token_b1 prev R :
  match R with c :: _ => is_xmlws c = false | [] => True end -> next_token prev (91 :: R) = Ok (TB1, R).
Proof.
  intro H. unfold next_token. cbn [N.eqb Pos.eqb orb andb negb].
  destruct R as [|c R]; [reflexivity|]. cbn [skip_ws]. rewrite H. reflexivity.
Qed.

Lemma next_token_b2 prev R : term_ok R -> next_token prev (93 :: R) = Ok (TB2, R).
Proof.
  intro H. unfold next_token. cbn [N.eqb Pos.eqb orb andb negb]. rewrite term_ok_ws by exact H. reflexivity.
Qed.

Lemma next_token_eq prev q R : q = 39 \/ q = 34 -> next_token prev (61 :: q :: R) = Ok (TEq, q :: R).
Proof. intros [-> | ->]; reflexivity. Qed.

Lemma next_token_dot prev R : next_token prev (46 :: 61 :: R) = Ok (TDot, 61 :: R).
Proof. reflexivity. Qed.

(* a quoted value followed by the closing bracket *)
Lemma next_token_lit prev v R :
  one_quote v = true ->
  next_token prev (quote_for v :: v ++ quote_for v :: 93 :: R) = Ok (TLit v, 93 :: R).
Proof.
  intro Hv. destruct (quote_for_ok v Hv) as [Hq Hnq].
  pose proof (path_literal_quoted (quote_for v) v (93 :: R) Hq Hnq) as E.
  unfold next_token. rewrite E.
  destruct Hq as [-> | ->]; reflexivity.
Qed.

Lemma span_digits_gen ds : forall R acc,
  forallb is_digit ds = true ->
  match R with [] => True | c :: _ => is_digit c = false end ->
  span_digits (ds ++ R) acc = (rev acc ++ ds, R).
Proof.
  induction ds as [|x ds IH]; intros R acc Hn HR; cbn [app].
  - rewrite app_nil_r. destruct R as [|c R]; cbn [span_digits]; [reflexivity|]. rewrite HR. reflexivity.
  - cbn [forallb] in Hn. apply andb_true_iff in Hn. destruct Hn as [H1 H2].
    cbn [span_digits]. rewrite H1, IH by assumption. cbn [rev]. rewrite <- app_assoc. reflexivity.
Qed.

(* a position followed by the closing bracket *)
Lemma next_token_num prev c ds R :
  forallb is_digit (c :: ds) = true ->
  next_token prev ((c :: ds) ++ 93 :: R) = Ok (TNum (c :: ds) (c :: ds), 93 :: R).
Proof.
  intro Hd. assert (Hc : is_digit c = true) by (cbn [forallb] in Hd; apply andb_true_iff in Hd; apply Hd).
  pose proof (digit_facts c Hc) as F. decompose [and] F.
  assert (Es : span_number ((c :: ds) ++ 93 :: R) = (c :: ds, c :: ds, 93 :: R)).
  { unfold span_number. rewrite (span_digits_gen (c :: ds) (93 :: R) []) by (exact Hd || reflexivity).
    reflexivity. }
  pose proof (digit_eqbs c Hc) as F'. decompose [and] F'. clear F'.
  unfold next_token. rewrite Es. cbn [app]. rw_false. rewrite Hc. cbn [orb andb negb skip_ws is_xmlws N.eqb Pos.eqb]. reflexivity.
Qed.

(* ---------- token sequences ---------- *)
(* from state (prev, s) the tokenizer produces the tokens l and is then in state (prev', s') *)
Inductive Lexes : option tok -> bytes -> list tok -> option tok -> bytes -> Prop :=
| Lexes_nil prev s : Lexes prev s [] prev s
| Lexes_cons prev s t r l prev' s' :
    s <> [] -> next_token prev s = Ok (t, r) -> (length r < length s)%nat ->
    Lexes (Some t) r l prev' s' -> Lexes prev s (t :: l) prev' s'.

Lemma Lexes_app prev s l1 p1 s1 l2 p2 s2 :
  Lexes prev s l1 p1 s1 -> Lexes p1 s1 l2 p2 s2 -> Lexes prev s (l1 ++ l2) p2 s2.
Proof.
  intros H1 H2. induction H1 as [|prev s t r l p' s' Hne Hn Hlen H IH]; cbn [app]; [exact H2|].
  eapply Lexes_cons; eauto.
Qed.

Lemma Lexes_one prev s t r :
  s <> [] -> next_token prev s = Ok (t, r) -> (length r < length s)%nat -> Lexes prev s [t] (Some t) r.
Proof. intros. eapply Lexes_cons; eauto. apply Lexes_nil. Qed.

Lemma Lexes_lex prev s l prev' :
  Lexes prev s l prev' [] -> forall fuel, (length s < fuel)%nat -> lex fuel prev s = Ok l.
Proof.
  intro H. remember [] as e eqn:Ee. induction H as [prev s|prev s t r l p' s' Hne Hn Hlen H IH]; intros fuel Hf.
  - subst s. destruct fuel; [cbn in Hf; lia|reflexivity].
  - destruct fuel as [|f]; [lia|]. cbn [lex].
    destruct s as [|c s0]; [congruence|]. rewrite Hn. rewrite (IH Ee f) by lia. reflexivity.
Qed.

(* what may follow a segment: nothing, or the next segment *)
Definition seg_follow (R : bytes) : Prop :=
  R = [] \/ exists c r, R = 47 :: c :: r /\ is_name_start c = true.

Lemma seg_follow_term R : seg_follow R -> term_ok R.
Proof. intros [-> | (c & r & -> & _)]; cbn; auto. Qed.

Lemma app_len_lt {A} (a b : list A) : a <> [] -> (length b < length (a ++ b))%nat.
Proof. intro H. destruct a; [congruence|]. rewrite app_length. cbn [length]. lia. Qed.

Lemma name_start_ws c : is_name_start c = true -> is_xmlws c = false.
Proof. intro H. pose proof (name_start_facts c H) as F. decompose [and] F. assumption. Qed.

Lemma Lexes_step prev s t r l prev' s' :
  next_token prev s = Ok (t, r) -> s <> [] -> (length r < length s)%nat ->
  Lexes (Some t) r l prev' s' -> Lexes prev s (t :: l) prev' s'.
Proof. intros. eapply Lexes_cons; eauto. Qed.

(* [key='value'] *)
Lemma lex_key1 prev k v rest :
  name_ok k = true -> one_quote v = true -> term_ok rest ->
  Lexes prev (list_pred k v ++ rest) [TB1; TName None k; TEq; TLit v; TB2] (Some TB2) rest.
Proof.
  intros Hk Hv Ht. unfold list_pred. rewrite <- !app_assoc. cbn [app].
  destruct (quote_for_ok v Hv) as [Hq Hnq].
  destruct (name_ok_head k Hk) as (c & k' & Ek & Hc).
  eapply Lexes_step;
    [apply next_token_b1; rewrite Ek; cbn [app]; apply name_start_ws; exact Hc|discriminate|cbn [length]; lia|].
  eapply Lexes_step;
    [change (k ++ 61 :: quote_for v :: v ++ quote_for v :: 93 :: rest)
       with (name_bytes None k ++ 61 :: quote_for v :: v ++ quote_for v :: 93 :: rest);
     apply next_token_name; cbn; auto
    |rewrite Ek; discriminate
    |apply app_len_lt; rewrite Ek; discriminate|].
  eapply Lexes_step; [apply next_token_eq; exact Hq|discriminate|cbn [length]; lia|].
  eapply Lexes_step; [apply next_token_lit; exact Hv|discriminate|cbn [length]; rewrite app_length; cbn [length]; lia|].
  eapply Lexes_step; [apply next_token_b2; exact Ht|discriminate|cbn [length]; lia|].
  apply Lexes_nil.
Qed.

Lemma lex_keys l : forall prev R,
  Forall (fun kv => name_ok (fst kv) = true /\ one_quote (snd kv) = true) l -> seg_follow R -> l <> [] ->
  Lexes prev (render_pred (AKeys l) ++ R) (toks_keys l) (Some TB2) R.
Proof.
  induction l as [|[k v] l IH]; intros prev R Hl HR Hne; [congruence|].
  inversion Hl as [|x y [Hk Hv] Hl']; subst. cbn [fst snd] in *.
  cbn [render_pred flat_map toks_keys fst snd]. rewrite <- app_assoc.
  change [TB1; TName None k; TEq; TLit v; TB2] with ([TB1; TName None k; TEq; TLit v; TB2] ++ []).
  rewrite <- app_assoc. cbn [app].
  change (TB1 :: TName None k :: TEq :: TLit v :: TB2 :: flat_map (fun kv => [TB1; TName None (fst kv); TEq; TLit (snd kv); TB2]) l)
    with ([TB1; TName None k; TEq; TLit v; TB2] ++ toks_keys l).
  destruct l as [|kv2 l2].
  - cbn [flat_map app toks_keys]. apply lex_key1; [assumption|assumption|apply seg_follow_term; exact HR].
  - eapply Lexes_app.
    + apply lex_key1; [assumption|assumption|]. cbn [flat_map]. unfold list_pred at 1. cbn. auto.
    + apply (IH (Some TB2) R Hl' HR). discriminate.
Qed.

Definition last_tok_pred (a : apred) (dflt : option tok) : option tok :=
  match a with
  | ANone => dflt
  | AKeys [] => dflt
  | _ => Some TB2
  end.

Lemma lex_pred a prev R :
  apred_ok a -> seg_follow R ->
  Lexes prev (render_pred a ++ R) (toks_pred a) (last_tok_pred a prev) R.
Proof.
  intros Ha HR. destruct a as [|l|v|n]; cbn [apred_ok] in Ha.
  - apply Lexes_nil.
  - destruct l as [|kv l]; [apply Lexes_nil|]. apply lex_keys; [exact Ha|exact HR|discriminate].
  - cbn [render_pred toks_pred last_tok_pred]. unfold leaflist_pred. rewrite <- !app_assoc. cbn [app].
    destruct (quote_for_ok v Ha) as [Hq Hnq].
    eapply Lexes_step; [apply next_token_b1; reflexivity|discriminate|cbn [length]; lia|].
    eapply Lexes_step; [apply next_token_dot|discriminate|cbn [length]; lia|].
    eapply Lexes_step; [apply next_token_eq; exact Hq|discriminate|cbn [length]; lia|].
    eapply Lexes_step; [apply next_token_lit; exact Ha|discriminate|cbn [length]; rewrite app_length; cbn [length]; lia|].
    eapply Lexes_step; [apply next_token_b2; apply seg_follow_term; exact HR|discriminate|cbn [length]; lia|].
    apply Lexes_nil.
  - cbn [render_pred toks_pred last_tok_pred]. rewrite <- !app_assoc. cbn [app].
    destruct (pm_N_to_dec_pos n Ha) as (c & r & E & Hd & _ & _). rewrite E.
    assert (Hc : is_digit c = true) by (cbn [forallb] in Hd; apply andb_true_iff in Hd; apply Hd).
    eapply Lexes_step; [apply next_token_b1; cbn [app]; unfold is_digit, is_xmlws in *; lia|discriminate|cbn [length]; lia|].
    eapply Lexes_step; [apply next_token_num; exact Hd|discriminate|rewrite app_length; cbn [length]; lia|].
    eapply Lexes_step; [apply next_token_b2; apply seg_follow_term; exact HR|discriminate|cbn [length]; lia|].
    apply Lexes_nil.
Qed.

Lemma render_pred_follow a R :
  apred_ok a -> seg_follow R -> term_ok (render_pred a ++ R).
Proof.
  intros Ha HR. destruct a as [|l|v|n]; cbn [render_pred].
  - apply seg_follow_term. exact HR.
  - destruct l as [|kv l]; [apply seg_follow_term; exact HR|]. cbn [flat_map]. unfold list_pred at 1. cbn. auto.
  - unfold leaflist_pred. cbn. auto.
  - cbn. auto.
Qed.

(* one segment, whatever follows it *)
Lemma lex_seg a prev R :
  aseg_ok a -> seg_follow R ->
  exists last, Lexes prev (render_seg a ++ R) (toks_seg a) (Some last) R.
Proof.
  intros (Hn & Hm & Hp) HR. unfold render_seg, toks_seg. rewrite <- !app_assoc. cbn [app].
  pose proof (render_pred_follow _ R Hp HR) as Ht.
  assert (En : (match a_pfx a with Some m => m ++ [58] | None => [] end) ++ a_n a ++ render_pred (a_pred a) ++ R
               = name_bytes (a_pfx a) (a_n a) ++ render_pred (a_pred a) ++ R).
  { destruct (a_pfx a); cbn [name_bytes]; rewrite <- ?app_assoc; reflexivity. }
  rewrite En.
  destruct (name_bytes_head (a_pfx a) (a_n a) (render_pred (a_pred a) ++ R) Hm Hn) as (c & r & E & Hc).
  exists (match last_tok_pred (a_pred a) (Some (TName (a_pfx a) (a_n a))) with Some t => t | None => TPath end).
  eapply Lexes_step; [rewrite E; apply next_token_path; exact Hc|discriminate|rewrite E; cbn [length]; lia|].
  rewrite <- E.
  eapply Lexes_step; [apply next_token_name; auto|rewrite E; discriminate| |].
  { apply app_len_lt. destruct (a_pfx a) as [m|]; cbn [name_bytes].
    - destruct m; discriminate.
    - destruct (name_ok_head _ Hn) as (c' & n' & -> & _). discriminate. }
  pose proof (lex_pred (a_pred a) (Some (TName (a_pfx a) (a_n a))) R Hp HR) as HL.
  destruct (a_pred a) as [|[|kv l]|v|n]; cbn [last_tok_pred] in *; exact HL.
Qed.

Lemma render_follow l : Forall aseg_ok l -> seg_follow (render l).
Proof.
  intro H. destruct l as [|a l]; [left; reflexivity|]. right.
  inversion H as [|x y (Hn & Hm & _) _]; subst.
  cbn [render flat_map]. unfold render_seg at 1. rewrite <- !app_assoc. cbn [app].
  destruct (a_pfx a) as [m|].
  - destruct (name_ok_head m Hm) as (c & m' & -> & Hc). exists c. eexists. split; [reflexivity|exact Hc].
  - destruct (name_ok_head _ Hn) as (c & n' & -> & Hc). exists c. eexists. split; [reflexivity|exact Hc].
Qed.

Lemma lex_segs l : forall prev,
  Forall aseg_ok l -> exists last, Lexes prev (render l) (toks l) last [].
Proof.
  induction l as [|a l IH]; intros prev H.
  - exists prev. apply Lexes_nil.
  - inversion H as [|x y Ha Hl]; subst. cbn [render toks flat_map].
    destruct (lex_seg a prev (render l) Ha (render_follow l Hl)) as [t Ht].
    destruct (IH (Some t) Hl) as [last Hlast]. exists last.
    eapply Lexes_app; [exact Ht|exact Hlast].
Qed.

(* the tokens of a printed path *)
Theorem tokenize_render l :
  l <> [] -> Forall aseg_ok l -> tokenize (render l) = Ok (toks l).
Proof.
  intros Hne H. destruct (lex_segs l None H) as [last HL].
  unfold tokenize. destruct l as [|a l]; [congruence|].
  assert (E : exists r, render (a :: l) = 47 :: r).
  { eexists. cbn [render flat_map]. unfold render_seg. cbn [app]. reflexivity. }
  destruct E as [r E]. rewrite E in *.
  cbn [skip_ws is_xmlws N.eqb Pos.eqb orb].
  eapply Lexes_lex; [exact HL|]. lia.
Qed.

(* ---------- ly_path_parse() on those tokens ---------- *)
Definition ppred_of (a : apred) : ppred :=
  match a with
  | ANone => PNone
  | AKeys [] => PNone
  | AKeys l => PKeys (map (fun kv => (None, fst kv, snd kv)) l)
  | ADot v => PDot v
  | APos n => PPos (N_to_dec n)
  end.
Definition pseg_of (a : aseg) : pseg := (a_pfx a, a_n a, ppred_of (a_pred a)).

(* two different identifiers are never taken for duplicates *)
Lemma dup_key_neq n : forall e,
  forallb is_name_byte n = true -> forallb is_name_byte e = true -> n <> e -> dup_key e n = false.
Proof.
  unfold dup_key. induction n as [|a n IH]; intros e Hn He Hne.
  - destruct e as [|c e]; [congruence|]. cbn [forallb] in He. apply andb_true_iff in He. destruct He as [Hc _].
    cbn [starts_with length app nth]. rewrite Hc. reflexivity.
  - cbn [forallb] in Hn. apply andb_true_iff in Hn. destruct Hn as [Ha Hn].
    destruct e as [|c e].
    + cbn [app starts_with]. assert (E : (a =? 61) = false) by (unfold is_name_byte, is_name_start, is_digit in Ha; lia).
      rewrite E. reflexivity.
    + cbn [forallb] in He. apply andb_true_iff in He. destruct He as [Hc He].
      cbn [app starts_with length nth]. destruct (a =? c) eqn:Eac; [|reflexivity].
      apply N.eqb_eq in Eac. subst c. cbn [andb]. apply IH; [assumption|assumption|congruence].
Qed.

Fixpoint names_distinct (l : list bytes) : Prop :=
  match l with
  | [] => True
  | n :: r => ~ In n r /\ names_distinct r
  end.

Definition rest_ok (rest : list tok) : Prop := rest = [] \/ exists r, rest = TPath :: r.

Lemma parse_keys_ok l : forall seen rest,
  l <> [] ->
  Forall (fun kv => name_ok (fst kv) = true) l -> Forall (fun e => forallb is_name_byte e = true) seen ->
  (forall e, In e seen -> ~ In e (map fst l)) -> names_distinct (map fst l) -> rest_ok rest ->
  parse_keys seen (tl (toks_keys l ++ rest)) = Ok (map (fun kv => (None, fst kv, snd kv)) l, rest).
Proof.
  induction l as [|[k v] l IH]; intros seen rest Hne Hl Hseen Hdis Hnd Hrest; [congruence|].
  inversion Hl as [|x y Hk Hl']; subst. cbn [fst snd] in *.
  cbn [toks_keys flat_map map fst snd app tl parse_keys].
  assert (Hd : existsb (fun e => dup_key e k) seen = false).
  { apply not_true_is_false. intro Hex. apply existsb_exists in Hex. destruct Hex as (e & Hin & Hdup).
    rewrite Forall_forall in Hseen.
    rewrite dup_key_neq in Hdup; [discriminate|apply name_ok_bytes; exact Hk|apply Hseen; exact Hin|].
    intro E. subst e. apply (Hdis k Hin). left. reflexivity. }
  rewrite Hd. cbn [map] in Hnd. destruct Hnd as [Hnin Hnd].
  destruct l as [|kv2 l2].
  - cbn [flat_map app map]. destruct Hrest as [-> | [r ->]]; reflexivity.
  - assert (IH' := IH (seen ++ [k]) rest).
    change (flat_map (fun kv => [TB1; TName None (fst kv); TEq; TLit (snd kv); TB2]) (kv2 :: l2)) with (toks_keys (kv2 :: l2)).
    assert (E : toks_keys (kv2 :: l2) ++ rest = TB1 :: tl (toks_keys (kv2 :: l2) ++ rest)) by reflexivity.
    rewrite E. cbv iota beta. unfold bytes in *.
    rewrite IH'; [reflexivity|discriminate|exact Hl'| | |exact Hnd|exact Hrest].
    + apply Forall_app. split; [exact Hseen|]. constructor; [apply name_ok_bytes; exact Hk|constructor].
    + intros e Hin. apply in_app_or in Hin. destruct Hin as [Hin | [<- | []]].
      * intro H2. apply (Hdis e Hin). right. exact H2.
      * exact Hnin.
Qed.

Definition apred_pok (a : apred) : Prop :=
  match a with
  | AKeys l => Forall (fun kv => name_ok (fst kv) = true) l /\ names_distinct (map fst l)
  | APos n => 0 < n < 2147483648
  | _ => True
  end.

Lemma atoi_pos n : 0 < n < 2147483648 -> c_atoi_zero (N_to_dec n) = false.
Proof.
  intro H. unfold c_atoi_zero.
  assert (Hn : n <> 0) by lia.
  destruct (pm_N_to_dec_pos n Hn) as (c & r & -> & _ & _ & ->).
  rewrite N.min_l by lia. rewrite N.mod_small by lia. lia.
Qed.

Lemma parse_pred_ok a rest :
  apred_pok a -> rest_ok rest -> parse_pred (toks_pred a ++ rest) = Ok (ppred_of a, rest).
Proof.
  intros Ha Hrest. destruct a as [|l|v|n]; cbn [toks_pred ppred_of apred_pok] in *.
  - cbn [app]. destruct Hrest as [-> | [r ->]]; reflexivity.
  - destruct l as [|[k v] l]; [cbn [toks_keys flat_map app]; destruct Hrest as [-> | [r ->]]; reflexivity|].
    destruct Ha as [Hl Hnd].
    pose proof (parse_keys_ok ((k, v) :: l) [] rest) as E.
    cbn [toks_keys flat_map app fst snd tl] in E |- *. unfold parse_pred. unfold bytes in *.
    rewrite E; [reflexivity|discriminate|exact Hl|constructor|intros e []|exact Hnd|exact Hrest].
  - reflexivity.
  - cbn [app parse_pred]. rewrite atoi_pos by exact Ha. reflexivity.
Qed.

Definition aseg_pok (a : aseg) : Prop := apred_pok (a_pred a).

Lemma toks_rest_ok l : rest_ok (toks l).
Proof. destruct l as [|a l]; [left; reflexivity|right]. cbn [toks flat_map toks_seg app]. eexists. reflexivity. Qed.

Lemma parse_segs_ok l : forall fuel first a,
  (length l < fuel)%nat -> Forall aseg_pok (a :: l) ->
  (first = true -> a_pfx a <> None) ->
  parse_segs fuel first (tl (toks (a :: l))) = Ok (map pseg_of (a :: l)).
Proof.
  induction l as [|b l IH]; intros fuel first a Hf Hok Hfirst.
  - destruct fuel as [|f]; [lia|]. inversion Hok as [|x y Ha _]; subst.
    cbn [toks flat_map toks_seg tl app parse_segs]. rewrite app_nil_r.
    assert (E : (first && match a_pfx a with None => true | Some _ => false end) = false).
    { destruct first; [|reflexivity]. destruct (a_pfx a); [reflexivity|]. exfalso. apply Hfirst; reflexivity. }
    rewrite E. pose proof (parse_pred_ok (a_pred a) [] Ha (or_introl eq_refl)) as Ep. rewrite app_nil_r in Ep.
    rewrite Ep. reflexivity.
  - destruct fuel as [|f]; [lia|]. inversion Hok as [|x y Ha Hok']; subst.
    assert (E : (first && match a_pfx a with None => true | Some _ => false end) = false).
    { destruct first; [|reflexivity]. destruct (a_pfx a); [reflexivity|]. exfalso. apply Hfirst; reflexivity. }
    change (tl (toks (a :: b :: l))) with (TName (a_pfx a) (a_n a) :: toks_pred (a_pred a) ++ toks (b :: l)).
    cbn [parse_segs]. rewrite E.
    rewrite (parse_pred_ok (a_pred a) (toks (b :: l)) Ha (toks_rest_ok (b :: l))).
    change (toks (b :: l)) with (TPath :: tl (toks (b :: l))). cbv iota beta.
    rewrite (IH f false b); [reflexivity|cbn [length] in Hf; lia|exact Hok'|discriminate].
Qed.

Lemma toks_len l : (length l <= length (toks l))%nat.
Proof.
  induction l as [|a l IH]; [reflexivity|]. unfold toks in *. cbn [flat_map]. rewrite app_length.
  unfold toks_seg at 1. cbn [length]. lia.
Qed.

(* the printed path is accepted and parsed into the expected segments *)
Theorem parse_path_render a l :
  Forall aseg_ok (a :: l) -> Forall aseg_pok (a :: l) -> a_pfx a <> None ->
  parse_path (render (a :: l)) = Ok (map pseg_of (a :: l)).
Proof.
  intros Hok Hpok Hp. unfold parse_path. rewrite tokenize_render by (discriminate || exact Hok).
  change (toks (a :: l)) with (TPath :: tl (toks (a :: l))). unfold parse_toks.
  apply parse_segs_ok; [|exact Hpok|intros _; exact Hp].
  pose proof (toks_len (a :: l)) as H. change (toks (a :: l)) with (TPath :: tl (toks (a :: l))) in H.
  cbn [length] in H |- *. lia.
Qed.
