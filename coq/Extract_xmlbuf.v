(* Extract_xmlbuf.v - extraction of the xmlbuf slice (XmlBuf) to OCaml; see Extract_xml.v. *)
From Coq Require Extraction ExtrOcamlBasic.
From Coq Require Import NArith ZArith.
From LY Require Import XmlBuf.
Extraction Language OCaml.
Extraction "model_xmlbuf.ml"
  N.add N.mul N.div N.modulo N.sub Z.add Z.mul Z.opp Z.of_N Z.abs_N Z.sub Z.ltb
  XmlBuf.parse_value XmlBuf.parse_value_oneshot.
