(* HashTable.v - model of the record-arena chained hash table of src/hash_table.c and
   src/hash_table_internal.h (struct ly_ht, struct ly_ht_rec, struct ly_ht_hlist).

   Style (B) of DESIGN section 3: the two C arrays hlists[size] and recs[size] are lists, every
   access goes through [rd]/[wr] which answer [Err E_OOB] outside the allocated extent, integer
   fields carry their C width (uint32_t arithmetic is written with an explicit mod 2^32).
   A failing C assert() is [Err E_ABORT] (abort() in builds that keep asserts; with NDEBUG the C
   code would continue outside of what is modelled, for lyht_insert with a write through
   recs[first_free_rec] beyond the arena).  malloc/calloc are assumed to succeed (LY_EMEM paths are
   not modelled).

   Values are an abstract type V with the all-zero value [vdef] (calloc) and the callback
   [veq md searched stored] = val_equal(val1_p, val2_p, mod, cb_data).  The ..._with_resize_cb
   variants, which swap ht->val_equal for the duration of a resize, are modelled with the same
   callback (the dictionary passes callbacks that decide the same relation on its records). *)
From LY Require Import Base.
From LY.Gen Require Import Consts.
Local Open Scope N_scope.

Definition U32 : N := 4294967296.
Definition NOREC : N := 4294967295.      (* LYHT_NO_RECORD = UINT32_MAX *)
Definition LY_EINT : N := 6.             (* enum LY_ERR, log.h *)
Definition E_ABORT : N := 100.           (* a C assert() does not hold *)
Definition E_OOB : N := 101.             (* access outside hlists[0..size) or recs[0..size) *)
Definition E_FUEL : N := 102.            (* model artefact: loop fuel or resize nesting exhausted *)

Definition rd {A} (l : list A) (i : N) : res A :=
  match nth_error l (N.to_nat i) with Some x => Ok x | None => Err E_OOB end.

Fixpoint upd {A} (l : list A) (n : nat) (x : A) : list A :=
  match l, n with
  | [], _ => []
  | _ :: l', O => x :: l'
  | y :: l', S n' => y :: upd l' n' x
  end.

Definition wr {A} (l : list A) (i : N) (x : A) : res (list A) :=
  if (N.to_nat i <? length l)%nat then Ok (upd l (N.to_nat i) x) else Err E_OOB.

(* operation argument of lyht_resize(): 1 / -1 / 0 *)
Inductive rop := Enlarge | Shrink | Rehash.

Section HT.
Variable V : Type.
Variable vdef : V.
Variable veq : bool -> V -> V -> bool.

Record hrec := mkrec { r_hash : N; r_next : N; r_val : V }.
Record hlist := mkhl { hl_first : N; hl_last : N }.
Record ht := mkht {
  ht_used : N;          (* number of filled records *)
  ht_size : N;          (* number of records allocated, power of two *)
  ht_resize : N;        (* 0 disabled, 1 enlarging enabled, 2 enlarging and shrinking enabled *)
  ht_ff : N;            (* first_free_rec *)
  ht_hl : list hlist;   (* hlists[size] *)
  ht_recs : list hrec   (* recs[size] *)
}.

Definition set_next (r : hrec) (n : N) : hrec := mkrec (r_hash r) n (r_val r).
Definition set_rval (r : hrec) (v : V) : hrec := mkrec (r_hash r) (r_next r) v.
Definition set_resize (t : ht) (z : N) : ht :=
  mkht (ht_used t) (ht_size t) z (ht_ff t) (ht_hl t) (ht_recs t).

(* hash & (ht->size - 1) on uint32_t *)
Definition bucket (t : ht) (h : N) : N := N.land h ((ht_size t + U32 - 1) mod U32).

(* r = ((uint64_t)ht->used * LYHT_HUNDRED_PERCENTAGE) / ht->size: used < 2^32, the 64-bit product cannot wrap
   (since /repo commit be54a69; before it the product was taken in uint32_t and wrapped beyond 2^25 records) *)
Definition pct (t : ht) : N := (ht_used t * LYHT_HUNDRED_PERCENTAGE) / ht_size t.

(* ---- lyht_init_hlists_and_records() (hash_table.c:58-84) ----
   calloc gives hash 0 and a zero value; rec->next = i + 1 for every i: the test [i != ht->size]
   is always true inside the loop, so the free list ends with the index [size] and not with
   LYHT_NO_RECORD. *)
Definition init_recs (sz : N) : list hrec :=
  map (fun i => mkrec 0 (N.of_nat i + 1) vdef) (seq 0 (N.to_nat sz)).
Definition init_hl (sz : N) : list hlist := repeat (mkhl NOREC NOREC) (N.to_nat sz).
Definition init_tab (sz rz : N) : ht := mkht 0 sz rz 0 (init_hl sz) (init_recs sz).

(* ---- lyht_new() (hash_table.c:86-116); val_size, val_equal non-zero are the caller's business ---- *)
Definition is_pow2 (n : N) : bool := negb (n =? 0) && (N.land n (n - 1) =? 0).
Definition lyht_new (size rz : N) : res ht :=
  if negb (is_pow2 size) then Err E_ABORT
  else if negb ((rz =? 0) || (rz =? 1)) then Err E_ABORT
  else Ok (init_tab (if size <? LYHT_MIN_SIZE then LYHT_MIN_SIZE else size) rz).

(* ---- lyht_find_rec() (hash_table.c:256-282) ----
   [eq] is the callback already applied to mod and the searched value.  The collision counter
   *col is written but never read by any caller and is left out. *)
Fixpoint find_loop (fuel : nat) (recs : list hrec) (eq : V -> bool) (h idx : N) : res (option N) :=
  match fuel with
  | O => Err E_FUEL
  | S f =>
      if idx =? NOREC then Ok None
      else bind (rd recs idx) (fun r =>
             if (r_hash r =? h) && eq (r_val r) then Ok (Some idx)
             else find_loop f recs eq h (r_next r))
  end.

Definition find_rec (t : ht) (eq : V -> bool) (h : N) : res (option N) :=
  bind (rd (ht_hl t) (bucket t h)) (fun hl =>
    find_loop (S (length (ht_recs t))) (ht_recs t) eq h (hl_first hl)).

(* ---- lyht_find() (hash_table.c:284-295): code and *match_p ---- *)
Definition lyht_find (t : ht) (h : N) (v : V) : res (N * option V) :=
  bind (find_rec t (veq false v) h) (fun fr =>
    match fr with
    | None => Ok (LY_ERR_ENOTFOUND, None)
    | Some i => bind (rd (ht_recs t) i) (fun r => Ok (LY_ERR_SUCCESS, Some (r_val r)))
    end).

(* ---- lyht_find_next_with_collision_cb() (hash_table.c:310-351); [cb = None] is lyht_find_next() ---- *)
Fixpoint next_loop (fuel : nat) (recs : list hrec) (eq : V -> bool) (h idx : N) : res (N * option V) :=
  match fuel with
  | O => Err E_FUEL
  | S f =>
      if idx =? NOREC then Ok (LY_ERR_ENOTFOUND, None)
      else bind (rd recs idx) (fun r =>
             if negb (r_hash r =? h) then next_loop f recs eq h (r_next r)
             else if eq (r_val r) then Ok (LY_ERR_SUCCESS, Some (r_val r))
             else next_loop f recs eq h (r_next r))
  end.

Definition lyht_find_next (t : ht) (cb : option (bool -> V -> V -> bool)) (h : N) (v : V)
  : res (N * option V) :=
  let eq := match cb with Some c => c | None => veq end in
  bind (find_rec t (eq true v) h) (fun fr =>
    match fr with
    | None => Ok (LY_EINT, None)            (* LOGINT_RET *)
    | Some i => bind (rd (ht_recs t) i) (fun r =>
                  next_loop (S (length (ht_recs t))) (ht_recs t) (eq false v) h (r_next r))
    end).

(* ---- _lyht_insert_with_resize_cb() (hash_table.c:359-425) ----
   [grow] is the call lyht_resize(ht, 1, check).  Result: return code, index of the record
   *match_p points into (meaningful when [wm], i.e. match_p != NULL), new table. *)
Definition insert_with (grow : ht -> bool -> res ht) (t : ht) (check wm : bool) (h : N) (v : V)
  : res (N * N * ht) :=
  bind (if check then find_rec t (veq true v) h else Ok None) (fun fr =>
  match fr with
  | Some i => Ok (LY_ERR_EEXIST, i, t)
  | None =>
    let ri := ht_ff t in
    if negb (ri <? ht_size t) then Err E_ABORT          (* assert(rec_idx < ht->size) *)
    else
    bind (rd (ht_recs t) ri) (fun r =>
    bind (rd (ht_hl t) (bucket t h)) (fun hl =>
    bind (if hl_first hl =? NOREC then Ok (ht_recs t)
          else bind (rd (ht_recs t) (hl_last hl)) (fun p =>
                 wr (ht_recs t) (hl_last hl) (set_next p ri))) (fun recs1 =>
    bind (wr recs1 ri (mkrec h NOREC v)) (fun recs2 =>
    bind (wr (ht_hl t) (bucket t h)
             (mkhl (if hl_first hl =? NOREC then ri else hl_first hl) ri)) (fun hl2 =>
    let t1 := mkht ((ht_used t + 1) mod U32) (ht_size t) (ht_resize t) (r_next r) hl2 recs2 in
    if ht_resize t =? 0 then Ok (LY_ERR_SUCCESS, ri, t1)
    else
      let r := pct t1 in
      let rz := if (ht_resize t =? 1) && (LYHT_FIRST_SHRINK_PERCENTAGE <=? r) then 2 else ht_resize t in
      let t2 := set_resize t1 rz in
      if (rz =? 2) && (LYHT_ENLARGE_PERCENTAGE <=? r) then
        bind (grow t2 check) (fun t3 =>
          if wm then
            (* ret = lyht_find(ht, val_p, hash, match_p); assert(!ret) *)
            bind (find_rec t3 (veq false v) h) (fun fr2 =>
              match fr2 with
              | Some j => Ok (LY_ERR_SUCCESS, j, t3)
              | None => Err E_ABORT
              end)
          else Ok (LY_ERR_SUCCESS, ri, t3))
      else Ok (LY_ERR_SUCCESS, ri, t2))))))
  end).

(* ---- lyht_resize() (hash_table.c:185-241) ----
   The old arrays are only read while the records are re-inserted, so the traversal (buckets in
   index order, each chain from first along next) is done first and the re-insertion second.
   [ins] is lyht_insert / lyht_insert_no_check on the table under construction; any non-zero
   return is the failing assert(!ret). *)
Fixpoint collect_chain (fuel : nat) (recs : list hrec) (idx : N) : res (list (N * V)) :=
  match fuel with
  | O => Err E_FUEL
  | S f =>
      if idx =? NOREC then Ok []
      else bind (rd recs idx) (fun r =>
           bind (collect_chain f recs (r_next r)) (fun l => Ok ((r_hash r, r_val r) :: l)))
  end.

Fixpoint collect_all (recs : list hrec) (hls : list hlist) : res (list (N * V)) :=
  match hls with
  | [] => Ok []
  | hl :: hls' =>
      bind (collect_chain (S (length recs)) recs (hl_first hl)) (fun l =>
      bind (collect_all recs hls') (fun l' => Ok (l ++ l')))
  end.

Fixpoint reinsert (ins : ht -> N -> V -> res (N * N * ht)) (t : ht) (es : list (N * V)) : res ht :=
  match es with
  | [] => Ok t
  | e :: es' =>
      bind (ins t (fst e) (snd e)) (fun x =>
        if fst (fst x) =? LY_ERR_SUCCESS then reinsert ins (snd x) es' else Err E_ABORT)
  end.

Definition new_size (sz : N) (op : rop) : N :=
  match op with
  | Enlarge => (sz * 2) mod U32        (* ht->size <<= 1 *)
  | Shrink => sz / 2                   (* ht->size >>= 1 *)
  | Rehash => sz
  end.

Definition resize_with (ins : ht -> bool -> N -> V -> res (N * N * ht)) (t : ht) (op : rop) (check : bool)
  : res ht :=
  bind (collect_all (ht_recs t) (ht_hl t)) (fun es =>
    reinsert (fun t' => ins t' check) (init_tab (new_size (ht_size t) op) (ht_resize t)) es).

(* The re-insertions run the full insert function, whose own resize test never fires there
   (HashTableP.a_insert_inner_shape / a_reinsert_shape: the load stays below 75 %); the nesting
   is cut at depth one: a resize requested from inside a resize is E_FUEL. *)
Definition insert_inner (t : ht) (check : bool) (h : N) (v : V) : res (N * N * ht) :=
  insert_with (fun _ _ => Err E_FUEL) t check false h v.

Definition lyht_resize (t : ht) (op : rop) (check : bool) : res ht :=
  resize_with insert_inner t op check.

Definition insert (t : ht) (check wm : bool) (h : N) (v : V) : res (N * N * ht) :=
  insert_with (fun t' c => lyht_resize t' Enlarge c) t check wm h v.

(* lyht_insert() / lyht_insert_with_resize_cb() / lyht_insert_no_check() with match_p given *)
Definition lyht_insert (t : ht) (h : N) (v : V) := insert t true true h v.
Definition lyht_insert_no_check (t : ht) (h : N) (v : V) := insert t false true h v.

(* ---- lyht_remove_with_resize_cb() (hash_table.c:446-504) ---- *)
(* second loop (462-467): walk the chain until the found record, remembering the previous index;
   running off the chain would dereference recs[LYHT_NO_RECORD] *)
Fixpoint prev_loop (fuel : nat) (recs : list hrec) (idx target prev : N) : res N :=
  match fuel with
  | O => Err E_FUEL
  | S f =>
      if idx =? NOREC then Err E_OOB
      else if idx =? target then Ok prev
      else bind (rd recs idx) (fun r => prev_loop f recs (r_next r) target idx)
  end.

Definition lyht_remove (t : ht) (h : N) (v : V) : res (N * ht) :=
  bind (find_rec t (veq true v) h) (fun fr =>
  match fr with
  | None => Ok (LY_ERR_ENOTFOUND, t)
  | Some ri =>
    bind (rd (ht_hl t) (bucket t h)) (fun hl =>
    bind (prev_loop (S (length (ht_recs t))) (ht_recs t) (hl_first hl) ri NOREC) (fun prev =>
    bind (rd (ht_recs t) ri) (fun r =>
    let nx := r_next r in
    bind (if prev =? NOREC then Ok (ht_recs t)
          else bind (rd (ht_recs t) prev) (fun p => wr (ht_recs t) prev (set_next p nx))) (fun recs1 =>
    let hl' := if prev =? NOREC
               then mkhl nx (if nx =? NOREC then NOREC else hl_last hl)
               else mkhl (hl_first hl) (if nx =? NOREC then prev else hl_last hl) in
    bind (wr recs1 ri (set_next r (ht_ff t))) (fun recs2 =>
    bind (wr (ht_hl t) (bucket t h) hl') (fun hl2 =>
    let t1 := mkht ((ht_used t + U32 - 1) mod U32) (ht_size t) (ht_resize t) ri hl2 recs2 in
    if (ht_resize t =? 2) && (pct t1 <? LYHT_SHRINK_PERCENTAGE) && (LYHT_MIN_SIZE <? ht_size t)
    then bind (lyht_resize t1 Shrink true) (fun t2 => Ok (LY_ERR_SUCCESS, t2))
    else Ok (LY_ERR_SUCCESS, t1)))))))
  end).

(* ---- lyht_dup() (hash_table.c:138-155) ----
   memcpy of hlists and recs, copies of [used] and (since /repo commit d69e9c2) of first_free_rec;
   resize 2 becomes 1. *)
Definition lyht_dup (t : ht) : res ht :=
  bind (lyht_new (ht_size t) (if ht_resize t =? 0 then 0 else 1)) (fun n =>
    Ok (mkht (ht_used t) (ht_size n) (ht_resize n) (ht_ff t) (ht_hl t) (ht_recs t))).

(* in-place update of a stored value through the pointer returned in *match_p *)
Definition set_val (t : ht) (i : N) (v : V) : res ht :=
  bind (rd (ht_recs t) i) (fun r =>
  bind (wr (ht_recs t) i (set_rval r v)) (fun recs' =>
    Ok (mkht (ht_used t) (ht_size t) (ht_resize t) (ht_ff t) (ht_hl t) recs'))).

End HT.

Arguments mkrec {V}.
Arguments r_hash {V}.
Arguments r_next {V}.
Arguments r_val {V}.
Arguments mkht {V}.
Arguments ht_used {V}.
Arguments ht_size {V}.
Arguments ht_resize {V}.
Arguments ht_ff {V}.
Arguments ht_hl {V}.
Arguments ht_recs {V}.
Arguments set_next {V}.
Arguments set_rval {V}.
Arguments set_resize {V}.
Arguments bucket {V}.
Arguments pct {V}.
Arguments init_recs {V}.
Arguments init_tab {V}.
Arguments lyht_new {V}.
Arguments find_loop {V}.
Arguments find_rec {V}.
Arguments lyht_find {V}.
Arguments next_loop {V}.
Arguments lyht_find_next {V}.
Arguments insert_with {V}.
Arguments collect_chain {V}.
Arguments collect_all {V}.
Arguments reinsert {V}.
Arguments resize_with {V}.
Arguments insert_inner {V}.
Arguments lyht_resize {V}.
Arguments insert {V}.
Arguments lyht_insert {V}.
Arguments lyht_insert_no_check {V}.
Arguments prev_loop {V}.
Arguments lyht_remove {V}.
Arguments lyht_dup {V}.
Arguments set_val {V}.

(* ---- instance driven by impl/t_ht.c: values are integers, val_equal is equality; the collision
   callback of the c-operation is identity when mod and equality of val/16 otherwise ---- *)
Definition nveq (_ : bool) (a b : N) : bool := a =? b.
Definition ncol (md : bool) (a b : N) : bool := if md then a =? b else (a / 16 =? b / 16).

Inductive hop :=
| OpIns (h v : N) | OpInsNC (h v : N) | OpRem (h v : N) | OpFind (h v : N)
| OpNext (h v : N) | OpNextCol (h v : N) | OpDup.

(* one operation: printed result (code, value) and the table afterwards *)
Definition nht_step (t : ht N) (o : hop) : res (N * option N * ht N) :=
  match o with
  | OpIns h v =>
      bind (lyht_insert 0 nveq t h v) (fun x =>
      bind (rd (ht_recs (snd x)) (snd (fst x))) (fun r => Ok (fst (fst x), Some (r_val r), snd x)))
  | OpInsNC h v =>
      bind (lyht_insert_no_check 0 nveq t h v) (fun x =>
      bind (rd (ht_recs (snd x)) (snd (fst x))) (fun r => Ok (fst (fst x), Some (r_val r), snd x)))
  | OpRem h v => bind (lyht_remove 0 nveq t h v) (fun x => Ok (fst x, None, snd x))
  | OpFind h v => bind (lyht_find nveq t h v) (fun x => Ok (fst x, snd x, t))
  | OpNext h v => bind (lyht_find_next nveq t None h v) (fun x => Ok (fst x, snd x, t))
  | OpNextCol h v => bind (lyht_find_next nveq t (Some ncol) h v) (fun x => Ok (fst x, snd x, t))
  | OpDup => bind (lyht_dup 0 t) (fun t' => Ok (LY_ERR_SUCCESS, None, t'))
  end.

(* a script: results of the operations done, and either the final table or the error that ended it *)
Fixpoint nht_run (t : ht N) (ops : list hop) (acc : list (N * option N))
  : list (N * option N) * res (ht N) :=
  match ops with
  | [] => (rev acc, Ok t)
  | o :: ops' =>
      match nht_step t o with
      | Ok x => nht_run (snd x) ops' (fst x :: acc)
      | Err e => (rev acc, Err e)
      end
  end.
