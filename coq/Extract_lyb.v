(* Extract_lyb.v - extraction of the lyb slice (LybChunk, LybHash) to model_lyb.ml *)
From Coq Require Extraction ExtrOcamlBasic.
From LY Require Import Base LybChunk LybHash.
Extraction Language OCaml.
Extraction "model_lyb.ml"
  N.add N.mul N.div N.modulo N.sub Z.add Z.mul Z.opp Z.of_N Z.abs_N Z.sub Z.ltb
  LybChunk.shape LybChunk.payloads LybChunk.lyb_run_write LybChunk.lyb_run_read LybChunk.pattern
  LybHash.gen_hash LybHash.hash_siblings LybHash.sib_roundtrip.
