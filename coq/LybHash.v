(* LybHash.v - model of the LYB schema-node hashes.
   lyht_hash_multi() of src/hash_table.c (Jenkins one-at-a-time, uint32_t arithmetic, the key bytes are
   (signed) char), lyb_generate_hash()/lyb_get_hash() of src/lyb.c, printer side lyb_hash_sequence_check(),
   lyb_hash_siblings(), lyb_hash_find(), lyb_print_schema_hash() of src/printer_lyb.c, parser side
   lyb_read_hashes(), lyb_is_schema_hash_match(), lyb_parse_schema_hash() of src/parser_lyb.c.

   Siblings are an abstract list (the order of lys_getnext()); a node is identified by its index in the
   list (the C code compares struct lysc_node pointers). The hash table of lyb_hash_siblings() is
   abstracted to the list of its records (hash, index, node) in insertion order: a bucket chain keeps
   insertion order (new records are appended at hlists[].last), lyht_resize() re-inserts chain by chain
   in order, so records with the same hash value stay in insertion order; lyht_find() with
   lyb_hash_equal_cb returns the first record with that hash and lyht_find_next_with_collision_cb()
   walks the following ones. *)
From LY Require Import Base.
From LY.Gen Require Consts.
Local Open Scope N_scope.

Definition U32 : N := 4294967296.

(* (uint32_t)(char)b for a byte b: char is signed on the supported targets *)
Definition sx8 (b : N) : N := if b <? 128 then b else U32 - 256 + b.

(* body of the for loop of lyht_hash_multi() *)
Definition mix_byte (h b : N) : N :=
  let h1 := (h + sx8 b) mod U32 in
  let h2 := (h1 + N.shiftl h1 10) mod U32 in
  N.lxor h2 (N.shiftr h2 6).
(* the else branch (key_part == NULL or len == 0) *)
Definition mix_final (h : N) : N :=
  let h1 := (h + N.shiftl h 3) mod U32 in
  let h2 := N.lxor h1 (N.shiftr h1 11) in
  (h2 + N.shiftl h2 15) mod U32.

(* lyht_hash_multi(hash, key_part, len); None = NULL *)
Definition lyht_hash_multi (h : N) (key : option bytes) : N :=
  match key with
  | Some (b :: r) => fold_left mix_byte (b :: r) h
  | _ => mix_final h
  end.
(* lyht_hash(key, len) *)
Definition lyht_hash (key : bytes) : N := lyht_hash_multi (lyht_hash_multi 0 (Some key)) None.

Section Gen.
Variables HASH_BITS HASH_MASK HASH_COLLISION_ID : N.

(* lyb_generate_hash(node, collision_id) with node->module->name = [modname], node->name = [name] *)
Definition lyb_generate_hash (modname name : bytes) (collision_id : N) : N :=
  let h0 := lyht_hash_multi 0 (Some modname) in
  let h1 := lyht_hash_multi h0 (Some name) in
  let h2 :=
    if collision_id =? 0 then h1
    else
      let len := N.of_nat (length modname) in
      let ext_len := if len <? collision_id then len else collision_id in
      lyht_hash_multi h1 (Some (firstn (N.to_nat ext_len) modname)) in
  let full := lyht_hash_multi h2 None in
  (* hash = full_hash & (LYB_HASH_MASK >> collision_id); hash |= LYB_HASH_COLLISION_ID >> collision_id; (uint8_t) *)
  N.lor (N.land full (N.shiftr HASH_MASK collision_id)) (N.shiftr HASH_COLLISION_ID collision_id) mod 256.

(* ---------------------------------------------------------------------------------------- *)
Section Sib.
Variable A : Type.
Variable h : A -> N -> N.                 (* lyb_get_hash(node, collision_id) *)

Definition hrec : Type := (N * nat * A)%type.     (* rec->hash, the node (index), the node itself *)
Definition rec_hash (r : hrec) : N := fst (fst r).
Definition rec_idx (r : hrec) : nat := snd (fst r).
Definition rec_node (r : hrec) : A := snd r.

(* for (j = compare_col_id; j > -1; --j) if (hash(sibling, j) != hash(col_node, j)) break;  j == -1 ? *)
Fixpoint seq_eq (a b : A) (n : nat) : bool :=
  match n with
  | O => true
  | S n' => (h a (N.of_nat n') =? h b (N.of_nat n')) && seq_eq a b n'
  end.

(* lyb_hash_sequence_check(ht, sibling, ht_col_id, compare_col_id): true = LY_EEXIST.
   The do/while visits every record whose hash is lyb_get_hash(sibling, ht_col_id). *)
Definition sequence_check (ht : list hrec) (sib : A) (ht_col cmp_col : nat) : bool :=
  existsb (fun r => (rec_hash r =? h sib (N.of_nat ht_col)) && seq_eq sib (rec_node r) (S cmp_col)) ht.

(* for (j = i - 1; j > -1; --j) if (lyb_hash_sequence_check(ht, sibling, j, i)) break;   j > -1 ? *)
Fixpoint lower_ids_collide (ht : list hrec) (sib : A) (i j : nat) : bool :=
  match j with
  | O => false
  | S j' => sequence_check ht sib j' i || lower_ids_collide ht sib i j'
  end.

(* body of for (i = 0; i < LYB_HASH_BITS; ++i) for one sibling; [n] ids are left to try.
   None: i == LYB_HASH_BITS, LOGINT *)
Fixpoint insert_sibling (n : nat) (i : nat) (ht : list hrec) (idx : nat) (sib : A) : option (list hrec) :=
  match n with
  | O => None
  | S n' =>
      if lower_ids_collide ht sib i i then insert_sibling n' (S i) ht idx sib         (* continue *)
      else
        let hash := h sib (N.of_nat i) in
        (* lyht_insert_with_resize_cb() with lyb_hash_equal_cb: fails iff a record with this hash exists *)
        if negb (existsb (fun r => rec_hash r =? hash) ht) then Some (ht ++ [(hash, idx, sib)])
        (* if (i && !lyb_hash_sequence_check(ht, sibling, i, i)) lyht_insert() with lyb_ptr_equal_cb *)
        else if negb (Nat.eqb i 0) && negb (sequence_check ht sib i i) then Some (ht ++ [(hash, idx, sib)])
        else insert_sibling n' (S i) ht idx sib
  end.

(* while ((sibling = lys_getnext(...))) of lyb_hash_siblings() *)
Fixpoint hash_siblings_from (l : list A) (idx : nat) (ht : list hrec) : option (list hrec) :=
  match l with
  | [] => Some ht
  | sib :: l' =>
      match insert_sibling (N.to_nat HASH_BITS) 0 ht idx sib with
      | None => None
      | Some ht' => hash_siblings_from l' (S idx) ht'
      end
  end.
Definition lyb_hash_siblings (l : list A) : option (list hrec) := hash_siblings_from l 0%nat [].

(* lyb_hash_find(ht, node, &hash) with lyb_ptr_equal_cb; None: LOGINT *)
Fixpoint hash_find_from (n : nat) (i : nat) (ht : list hrec) (idx : nat) (sib : A) : option N :=
  match n with
  | O => None
  | S n' =>
      let hash := h sib (N.of_nat i) in
      if hash =? 0 then None
      else if existsb (fun r => (rec_hash r =? hash) && Nat.eqb (rec_idx r) idx) ht then Some hash
      else hash_find_from n' (S i) ht idx sib
  end.
Definition lyb_hash_find (ht : list hrec) (idx : nat) (sib : A) : option N :=
  hash_find_from (N.to_nat HASH_BITS) 0 ht idx sib.

(* for (i = 0; !(hash & (LYB_HASH_COLLISION_ID >> i)); ++i); at most [n] steps *)
Fixpoint collision_id_from (n : nat) (i : nat) (hash : N) : option nat :=
  match n with
  | O => None
  | S n' =>
      if negb (N.land hash (N.shiftr HASH_COLLISION_ID (N.of_nat i)) =? 0) then Some i
      else collision_id_from n' (S i) hash
  end.
Definition collision_id (hash : N) : option nat := collision_id_from (S (N.to_nat HASH_BITS)) 0 hash.

(* for ( ; i; --i) write lyb_get_hash(schema, i - 1); None: a zero hash, LY_EINT *)
Fixpoint lower_hashes (sib : A) (i : nat) : option bytes :=
  match i with
  | O => Some []
  | S i' =>
      let hash := h sib (N.of_nat i') in
      if hash =? 0 then None
      else match lower_hashes sib i' with None => None | Some l => Some (hash :: l) end
  end.

(* lyb_print_schema_hash() for a schema node: the bytes handed to lyb_write() *)
Definition lyb_print_schema_hash (ht : list hrec) (idx : nat) (sib : A) : option bytes :=
  match lyb_hash_find ht idx sib with
  | None => None
  | Some hash =>
      if negb (N.land hash HASH_COLLISION_ID =? 0) then Some [hash]
      else
        match collision_id hash with
        | None => None                               (* hash == 0: excluded by lyb_hash_find *)
        | Some i => match lower_hashes sib i with None => None | Some l => Some (hash :: l) end
        end
  end.

(* ---- parser side ---- *)
Definition EH_EOF : N := 3.
Definition EH_ASSERT : N := 4.    (* one of the two asserts of lyb_read_hashes *)
Definition EH_OOB : N := 5.       (* hash[i] with i = LYB_HASH_BITS - 1: the array has LYB_HASH_BITS - 1 entries *)
Definition EH_LOGINT : N := 1.

(* the rest of the hashes: for (j = i; j; --j) read hash[j - 1] with the two asserts;
   returns hash[0..i-1] and the rest of the input *)
Fixpoint read_lower (i : nat) (inp : bytes) : res (bytes * bytes) :=
  match i with
  | O => Ok ([], inp)
  | S i' =>
      match inp with
      | [] => Err EH_EOF
      | b :: inp' =>
          if (N.land b (N.shiftr HASH_COLLISION_ID (N.of_nat i')) =? 0)
             || negb (N.land b (N.shiftl HASH_MASK (HASH_BITS - N.of_nat i')) =? 0)
          then Err EH_ASSERT
          else match read_lower i' inp' with
               | Ok (l, rest) => Ok (l ++ [b], rest)
               | Err e => Err e
               end
      end
  end.

(* lyb_read_hashes(): the array hash[0 .. hash_count-1] and the rest of the input *)
Definition lyb_read_hashes (inp : bytes) : res (bytes * bytes) :=
  match inp with
  | [] => Err EH_EOF
  | b :: inp' =>
      if b =? 0 then Ok ([0], inp')
      else
        match collision_id b with
        | None => Err EH_LOGINT
        | Some i =>
            if Nat.leb (N.to_nat HASH_BITS - 1) i then Err EH_OOB
            else match read_lower i inp' with
                 | Ok (l, rest) => Ok (l ++ [b], rest)
                 | Err e => Err e
                 end
        end
  end.

(* lyb_is_schema_hash_match(sibling, hash, hash_count) *)
Fixpoint hash_match_from (sib : A) (i : nat) (hashes : bytes) : bool :=
  match hashes with
  | [] => true
  | x :: r => (h sib (N.of_nat i) =? x) && hash_match_from sib (S i) r
  end.

(* the while (1) of lyb_parse_schema_hash(): first sibling in lys_getnext() order that matches *)
Fixpoint first_match_from (l : list A) (idx : nat) (hashes : bytes) : option nat :=
  match l with
  | [] => None
  | sib :: l' => if hash_match_from sib 0 hashes then Some idx else first_match_from l' (S idx) hashes
  end.

(* lyb_parse_schema_hash(): Some idx = found sibling, None = opaque node or no match; rest of the input *)
Definition lyb_parse_schema_hash (l : list A) (inp : bytes) : res (option nat * bytes) :=
  match lyb_read_hashes inp with
  | Err e => Err e
  | Ok (hashes, rest) =>
      match hashes with
      | 0 :: _ => Ok (None, rest)
      | _ => Ok (first_match_from l 0 hashes, rest)
      end
  end.

End Sib.
End Gen.

(* ---------------------------------------------------------------------------------------- *)
(* the model of the code: constants of src/lyb.h, nodes = (module name, node name)           *)
(* ---------------------------------------------------------------------------------------- *)
Definition snode : Type := (bytes * bytes)%type.
Definition gen_hash (modname name : bytes) (collision_id : N) : N :=
  lyb_generate_hash Consts.LYB_HASH_MASK Consts.LYB_HASH_COLLISION_ID modname name collision_id.

(* a schema node with its cache node->hash[] as filled by lyb_cache_node_hash_cb(). The C array has
   LYS_NODE_HASH_COUNT entries and lyb_get_hash() generates the hash for larger collision ids; the
   model caches all LYB_HASH_BITS values (same values, see LybHashP.get_hash_gen). The type carries the
   fact that the cache holds the generated hashes (erased by extraction). *)
Definition hash_cache (n : snode) : list N :=
  map (fun i => gen_hash (fst n) (snd n) (N.of_nat i)) (seq 0 (N.to_nat Consts.LYB_HASH_BITS)).
Definition cnode : Type := { c : snode * list N | snd c = hash_cache (fst c) }.
Definition cache_node (n : snode) : cnode := exist _ (n, hash_cache n) eq_refl.
Definition node_of (c : cnode) : snode := fst (proj1_sig c).
(* lyb_get_hash() *)
Definition get_hash (c : cnode) (collision_id : N) : N :=
  match nth_error (snd (proj1_sig c)) (N.to_nat collision_id) with
  | Some v => v
  | None => gen_hash (fst (node_of c)) (snd (node_of c)) collision_id
  end.

Definition hash_siblings (l : list snode) : option (list (hrec cnode)) :=
  lyb_hash_siblings Consts.LYB_HASH_BITS cnode get_hash (map cache_node l).
Definition print_schema_hash (ht : list (hrec cnode)) (idx : nat) (n : snode) : option bytes :=
  lyb_print_schema_hash Consts.LYB_HASH_BITS Consts.LYB_HASH_COLLISION_ID cnode get_hash ht idx (cache_node n).
Definition parse_schema_hash (l : list snode) (inp : bytes) : res (option nat * bytes) :=
  lyb_parse_schema_hash Consts.LYB_HASH_BITS Consts.LYB_HASH_MASK Consts.LYB_HASH_COLLISION_ID cnode get_hash
                        (map cache_node l) inp.

(* what the lybsib driver prints: for every sibling the printed hash bytes and the index the parser finds *)
Definition sib_roundtrip (l : list snode) : option (list (option (bytes * res (option nat * bytes)))) :=
  match hash_siblings l with
  | None => None
  | Some ht =>
      let cl := map cache_node l in
      Some (map (fun p : nat * cnode =>
                   match lyb_print_schema_hash Consts.LYB_HASH_BITS Consts.LYB_HASH_COLLISION_ID cnode get_hash
                                               ht (fst p) (snd p) with
                   | None => None
                   | Some bs =>
                       Some (bs, lyb_parse_schema_hash Consts.LYB_HASH_BITS Consts.LYB_HASH_MASK
                                   Consts.LYB_HASH_COLLISION_ID cnode get_hash cl bs)
                   end)
                (combine (seq 0 (length cl)) cl))
  end.
