(* XPathSemP.v — slice xpath (C08): properties of the XPath semantics of XPathSem.v.

   Main result [eval_nodeset_sorted]: every node-set value produced by [eval] - for any expression, any context,
   any tree whose ids are the document positions, and ANY setting of the as-coded switches (in particular the
   reference semantics and the semantics as coded) - is strictly increasing in document order, hence duplicate
   free. Further: laws of the union, predicates, '//', and the key predicate that the hash fast path of the
   code has to agree with. *)
From Coq Require Import QArith.
From LY Require Import Base XPathConv XPathTree XPathSem.
From Coq Require Import ZifyBool ZifyNat ZifyN.
Local Open Scope Z_scope.

(* ------------------------------------------------------------------------------------------------ *)
(* strictly increasing key lists, with an integer lower bound (-1 = no bound)                       *)
(* ------------------------------------------------------------------------------------------------ *)
Definition zkey (it : item) : Z := Z.of_N (item_key it).

Fixpoint sortedZ (k : Z) (l : list item) : bool :=
  match l with
  | [] => true
  | a :: r => (k <? zkey a) && sortedZ (zkey a) r
  end.

Lemma sorted_from_Z k l : sorted_from k l = sortedZ (Z.of_N k) l.
Proof.
  revert k; induction l as [|a r IH]; intro k; cbn; [reflexivity|].
  rewrite IH. unfold zkey. f_equal. lia.
Qed.

Lemma sorted_items_Z l : sorted_items l = sortedZ (-1) l.
Proof.
  destruct l as [|a r]; cbn; [reflexivity|].
  rewrite sorted_from_Z. unfold zkey.
  replace (-1 <? Z.of_N (item_key a)) with true by lia. reflexivity.
Qed.

Lemma sortedZ_weaken k k' l : k' <= k -> sortedZ k l = true -> sortedZ k' l = true.
Proof.
  destruct l as [|a r]; cbn; intros Hk H; [reflexivity|].
  apply andb_true_iff in H. destruct H as [H1 H2]. rewrite H2. lia.
Qed.

Lemma sortedZ_tail k a r : sortedZ k (a :: r) = true -> sortedZ (zkey a) r = true.
Proof. cbn. intro H. apply andb_true_iff in H. apply H. Qed.

Lemma sortedZ_head k a r : sortedZ k (a :: r) = true -> k < zkey a.
Proof. cbn. intro H. apply andb_true_iff in H. lia. Qed.

Lemma sortedZ_all_gt k l : sortedZ k l = true -> forall m, In m l -> k < zkey m.
Proof.
  revert k; induction l as [|a r IH]; intros k H m Hin; [contradiction|].
  destruct Hin as [<-|Hin]; [eapply sortedZ_head; eauto|].
  pose proof (sortedZ_head _ _ _ H). pose proof (IH _ (sortedZ_tail _ _ _ H) m Hin). lia.
Qed.

(* sub-sequences keep the order *)
Inductive subseq : list item -> list item -> Prop :=
| ss_nil : subseq [] []
| ss_skip a l' l : subseq l' l -> subseq l' (a :: l)
| ss_take a l' l : subseq l' l -> subseq (a :: l') (a :: l).

Lemma subseq_nil l : subseq [] l.
Proof. induction l; constructor; assumption. Qed.

Lemma subseq_refl l : subseq l l.
Proof. induction l; constructor; assumption. Qed.

Lemma subseq_sortedZ l' l : subseq l' l -> forall k, sortedZ k l = true -> sortedZ k l' = true.
Proof.
  induction 1 as [|a l' l Hs IH|a l' l Hs IH]; intros k H.
  - reflexivity.
  - apply IH. eapply sortedZ_weaken; [|eapply sortedZ_tail; eauto]. pose proof (sortedZ_head _ _ _ H). lia.
  - cbn. apply andb_true_iff. split; [pose proof (sortedZ_head _ _ _ H); lia|].
    apply IH. eapply sortedZ_tail; eauto.
Qed.

Lemma filter_subseq f l : subseq (filter f l) l.
Proof. induction l as [|a r IH]; cbn; [constructor|]. destruct (f a); constructor; assumption. Qed.

Lemma filter_sortedZ f k l : sortedZ k l = true -> sortedZ k (filter f l) = true.
Proof. intro H. eapply subseq_sortedZ; [apply filter_subseq|assumption]. Qed.

Lemma filter_idx_subseq f l : forall i l', filter_idx f l i = Ok l' -> subseq l' l.
Proof.
  induction l as [|a r IH]; intros i l' H; cbn in H.
  - inversion H. constructor.
  - destruct (f a i) as [b|]; cbn in H; [|discriminate].
    destruct (filter_idx f r (i + 1)) as [r'|] eqn:Hr; cbn in H; [|discriminate].
    inversion H; subst. destruct b; constructor; exact (IH _ _ Hr).
Qed.

(* ------------------------------------------------------------------------------------------------ *)
(* the document-order list of all items is sorted                                                   *)
(* ------------------------------------------------------------------------------------------------ *)
Lemma zkey_root : zkey IRoot = 0.
Proof. reflexivity. Qed.
Lemma zkey_elem n : zkey (IElem n) = 2 * Z.of_N (x_id n) + 1.
Proof. unfold zkey, item_key. lia. Qed.
Lemma zkey_text n : zkey (IText n) = 2 * Z.of_N (x_id n) + 2.
Proof. unfold zkey, item_key. lia. Qed.

Lemma sortedZ_cons k a r : sortedZ k (a :: r) = (k <? zkey a) && sortedZ (zkey a) r.
Proof. reflexivity. Qed.

Lemma node_items_sorted t : forall i k, ids_from t i -> k <= 2 * Z.of_N i ->
  sortedZ k (flat_map node_items t) = true.
Proof.
  induction t as [|n r IH]; intros i k Hid Hk; [reflexivity|].
  destruct Hid as [Hn Hr].
  change (flat_map node_items (n :: r)) with (node_items n ++ flat_map node_items r).
  unfold node_items at 1. destruct (has_text n); cbn [app sortedZ].
  - rewrite zkey_elem, zkey_text, Hn.
    rewrite (IH (i + 1)%N _ Hr) by lia. lia.
  - rewrite zkey_elem, Hn.
    rewrite (IH (i + 1)%N _ Hr) by lia. lia.
Qed.

Lemma all_items_sorted t : wf_tree t -> sortedZ (-1) (all_items t) = true.
Proof.
  intro H. unfold all_items. cbn [sortedZ]. rewrite zkey_root.
  rewrite (node_items_sorted t 0%N 0 H) by lia. reflexivity.
Qed.

(* ------------------------------------------------------------------------------------------------ *)
(* union                                                                                            *)
(* ------------------------------------------------------------------------------------------------ *)
Lemma merge_nil_l l : merge_items [] l = l.
Proof. destruct l; reflexivity. Qed.

Lemma merge_nil_r l : merge_items l [] = l.
Proof. destruct l; reflexivity. Qed.

Lemma merge_cons a r1 b r2 :
  merge_items (a :: r1) (b :: r2) =
  match (item_key a ?= item_key b)%N with
  | Lt => a :: merge_items r1 (b :: r2)
  | Eq => a :: merge_items r1 r2
  | Gt => b :: merge_items (a :: r1) r2
  end.
Proof. reflexivity. Qed.

Lemma merge_sortedZ l1 : forall l2 k, sortedZ k l1 = true -> sortedZ k l2 = true ->
  sortedZ k (merge_items l1 l2) = true.
Proof.
  induction l1 as [|a r1 IH1]; intros l2 k H1 H2; [rewrite merge_nil_l; assumption|].
  revert k H1 H2. induction l2 as [|b r2 IH2]; intros k H1 H2; [rewrite merge_nil_r; assumption|].
  rewrite merge_cons.
  pose proof (sortedZ_head _ _ _ H1) as Ha. pose proof (sortedZ_head _ _ _ H2) as Hb.
  pose proof (sortedZ_tail _ _ _ H1) as Ta. pose proof (sortedZ_tail _ _ _ H2) as Tb.
  destruct (item_key a ?= item_key b)%N eqn:Hc.
  - apply N.compare_eq in Hc. cbn [sortedZ]. apply andb_true_iff. split; [apply Z.ltb_lt; lia|].
    apply IH1; [assumption|]. unfold zkey in *. rewrite Hc. assumption.
  - pose proof (proj1 (N.compare_lt_iff _ _) Hc) as Hlt. cbn [sortedZ]. apply andb_true_iff. split; [apply Z.ltb_lt; lia|].
    apply IH1; [assumption|]. cbn [sortedZ]. apply andb_true_iff.
    split; [apply Z.ltb_lt; unfold zkey; lia|assumption].
  - pose proof (proj1 (N.compare_gt_iff _ _) Hc) as Hgt. cbn [sortedZ]. apply andb_true_iff. split; [apply Z.ltb_lt; lia|].
    apply IH2; [|assumption]. cbn [sortedZ]. apply andb_true_iff.
    split; [apply Z.ltb_lt; unfold zkey; lia|assumption].
Qed.

(* the union is commutative up to the identity of items (equal keys) *)
Lemma merge_comm_keys l1 : forall l2,
  map item_key (merge_items l1 l2) = map item_key (merge_items l2 l1).
Proof.
  induction l1 as [|a r1 IH1]; intro l2; [rewrite merge_nil_l, merge_nil_r; reflexivity|].
  induction l2 as [|b r2 IH2]; [rewrite merge_nil_l, merge_nil_r; reflexivity|].
  rewrite !merge_cons. rewrite (N.compare_antisym (item_key a) (item_key b)).
  destruct (item_key a ?= item_key b)%N eqn:Hc; cbn [CompOpp map].
  - apply N.compare_eq in Hc. rewrite Hc. f_equal. apply IH1.
  - f_equal. apply IH1.
  - f_equal. apply IH2.
Qed.

Lemma preds_ind_simple (P : preds -> Prop) :
  P PNil -> (forall p r, P r -> P (PCons p r)) -> forall ps, P ps.
Proof. intros H0 H1. fix F 1. intros [|p r]; [exact H0|apply H1, F]. Qed.

(* ------------------------------------------------------------------------------------------------ *)
(* predicates select a sub-sequence                                                                 *)
(* ------------------------------------------------------------------------------------------------ *)
Lemma apply_preds_sorted fl t cx rv ps : forall l l' k,
  apply_preds fl t cx rv ps l = Ok l' -> sortedZ k l = true -> sortedZ k l' = true.
Proof.
  induction ps as [|p r IH] using preds_ind_simple; intros l l' k H Hs.
  - cbn in H. inversion H; subst. assumption.
  - cbn [apply_preds] in H.
    match type of H with bind ?x _ = _ => destruct x as [l1|] eqn:Hf end; cbn [bind] in H; [|discriminate].
    eapply IH; [exact H|]. eapply subseq_sortedZ; [eapply filter_idx_subseq; exact Hf|assumption].
Qed.

(* as coded text(): the text nodes of the term nodes of a sorted set are sorted *)
Lemma text_map_sortedZ S : forall k, sortedZ k S = true -> sortedZ (k + 1) (flat_map text_of_item S) = true.
Proof.
  induction S as [|a r IH]; intros k H; [reflexivity|].
  pose proof (sortedZ_head _ _ _ H) as Ha. pose proof (sortedZ_tail _ _ _ H) as Ta.
  change (flat_map text_of_item (a :: r)) with (text_of_item a ++ flat_map text_of_item r).
  assert (Hrest : sortedZ (k + 1) (flat_map text_of_item r) = true).
  { eapply sortedZ_weaken; [|apply IH; exact Ta]. lia. }
  destruct a as [|n|n]; cbn [text_of_item app]; try exact Hrest.
  destruct (is_term n); cbn [app]; [|exact Hrest].
  cbn [sortedZ]. rewrite zkey_text. rewrite zkey_elem in Ha, Ta.
  apply andb_true_iff. split; [apply Z.ltb_lt; lia|].
  replace (2 * Z.of_N (x_id n) + 2) with ((2 * Z.of_N (x_id n) + 1) + 1) by lia.
  apply IH. exact Ta.
Qed.

Lemma text_map_sorted S : sortedZ (-1) S = true -> sortedZ (-1) (flat_map text_of_item S) = true.
Proof. intro H. eapply sortedZ_weaken; [|apply text_map_sortedZ; exact H]. lia. Qed.

Lemma fold_merge_sorted (ap : list item -> res (list item)) (cand : item -> list item) :
  (forall c, sortedZ (-1) (cand c) = true) ->
  (forall l l', sortedZ (-1) l = true -> ap l = Ok l' -> sortedZ (-1) l' = true) ->
  forall S acc r,
    sortedZ (-1) acc = true ->
    fold_res (fun acc c => bind (ap (cand c)) (fun l => Ok (merge_items acc l))) S acc = Ok r ->
    sortedZ (-1) r = true.
Proof.
  intros Hc Hap. induction S as [|c S IH]; intros acc r Hacc H; cbn [fold_res] in H.
  - inversion H; subst. assumption.
  - destruct (ap (cand c)) as [l|] eqn:Hl; cbn [bind] in H; [|discriminate].
    eapply IH; [|exact H]. apply merge_sortedZ; [assumption|]. eapply Hap; [apply Hc|exact Hl].
Qed.

(* ------------------------------------------------------------------------------------------------ *)
(* one step                                                                                         *)
(* ------------------------------------------------------------------------------------------------ *)
Lemma step_union_sorted fl t ax nt S : wf_tree t -> sortedZ (-1) (step_union fl t ax nt S) = true.
Proof. intro H. unfold step_union. apply filter_sortedZ. apply all_items_sorted. exact H. Qed.

Lemma cands_sorted fl t ax nt c : wf_tree t -> sortedZ (-1) (cands fl t ax nt c) = true.
Proof. intro H. unfold cands. apply filter_sortedZ. apply all_items_sorted. exact H. Qed.

Lemma step_body_sorted fl t S0 ds ax nt ap r :
  wf_tree t ->
  sortedZ (-1) S0 = true ->
  (forall rv l l', sortedZ (-1) l = true -> ap rv l = Ok l' -> sortedZ (-1) l' = true) ->
  step_body fl t S0 ds ax nt ap = Ok (VSet r) ->
  sortedZ (-1) r = true.
Proof.
  intros Hwf HS0 Hap H. unfold step_body in H.
  destruct (is_ns_axis ax).
  { destruct (f_nsaxis fl); inversion H; reflexivity. }
  destruct (is_attr_axis ax).
  { inversion H; reflexivity. }
  set (S := if ds then step_union fl t AxDescendantOrSelf TNode S0 else S0) in *.
  assert (HS : sortedZ (-1) S = true).
  { subst S. destruct ds; [apply step_union_sorted; assumption|assumption]. }
  match type of H with (if ?c then _ else _) = _ => destruct c end.
  - (* as coded text() *)
    match type of H with bind ?x _ = _ => destruct x as [l|] eqn:Hl end; cbn [bind] in H; [|discriminate].
    inversion H; subst r. eapply Hap; [|exact Hl].
    destruct (is_child_axis ax); [apply text_map_sorted; exact HS|reflexivity].
  - destruct (f_predglobal fl).
    + match type of H with bind ?x _ = _ => destruct x as [l|] eqn:Hl end; cbn [bind] in H; [|discriminate].
      inversion H; subst r. eapply Hap; [|exact Hl]. apply step_union_sorted. exact Hwf.
    + match type of H with bind ?x _ = _ => destruct x as [l|] eqn:Hl end; cbn [bind] in H; [|discriminate].
      inversion H; subst r.
      refine (fold_merge_sorted (fun l0 => ap _ l0) (cands fl t ax nt) _ _ S [] l _ Hl).
      * intro c. apply cands_sorted. exact Hwf.
      * intros l0 l' Hs0 Hl0. eapply Hap; eauto.
      * reflexivity.
Qed.

(* ------------------------------------------------------------------------------------------------ *)
(* every node-set value is in document order without duplicates                                     *)
(* ------------------------------------------------------------------------------------------------ *)
Lemma fun1_noset fl t f v l : fun1 fl t f v = Ok (VSet l) -> False.
Proof. unfold fun1. destruct f; try discriminate; destruct v; discriminate. Qed.

Lemma fun2_noset fl t f a b l : fun2 fl t f a b = Ok (VSet l) -> False.
Proof. unfold fun2. destruct f; discriminate. Qed.

Lemma fun3_noset fl t f a b c l : fun3 fl t f a b c = Ok (VSet l) -> False.
Proof. unfold fun3. destruct f; discriminate. Qed.

Lemma singleton_sorted it : sortedZ (-1) [it] = true.
Proof. cbn. unfold zkey. replace (-1 <? Z.of_N (item_key it)) with true by lia. reflexivity. Qed.

Theorem eval_sortedZ fl t : wf_tree t ->
  forall e cx l, eval fl t cx e = Ok (VSet l) -> sortedZ (-1) l = true.
Proof.
  intros Hwf.
  induction e as [| |base IHb ds ax nt ps|e' IHe ps|a IHa b IHb|a IHa b IHb|op a IHa b IHb|op a IHa b IHb|a IHa
                 |a IHa b IHb|s|s|f|f a IHa|f a IHa b IHb|f a IHa b IHb c IHc];
    intros cx l H; cbn [eval] in H.
  - inversion H. apply singleton_sorted.
  - inversion H. apply singleton_sorted.
  - destruct (eval fl t cx base) as [bv|] eqn:Hb; cbn [bind] in H; [|discriminate].
    destruct bv as [S0|s|x|bb].
    + refine (step_body_sorted fl t S0 ds ax nt _ l Hwf (IHb _ _ Hb) _ H).
      intros rv l0 l' Hs Hl. eapply apply_preds_sorted; [exact Hl|exact Hs].
    + discriminate.
    + discriminate.
    + discriminate.
  - destruct (eval fl t cx e') as [v|] eqn:He; cbn [bind] in H; [|discriminate].
    destruct v as [l0|s|x|bb]; try discriminate.
    match type of H with bind ?x _ = _ => destruct x as [l1|] eqn:Hl end; cbn [bind] in H; [|discriminate].
    inversion H; subst l. eapply apply_preds_sorted; [exact Hl|]. eapply IHe; exact He.
  - destruct (eval fl t cx a) as [va|]; cbn [bind] in H; [|discriminate].
    destruct (to_bool va); [discriminate|].
    destruct (eval fl t cx b); cbn [bind] in H; discriminate.
  - destruct (eval fl t cx a) as [va|]; cbn [bind] in H; [|discriminate].
    destruct (to_bool va); [|discriminate].
    destruct (eval fl t cx b); cbn [bind] in H; discriminate.
  - destruct (eval fl t cx a); cbn [bind] in H; [|discriminate].
    destruct (eval fl t cx b); cbn [bind] in H; discriminate.
  - destruct (eval fl t cx a); cbn [bind] in H; [|discriminate].
    destruct (eval fl t cx b); cbn [bind] in H; discriminate.
  - destruct (eval fl t cx a); cbn [bind] in H; discriminate.
  - destruct (eval fl t cx a) as [va|] eqn:Ha; cbn [bind] in H; [|discriminate].
    destruct (eval fl t cx b) as [vb|] eqn:Hb; cbn [bind] in H; [|discriminate].
    destruct va as [l1|s|x|bb]; try discriminate. destruct vb as [l2|s|x|bb]; try discriminate.
    inversion H; subst l. apply merge_sortedZ; [eapply IHa; exact Ha|eapply IHb; exact Hb].
  - discriminate.
  - discriminate.
  - destruct f; try discriminate; try (inversion H; apply singleton_sorted);
      try (exfalso; eapply fun1_noset; exact H).
  - destruct (eval fl t cx a) as [va|]; cbn [bind] in H; [|discriminate].
    exfalso. eapply fun1_noset; exact H.
  - destruct (eval fl t cx a) as [va|]; cbn [bind] in H; [|discriminate].
    destruct (eval fl t cx b) as [vb|]; cbn [bind] in H; [|discriminate].
    exfalso. eapply fun2_noset; exact H.
  - destruct (eval fl t cx a) as [va|]; cbn [bind] in H; [|discriminate].
    destruct (eval fl t cx b) as [vb|]; cbn [bind] in H; [|discriminate].
    destruct (eval fl t cx c) as [vc|]; cbn [bind] in H; [|discriminate].
    exfalso. eapply fun3_noset; exact H.
Qed.

(* in the vocabulary of XPathTree: strictly increasing keys = document order, no duplicates *)
Theorem eval_nodeset_sorted_nodup fl t : wf_tree t ->
  forall e cx l, eval fl t cx e = Ok (VSet l) -> sorted_items l = true.
Proof. intros Hwf e cx l H. rewrite sorted_items_Z. eapply eval_sortedZ; eauto. Qed.

Lemma sortedZ_nodup l : forall k, sortedZ k l = true -> NoDup (map item_key l).
Proof.
  induction l as [|a r IH]; intros k H; [constructor|].
  cbn [map]. constructor; [|eapply IH; eapply sortedZ_tail; exact H].
  intro Hin. apply in_map_iff in Hin. destruct Hin as [m [Hk Hm]].
  pose proof (sortedZ_all_gt _ _ (sortedZ_tail _ _ _ H) m Hm). unfold zkey in *. lia.
Qed.

Corollary eval_nodeset_nodup fl t : wf_tree t ->
  forall e cx l, eval fl t cx e = Ok (VSet l) -> NoDup (map item_key l).
Proof. intros Hwf e cx l H. eapply sortedZ_nodup. eapply eval_sortedZ; eauto. Qed.

(* ------------------------------------------------------------------------------------------------ *)
(* laws                                                                                             *)
(* ------------------------------------------------------------------------------------------------ *)
(* a | b and b | a select the same nodes *)
Theorem union_comm fl t cx a b l1 l2 :
  eval fl t cx (EUnion a b) = Ok (VSet l1) -> eval fl t cx (EUnion b a) = Ok (VSet l2) ->
  map item_key l1 = map item_key l2.
Proof.
  cbn [eval]. intros H1 H2.
  destruct (eval fl t cx a) as [va|]; cbn [bind] in *; [|discriminate].
  destruct (eval fl t cx b) as [vb|]; cbn [bind] in *; [|discriminate].
  destruct va as [la|s|x|bb]; try discriminate; destruct vb as [lb|s|x|bb]; try discriminate.
  inversion H1; inversion H2; subst. apply merge_comm_keys.
Qed.

Lemma filter_idx_all_true f l : forall i, (forall it j, f it j = Ok true) -> filter_idx f l i = Ok l.
Proof.
  induction l as [|a r IH]; intros i Hf; cbn [filter_idx]; [reflexivity|].
  rewrite Hf. cbn [bind]. rewrite IH by assumption. reflexivity.
Qed.

(* e[true()] = e : a predicate that is true for every node filters nothing *)
Theorem predicate_true_identity fl t cx rv r l :
  apply_preds fl t cx rv (PCons (EFun0 FTrue) r) l = apply_preds fl t cx rv r l.
Proof.
  cbn [apply_preds]. rewrite filter_idx_all_true; [reflexivity|].
  intros it j. reflexivity.
Qed.

Lemma eval_filter_eq fl t cx e ps :
  eval fl t cx (EFilter e ps) =
  bind (eval fl t cx e) (fun v =>
    match v with
    | VSet l => bind (apply_preds fl t cx false ps l) (fun l' => Ok (VSet l'))
    | _ => Err E_TYPE
    end).
Proof. reflexivity. Qed.

Lemma eval_step_eq fl t cx base ds ax nt ps :
  eval fl t cx (EStep base ds ax nt ps) =
  bind (eval fl t cx base) (fun bv =>
    match bv with
    | VSet S0 => step_body fl t S0 ds ax nt (fun rv l => apply_preds fl t cx rv ps l)
    | _ => Err E_TYPE
    end).
Proof. reflexivity. Qed.

Corollary filter_true_identity fl t cx e l :
  eval fl t cx e = Ok (VSet l) -> eval fl t cx (EFilter e (PCons (EFun0 FTrue) PNil)) = Ok (VSet l).
Proof.
  intro H. rewrite eval_filter_eq, H. cbn [bind]. rewrite predicate_true_identity. reflexivity.
Qed.

(* the child step of the reference semantics selects, from one context node, exactly the items whose parent it is
   and that pass the node test, in document order *)
Theorem child_step_is_filter_of_children t cx nt :
  eval spec_flags t cx (EStep ECtx false AxChild nt PNil) =
  Ok (VSet (filter (fun m => is_parent (c_item cx) m && node_test spec_flags nt (c_item cx) m) (all_items t))).
Proof.
  rewrite eval_step_eq. cbn [eval bind]. unfold step_body.
  cbn [is_ns_axis is_attr_axis is_child_axis spec_flags f_nsaxis f_text
       f_predglobal andb orb negb bind fold_res reverse_axis apply_preds].
  rewrite merge_nil_l. reflexivity.
Qed.

(* ------------------------------------------------------------------------------------------------ *)
(* a union of selections from the document-order list is the selection by the disjunction           *)
(* ------------------------------------------------------------------------------------------------ *)
Lemma filter_all_gt (h : item -> bool) L k : sortedZ k L = true -> forall m, In m (filter h L) -> k < zkey m.
Proof. intros Hs m Hin. apply filter_In in Hin. eapply sortedZ_all_gt; [exact Hs|apply Hin]. Qed.

Lemma merge_filter f g L : forall k, sortedZ k L = true ->
  merge_items (filter f L) (filter g L) = filter (fun m => f m || g m) L.
Proof.
  induction L as [|a L' IH]; intros k Hs; [reflexivity|].
  pose proof (sortedZ_tail _ _ _ Hs) as Ta. specialize (IH _ Ta).
  cbn [filter]. destruct (f a) eqn:Hf, (g a) eqn:Hg; cbn [orb].
  - rewrite merge_cons, N.compare_refl. f_equal. exact IH.
  - destruct (filter g L') as [|b G''] eqn:HG.
    + rewrite merge_nil_r in *. f_equal. exact IH.
    + rewrite merge_cons.
      assert (Hb : zkey a < zkey b).
      { eapply (filter_all_gt g L' _ Ta). rewrite HG. left. reflexivity. }
      replace (item_key a ?= item_key b)%N with Lt
        by (symmetry; apply N.compare_lt_iff; unfold zkey in Hb; lia).
      f_equal. exact IH.
  - destruct (filter f L') as [|b F''] eqn:HF.
    + rewrite merge_nil_l in *. f_equal. exact IH.
    + rewrite merge_cons.
      assert (Hb : zkey a < zkey b).
      { eapply (filter_all_gt f L' _ Ta). rewrite HF. left. reflexivity. }
      replace (item_key b ?= item_key a)%N with Gt
        by (symmetry; apply N.compare_gt_iff; unfold zkey in Hb; lia).
      f_equal. exact IH.
  - exact IH.
Qed.

Lemma filter_false (L : list item) : filter (fun _ => false) L = [].
Proof. induction L; cbn; auto. Qed.

Lemma fold_merge_cands (sel : item -> item -> bool) L k : sortedZ k L = true ->
  forall S done,
    fold_res (fun acc c => bind (Ok (filter (sel c) L)) (fun l => Ok (merge_items acc l))) S
             (filter (fun m => existsb (fun c => sel c m) done) L)
    = Ok (filter (fun m => existsb (fun c => sel c m) (done ++ S)) L).
Proof.
  intro Hs. induction S as [|c S IH]; intro done; cbn [fold_res bind].
  - rewrite app_nil_r. reflexivity.
  - rewrite (merge_filter _ _ L k Hs).
    replace (done ++ c :: S) with ((done ++ [c]) ++ S) by (rewrite <- app_assoc; reflexivity).
    rewrite <- IH. f_equal. apply filter_ext. intro m.
    rewrite existsb_app. cbn [existsb]. rewrite orb_false_r. reflexivity.
Qed.

(* without predicates a step selects the union over the context nodes: the per-context-node definition of the
   recommendation and the selection from the whole document coincide *)
Theorem step_no_preds_is_union t cx base ax nt S0 : wf_tree t ->
  is_ns_axis ax = false -> is_attr_axis ax = false ->
  eval spec_flags t cx base = Ok (VSet S0) ->
  eval spec_flags t cx (EStep base false ax nt PNil) = Ok (VSet (step_union spec_flags t ax nt S0)).
Proof.
  intros Hwf Hns Hat Hb. rewrite eval_step_eq, Hb. cbn [bind]. unfold step_body. rewrite Hns, Hat.
  cbn [spec_flags f_text f_predglobal andb orb negb bind apply_preds].
  pose proof (fold_merge_cands (fun c m => axis_rel spec_flags ax c m && node_test spec_flags nt c m)
                (all_items t) (-1) (all_items_sorted t Hwf) S0 []) as HF.
  cbn [existsb app bind] in HF. rewrite filter_false in HF.
  unfold cands. rewrite HF. reflexivity.
Qed.

(* '//' is short for /descendant-or-self::node()/  (XPath 1.0 section 2.5) *)
Theorem descendant_or_self_decomposes t cx base ax nt S0 : wf_tree t ->
  is_ns_axis ax = false -> is_attr_axis ax = false ->
  eval spec_flags t cx base = Ok (VSet S0) ->
  eval spec_flags t cx (EStep base true ax nt PNil) =
  eval spec_flags t cx (EStep (EStep base false AxDescendantOrSelf TNode PNil) false ax nt PNil).
Proof.
  intros Hwf Hns Hat Hb.
  rewrite (step_no_preds_is_union t cx (EStep base false AxDescendantOrSelf TNode PNil) ax nt
             (step_union spec_flags t AxDescendantOrSelf TNode S0) Hwf Hns Hat)
    by (apply step_no_preds_is_union; auto).
  rewrite eval_step_eq, Hb. cbn [bind]. unfold step_body. rewrite Hns, Hat.
  cbn [spec_flags f_text f_predglobal andb orb negb bind apply_preds].
  pose proof (fold_merge_cands (fun c m => axis_rel spec_flags ax c m && node_test spec_flags nt c m)
                (all_items t) (-1) (all_items_sorted t Hwf)
                (step_union spec_flags t AxDescendantOrSelf TNode S0) []) as HF.
  cbn [existsb app bind] in HF. rewrite filter_false in HF.
  unfold cands. rewrite HF. reflexivity.
Qed.

(* ------------------------------------------------------------------------------------------------ *)
(* the key predicate: what the hash fast path of the code has to agree with                         *)
(* ------------------------------------------------------------------------------------------------ *)
Lemma filter_idx_pure (g : item -> bool) l : forall i, filter_idx (fun it _ => Ok (g it)) l i = Ok (filter g l).
Proof.
  induction l as [|a r IH]; intro i; cbn [filter_idx filter bind]; [reflexivity|].
  rewrite IH. cbn [bind]. destruct (g a); reflexivity.
Qed.

Lemma cmp_set_str_spec t l s :
  cmp_set_str spec_flags t CEq l s = existsb (fun it => beq_bytes (string_value spec_flags t it) s) l.
Proof.
  unfold cmp_set_str. cbn [is_relational].
  induction l as [|a r IH]; cbn [cmp_set_str_eq existsb]; [reflexivity|].
  unfold canon_for. cbn [spec_flags f_canon]. rewrite IH. reflexivity.
Qed.

(* l[k='v'] from one context node: exactly the children named l that have a child named k whose string value is v
   (the statement holds for any node name l; for a keyed list with key k this is the lookup by key value) *)
Lemma filter_idx_ext f g l : (forall it i, f it i = g it i) -> forall i, filter_idx f l i = filter_idx g l i.
Proof.
  intro H. induction l as [|a r IH]; intro i; cbn [filter_idx]; [reflexivity|]. rewrite H, IH. reflexivity.
Qed.

(* the predicate [k='v'] on a context item: some child named k has string value v *)
Lemma key_pred_value t cxi m k v :
  eval spec_flags t cxi (ECmp CEq (EStep ECtx false AxChild (TName (Some m) k) PNil) (ELit v)) =
  Ok (VBool (existsb (fun d => beq_bytes (string_value spec_flags t d) v)
                     (cands spec_flags t AxChild (TName (Some m) k) (c_item cxi)))).
Proof.
  cbn [eval bind]. unfold step_body.
  cbn [is_ns_axis is_attr_axis is_child_axis spec_flags f_nsaxis f_text
       f_predglobal andb orb negb bind fold_res reverse_axis apply_preds].
  rewrite merge_nil_l. cbn [bind cmp_values]. rewrite cmp_set_str_spec. reflexivity.
Qed.

Theorem fastpath_equiv t cx m ln k v :
  eval spec_flags t cx
    (EStep ECtx false AxChild (TName (Some m) ln)
       (PCons (ECmp CEq (EStep ECtx false AxChild (TName (Some m) k) PNil) (ELit v)) PNil)) =
  Ok (VSet (filter (fun inst => existsb (fun d => beq_bytes (string_value spec_flags t d) v)
                                        (cands spec_flags t AxChild (TName (Some m) k) inst))
                   (cands spec_flags t AxChild (TName (Some m) ln) (c_item cx)))).
Proof.
  rewrite eval_step_eq. cbn [eval bind]. unfold step_body.
  cbn [is_ns_axis is_attr_axis is_child_axis spec_flags f_nsaxis f_text
       f_predglobal andb orb negb bind fold_res reverse_axis].
  change (apply_preds spec_flags t cx ?b
            (PCons (ECmp CEq (EStep ECtx false AxChild (TName (Some m) k) PNil) (ELit v)) PNil) ?l)
    with (bind (filter_idx (fun it i =>
                  bind (eval spec_flags t
                          {| c_item := it; c_pos := (if b then N.of_nat (length l) + 1 - i else i)%N;
                             c_size := N.of_nat (length l); c_cur := c_cur cx |}
                          (ECmp CEq (EStep ECtx false AxChild (TName (Some m) k) PNil) (ELit v)))
                       (fun v0 => Ok (pred_true v0 (if b then N.of_nat (length l) + 1 - i else i)%N)))
                  l 1%N)
               (fun l' => Ok l')).
  erewrite filter_idx_ext.
  2:{ intros it i. rewrite key_pred_value. cbn [bind pred_true to_bool c_item]. reflexivity. }
  rewrite filter_idx_pure. cbn [bind]. rewrite merge_nil_l. reflexivity.
Qed.
