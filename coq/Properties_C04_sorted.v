(* Properties_C04_sorted.v - property C04 (the data tree stays canonical and searchable under any edit history),
   ORDERING KERNEL: theorem statements only.
   Model: RBTree.v (rb_insert_node, rb_insert_color, rb_remove, rb_remove_color, rb_find, rb_prev, rb_next of
   src/tree_data_sorted.c, zipper formulation that follows the C control flow case by case) and Sorted.v
   (lyds_insert, lyds_link_data_node, lazy tree creation, lyds_unlink, lyd_dup, lyd_merge with the pool of recycled
   nodes (lyds_insert2), lyds_split, lyds_merge: sibling sequence + tree of one system-ordered (leaf-)list).
   Proofs: RBTreeP.v, SortedP.v.
   The compare callback is ANY total preorder [cmp] (the type plugin's sort callback); the order axioms are
   explicit premises.  Not covered here (explored by oracles only): schema order between different nodes,
   user-ordered lists, opaque nodes, the children hash table, source lists with equal keys in lyd_merge,
   link-level faithfulness (parent fields, metadata placement - tied by the driver's read-only checker). *)
From Coq Require Import Permutation.
From LY Require Import Base RBTree Sorted RBTreeP SortedP IntLex Dec64.

(* cmp a b = Gt iff the C callback returns > 0: antisymmetric, and `not greater` is transitive *)
Definition total_preorder {A} (cmp : A -> A -> comparison) : Prop :=
  (forall a b, cmp a b = CompOpp (cmp b a)) /\
  (forall a b c, cmp a b <> Gt -> cmp b c <> Gt -> cmp a c <> Gt).

(* ideq is pointer equality of data nodes *)
Definition is_identity {A} (ideq : A -> A -> bool) : Prop := forall a b, ideq a b = true <-> a = b.

(* RBTreeP.sorted cmp l: every element is `not greater` than every later one.
   RBTreeP.rb_inv cmp t: sorted cmp (inorder t) (search order, stated on the in-order walk), the root is black,
   no red node has a red child and all root-to-leaf paths have the same number of black nodes (rb_shape).
   RBTree.rb_check is the executable checker the correspondence run evaluates after every operation. *)

(* Inserting into a search tree makes the in-order walk the STABLE insert of the old walk: the new node comes
   after every node that is not greater, in particular after the existing nodes with an equal key. *)
Theorem C04_rb_inorder_insert :
  forall A (cmp : A -> A -> comparison), total_preorder cmp ->
  forall (t t' : tree A) x, sorted cmp (inorder t) -> rb_insert cmp t x = Some t' ->
    inorder t' = stable_insert cmp (inorder t) x.
Proof. intros A cmp (H1 & H2) t t' x. apply rb_insert_inorder; assumption. Qed.
Print Assumptions C04_rb_inorder_insert.

(* Removing the node at in-order position i (any tree, any colours) removes exactly that element of the walk. *)
Theorem C04_rb_inorder_remove :
  forall A (t t' : tree A) i, rb_remove t i = Some t' -> inorder t' = remove_nth i (inorder t).
Proof.
  intros A t t' i. apply (rb_remove_inorder A (fun _ _ => Eq)); [reflexivity|].
  unfold le. intros a b c H _. exact H.
Qed.
Print Assumptions C04_rb_inorder_remove.

(* Search order, black root, no red-red, equal black height are preserved by insertion and by removal of any
   existing node; both always succeed (no unchecked dereference meets NULL). *)
Theorem C04_rb_inv_preserved :
  forall A (cmp : A -> A -> comparison), total_preorder cmp ->
  forall t : tree A, rb_inv cmp t ->
    (forall x, exists t', rb_insert cmp t x = Some t' /\ rb_inv cmp t') /\
    (forall i, i < size t -> exists t', rb_remove t i = Some t' /\ rb_inv cmp t').
Proof.
  intros A cmp (H1 & H2) t Hinv. split.
  - intro x. destruct (rb_insert_inv A cmp H1 H2 t x Hinv) as (t' & E & Hi & _). eauto.
  - intros i Hi. destruct (rb_remove_inv A cmp H1 H2 t i Hinv Hi) as (t' & E & Hi' & _). eauto.
Qed.
Print Assumptions C04_rb_inv_preserved.

(* rb_remove_color reads RBN_COLOR(tmp), RBN_LEFT(tmp) of the sibling and rotates without NULL tests,
   rb_insert_color reads the grandparent without a NULL test: in the model these reads answer None when the
   pointer would be NULL.  On a red-black tree they never do. *)
Theorem C04_rb_remove_no_null_deref :
  forall A (cmp : A -> A -> comparison), total_preorder cmp ->
  forall t : tree A, rb_inv cmp t ->
    (forall i, i < size t -> rb_remove t i <> None) /\ (forall x, rb_insert cmp t x <> None).
Proof.
  intros A cmp (H1 & H2) t Hinv. split.
  - intros i Hi. destruct (rb_remove_inv A cmp H1 H2 t i Hinv Hi) as (t' & E & _). congruence.
  - intro x. destruct (rb_insert_inv A cmp H1 H2 t x Hinv) as (t' & E & _). congruence.
Qed.
Print Assumptions C04_rb_remove_no_null_deref.

(* The executable checker is sound: what it accepts satisfies the invariant. *)
Theorem C04_rb_check_sound :
  forall A (cmp : A -> A -> comparison), total_preorder cmp ->
  forall t : tree A, rb_check cmp t = true -> rb_inv cmp t.
Proof. intros A cmp (H1 & H2) t. apply rb_check_sound; assumption. Qed.
Print Assumptions C04_rb_check_sound.

(* height <= 2 log2 (n + 1) *)
Theorem C04_rb_height_log :
  forall A (t : tree A), rb_shape t -> height t <= 2 * Nat.log2 (size t + 1).
Proof.
  intros A t. apply (rb_height_log A (fun _ _ => Eq)); [reflexivity|].
  unfold le. intros a b c H _. exact H.
Qed.
Print Assumptions C04_rb_height_log.

(* rb_prev(rbn) / rb_next(rbn) are the in-order neighbours of rbn (what lyds_link_data_node relies on). *)
Theorem C04_rb_prev_next :
  forall A (p : path A) c (l : tree A) k r,
    rb_prev p (Node c l k r) = last_opt (before p ++ inorder l) /\
    rb_next p (Node c l k r) = hd_error (inorder r ++ after p).
Proof.
  intros A p c l k r. split; [apply rb_prev_spec|apply rb_next_spec].
Qed.
Print Assumptions C04_rb_prev_next.

(* rb_find(rbt, node) finds a node iff a full scan of the in-order sequence finds it, and what it answers is
   that very node. *)
Theorem C04_find_iff_scan :
  forall A (cmp : A -> A -> comparison) (ideq : A -> A -> bool), total_preorder cmp -> is_identity ideq ->
  forall (t : tree A) x, sorted cmp (inorder t) ->
    (In x (inorder t) <-> exists i, rb_find cmp ideq t x = Some i) /\
    (forall i, rb_find cmp ideq t x = Some i -> nth_error (inorder t) i = Some x).
Proof.
  intros A cmp ideq (H1 & H2) Hid t x Hs.
  assert (Hsound : forall i, rb_find cmp ideq t x = Some i -> nth_error (inorder t) i = Some x)
    by (intro i; apply (rb_find_sound A cmp H1 H2 ideq Hid)).
  split; [split|exact Hsound].
  - apply (rb_find_complete A cmp H1 H2 ideq Hid); assumption.
  - intros (i & Hi). eapply nth_error_In, Hsound, Hi.
Qed.
Print Assumptions C04_find_iff_scan.

(* Every history of insertions and removals (of existing positions) that starts from the empty tree runs
   without NULL dereference; the tree satisfies the invariant; its in-order walk is the history replayed on
   the abstract sequence (stable insert / delete position) and is sorted.  If every inserted node is a new
   one, the walk is a permutation of the live nodes and nodes with equal keys stand in insertion order
   (arrivals = the live nodes in the order of their insertion). *)
Theorem C04_sorted_history :
  forall A (cmp : A -> A -> comparison) (ideq : A -> A -> bool), total_preorder cmp -> is_identity ideq ->
  forall ops : list (op A), ops_valid ops 0 ->
  exists t, rb_run cmp ops = Some t /\ rb_inv cmp t /\
            inorder t = seq_run cmp ops /\ sorted cmp (inorder t) /\
            (ops_fresh cmp ops [] ->
               Permutation (inorder t) (arrivals cmp ideq ops [] []) /\
               forall x, filter (same_key cmp x) (inorder t) = filter (same_key cmp x) (arrivals cmp ideq ops [] [])).
Proof.
  intros A cmp ideq (H1 & H2) Hid ops Hv.
  destruct (rb_history A cmp H1 H2 ops Hv) as (t & E & Hinv & Hi & Hs). exists t.
  repeat split; try assumption; try (destruct Hinv as (? & ? & ?); assumption);
    rewrite Hi; apply (rb_history_stable A cmp H1 H2 ideq Hid ops); assumption.
Qed.
Print Assumptions C04_sorted_history.

(* When no two keys compare equal, any two insertion orders of the same nodes give the same in-order walk. *)
Theorem C04_insert_order_independent :
  forall A (cmp : A -> A -> comparison), total_preorder cmp ->
  forall l1 l2 : list A, Permutation l1 l2 ->
    (forall x y, In x l1 -> In y l1 -> cmp x y = Eq -> x = y) ->
  exists t1 t2, rb_run cmp (map Ins l1) = Some t1 /\ rb_run cmp (map Ins l2) = Some t2 /\ inorder t1 = inorder t2.
Proof. intros A cmp (H1 & H2). apply rb_insert_order_independent; assumption. Qed.
Print Assumptions C04_insert_order_independent.

(* ---- the (leaf-)list level: siblings + lyds_tree (Sorted.v) ---- *)

(* lyd_insert_node of a new instance: the leader's tree (created from the present instances if it does not exist
   yet) and the sibling links move together; the new sibling sequence is the stable insert into the present one,
   which is first sorted (stable insertion sort) when no tree existed. *)
Theorem C04_lyds_insert_spec :
  forall A (cmp : A -> A -> comparison) (ideq : A -> A -> bool), total_preorder cmp -> is_identity ideq ->
  forall (s : lst A) x b, lyds_ok cmp s -> ~ In x (sibs s) ->
  exists s', lyds_insert cmp ideq s x b = Some s' /\ lyds_ok cmp s' /\ sibs s' = insert_result cmp s x.
Proof. intros A cmp ideq (H1 & H2) Hid. apply lyds_insert_spec; assumption. Qed.
Print Assumptions C04_lyds_insert_spec.

(* lyd_unlink of the instance at sibling position i: rb_find finds its red-black node, the tree and the
   siblings lose the same element. *)
Theorem C04_lyds_unlink_spec :
  forall A (cmp : A -> A -> comparison) (ideq : A -> A -> bool), total_preorder cmp -> is_identity ideq ->
  forall (s : lst A) i, lyds_ok cmp s -> i < length (sibs s) ->
  exists s' b, lyds_unlink cmp ideq s i = Some (s', b) /\ lyds_ok cmp s' /\ sibs s' = remove_nth i (sibs s).
Proof. intros A cmp ideq (H1 & H2) Hid. apply lyds_unlink_spec; assumption. Qed.
Print Assumptions C04_lyds_unlink_spec.

(* Every history of insert / unlink calls on one system-ordered (leaf-)list that starts with no instance:
   the siblings are sorted, equal to the abstract history, and the leader's tree walks exactly the siblings. *)
Theorem C04_lyds_history :
  forall A (cmp : A -> A -> comparison) (ideq : A -> A -> bool), total_preorder cmp -> is_identity ideq ->
  forall ops : list (op A), ops_valid ops 0 -> ops_fresh cmp ops [] ->
  exists s', lyds_run cmp ideq ops (mkLst [] None) = Some s' /\ lyds_ok cmp s' /\
             sibs s' = seq_run cmp ops /\ sorted cmp (sibs s').
Proof. intros A cmp ideq (H1 & H2) Hid. apply lyds_history; assumption. Qed.
Print Assumptions C04_lyds_history.

(* ---- the premises are satisfiable: the orders proved total for the built-in types (C03) ---- *)

(* data nodes = (value, identity); the order of int8..int64 / decimal64 values is the sort callback of C03 *)
Theorem C04_int_order_instance :
  total_preorder (fun a b : Z * N => int_sort (fst a) (fst b)) /\
  total_preorder (fun a b : Z * N => dec64_sort (fst a) (fst b)) /\
  total_preorder elt_cmp /\ is_identity elt_ideq.
Proof.
  assert (Hz : total_preorder (fun a b : Z * N => Z.compare (fst a) (fst b))).
  { split.
    - intros a b. apply Z.compare_antisym.
    - intros a b c. rewrite !Z.compare_gt_iff. lia. }
  repeat split; try apply Hz.
  - unfold elt_ideq. intro H. apply andb_true_iff in H. destruct H as (Ha & Hb).
    apply Z.eqb_eq in Ha. apply N.eqb_eq in Hb. destruct a, b; cbn in *; congruence.
  - intros ->. unfold elt_ideq. now rewrite Z.eqb_refl, N.eqb_refl.
Qed.
Print Assumptions C04_int_order_instance.

Corollary C04_sorted_history_int :
  forall ops : list (op (Z * N)), ops_valid ops 0 ->
  exists t, rb_run elt_cmp ops = Some t /\ rb_inv elt_cmp t /\ inorder t = seq_run elt_cmp ops /\ sorted elt_cmp (inorder t).
Proof.
  intros ops Hv. destruct C04_int_order_instance as (_ & _ & Hc & Hid).
  destruct (C04_sorted_history _ elt_cmp elt_ideq Hc Hid ops Hv) as (t & E & Hinv & Hi & Hs & _). eauto.
Qed.
Print Assumptions C04_sorted_history_int.

Definition e (k : Z) (i : N) : Z * N := (k, i).

(* lyd_dup_siblings of the instances xs of a (leaf-)list into a parent that may already hold instances (lyd_dup of
   src/tree_data.c as of /repo 03a093d: the duplicates after the first are appended exactly when the first one is the
   only instance and the last sibling): no NULL dereference, the leader's tree walks the siblings, the siblings are
   the old ones plus the duplicates; they are sorted as soon as there is a tree, and sorting them (which the next
   sorted insert does when there is no tree yet) gives exactly the duplicates inserted one by one. *)
Theorem C04_lyds_dup_spec :
  forall A (cmp : A -> A -> comparison) (ideq : A -> A -> bool), total_preorder cmp -> is_identity ideq ->
  forall after src_meta (s : lst A) xs, lyds_ok cmp s -> NoDup (sibs s ++ xs) ->
  exists s', lyds_dup cmp ideq true after src_meta s xs = Some s' /\ lyds_ok cmp s' /\
             isort cmp (sibs s') = fold_left (stable_insert cmp) xs (isort cmp (sibs s)) /\
             Permutation (sibs s ++ xs) (sibs s') /\ (~ no_tree s' -> sorted cmp (sibs s')).
Proof. intros A cmp ideq (H1 & H2) Hid after sm. apply lyds_dup_spec; assumption. Qed.
Print Assumptions C04_lyds_dup_spec.

(* Regression: the code BEFORE /repo d989bef (fixed = false: the append path is kept whenever the duplicate is the last
   sibling) does not have this property: duplicating 3, 4 into a parent holding 1, 2 (built by sorted inserts, so
   with a tree) leaves 4 outside the tree, and the next sorted insert of 5 gives 1 2 3 5 4. *)
Example C04_lyds_dup_before_fix_refuted :
  exists (s : lst (Z * N)) xs x,
    lyds_ok elt_cmp s /\ NoDup (sibs s ++ xs) /\
    match lyds_dup elt_cmp elt_ideq false false false s xs with
    | Some s1 => match lyds_insert elt_cmp elt_ideq s1 x false with
                 | Some s2 => sibs s2 = [e 1 0; e 2 1; e 3 2; e 5 4; e 4 3]
                 | None => False
                 end
    | None => False
    end.
Proof.
  destruct (lyds_insert elt_cmp elt_ideq (mkLst [e 1 0] None) (e 2 1) false) as [s|] eqn:E; [|vm_compute in E; discriminate].
  exists s, [e 3 2; e 4 3], (e 5 4). vm_compute in E. injection E as <-. split; [|split].
  - split.
    + cbn. repeat constructor; cbn; intuition discriminate.
    + cbn [rbt]. split; [reflexivity|]. apply C04_rb_check_sound; [apply C04_int_order_instance|]. vm_compute. reflexivity.
  - cbn. repeat constructor; cbn; intuition discriminate.
  - vm_compute. reflexivity.
Qed.

(* Regression for /repo 03a093d: three instances that are NOT sorted in the source (4 2 0, e.g. a diff tree) duplicated
   into an empty parent keep their order (first by the default path, the others appended, no tree); the next sorted
   insert creates the tree and sorts them. *)
Example C04_lyds_dup_keeps_source_order :
  match lyds_dup elt_cmp elt_ideq true false false (mkLst [] None) [e 4 0; e 2 1; e 0 2] with
  | Some s1 => sibs s1 = [e 4 0; e 2 1; e 0 2] /\ rbt s1 = None /\
               match lyds_insert elt_cmp elt_ideq s1 (e 3 3) false with
               | Some s2 => sibs s2 = [e 0 2; e 2 1; e 3 3; e 4 0]
               | None => False
               end
  | None => False
  end.
Proof. vm_compute. repeat split. Qed.

(* lyd_merge_tree / lyd_merge_siblings for the instances xs of one (leaf-)list (source sibling order; no two of them
   compare equal - NoDup on identities is a premise, distinct keys an assumption of the model), with LYD_MERGE_DESTRUCT
   (lyds_pool_add, lyds_insert2, lyds_additionally_reuse_rb_tree: `pool` recycled red-black nodes, ANY number, so the
   pool may run dry at every point of the rebuild of the target's tree and of the inserts) or without (pool = 0):
   no NULL dereference, tree and siblings agree (lyds_ok), nothing is lost or doubled (the siblings are the old ones plus
   the source instances whose key was new: merge_news), and the result is the stable sorted merge of both runs: it is
   sorted as soon as there is a tree, and sorting it equals inserting the new instances one by one into the sorted target. *)
Theorem C04_lyd_merge_spec :
  forall A (cmp : A -> A -> comparison) (ideq : A -> A -> bool), total_preorder cmp -> is_identity ideq ->
  forall xs pool (s : lst A), lyds_ok cmp s -> NoDup (sibs s ++ xs) ->
  exists s', lyd_merge_list cmp ideq false pool s xs = Some s' /\ lyds_ok cmp s' /\
             isort cmp (sibs s') = fold_left (stable_insert cmp) (merge_news cmp (sibs s) xs) (isort cmp (sibs s)) /\
             Permutation (sibs s ++ merge_news cmp (sibs s) xs) (sibs s') /\
             (~ no_tree s' -> sorted cmp (sibs s')).
Proof. intros A cmp ideq (H1 & H2) Hid. apply lyd_merge_list_spec; assumption. Qed.
Print Assumptions C04_lyd_merge_spec.

(* Regression (seeded change C14-6, skip = true: lyds_additionally_reuse_rb_tree reports `next_node` instead of `iter` as
   the hand-over point when the pool runs dry): target 10 20 30 40 50 without tree, source 25 35 45 with its tree (3 recycled
   nodes): the instance 40, for which no recycled node was left, never gets into the tree, 45 is linked in front of it. *)
Example C04_lyd_merge_skip_refuted :
  match lyd_merge_list elt_cmp elt_ideq true 3 (mkLst [e 10 0; e 20 1; e 30 2; e 40 3; e 50 4] None) [e 25 5; e 35 6; e 45 7] with
  | Some s' => sibs s' = [e 10 0; e 20 1; e 25 5; e 30 2; e 35 6; e 45 7; e 40 3; e 50 4] /\
               match rbt s' with Some t => inorder t <> sibs s' | None => False end
  | None => False
  end /\
  match lyd_merge_list elt_cmp elt_ideq false 3 (mkLst [e 10 0; e 20 1; e 30 2; e 40 3; e 50 4] None) [e 25 5; e 35 6; e 45 7] with
  | Some s' => sibs s' = [e 10 0; e 20 1; e 25 5; e 30 2; e 35 6; e 40 3; e 45 7; e 50 4] /\
               match rbt s' with Some t => inorder t = sibs s' | None => False end
  | None => False
  end.
Proof. vm_compute. repeat split; discriminate. Qed.

(* lyd_unlink_siblings at the instance at position i of a (leaf-)list (lyds_split when i > 0): never a NULL dereference,
   the remaining list is exactly the first i instances and the split-off run exactly the others (nothing lost), the tree of
   the remaining list walks exactly its siblings, the run carries no tree (for i = 0 the whole list leaves with its tree). *)
Theorem C04_lyds_split_spec :
  forall A (cmp : A -> A -> comparison) (ideq : A -> A -> bool), total_preorder cmp -> is_identity ideq ->
  forall (s : lst A) i, lyds_ok cmp s -> i < length (sibs s) ->
  exists s1 s2, lyds_split cmp ideq s i = Some (s1, s2) /\ lyds_ok cmp s1 /\ lyds_ok cmp s2 /\
                sibs s1 = firstn i (sibs s) /\ sibs s2 = skipn i (sibs s).
Proof. intros A cmp ideq (H1 & H2) Hid. apply lyds_split_spec; assumption. Qed.
Print Assumptions C04_lyds_split_spec.

(* lyd_insert_child / lyd_insert_sibling of a chain of several siblings holding the run c of this (leaf-)list, into a
   parent whose list is s: lyds_merge with all its cases (lyds_merge_nodes1 with / without creating the target's tree
   first, lyds_merge_nodes2 front / among / back, lyds_merge_nodes3 in post-order of the source tree) or the plain move when
   the target has no instance.  Premise beyond the invariants: a target without tree that meets a source WITH tree is
   sorted (lyds_merge_nodes2 relies on it; the model answers None - the C code walks into NULL - otherwise).  Then: no NULL
   dereference, tree = siblings, nothing lost or doubled, and the result is the stable sorted merge merge_result. *)
Theorem C04_lyds_merge_spec :
  forall A (cmp : A -> A -> comparison) (ideq : A -> A -> bool), total_preorder cmp -> is_identity ideq ->
  forall s c : lst A, lyds_ok cmp s -> lyds_ok cmp c -> NoDup (sibs s ++ sibs c) ->
    (no_tree s -> ~ no_tree c -> sorted cmp (sibs s)) ->
  exists s', lyds_merge cmp ideq s c = Some s' /\ lyds_ok cmp s' /\
             Permutation (sibs s ++ sibs c) (sibs s') /\
             isort cmp (sibs s') = merge_result cmp s c /\
             (~ no_tree s' -> sorted cmp (sibs s')).
Proof. intros A cmp ideq (H1 & H2) Hid. apply lyds_merge_spec; assumption. Qed.
Print Assumptions C04_lyds_merge_spec.

(* Regression for /repo cefb23b (lyds_merge_nodes2 read *next_p uninitialised when lyds_merge_nodes2_back had nothing to
   move; witness `i-2 i0 s0 i0 m`): the run -2 0 with its tree merged into a target holding only 0: all source instances
   come before the target instance, the result is -2 0 0 with the tree moved to the new leader; and the merge of an
   UNSORTED tree-less target with a source tree is the case the code does not handle (None = NULL dereference). *)
Example C04_lyds_merge_nodes2_regression :
  match lyds_split elt_cmp elt_ideq (mkLst [e (-2) 0; e 0 1] (Some (Node Black Leaf (e (-2) 0) (Node Red Leaf (e 0 1) Leaf)))) 0 with
  | Some (s1, c) =>
      sibs s1 = [] /\
      match lyds_merge elt_cmp elt_ideq (mkLst [e 0 2] None) c with
      | Some s' => sibs s' = [e (-2) 0; e 0 1; e 0 2] /\ match rbt s' with Some t => inorder t = sibs s' /\ rb_check elt_cmp t = true | None => False end
      | None => False
      end /\
      lyds_merge elt_cmp elt_ideq (mkLst [e 3 2; e 1 3] None) c = None
  | None => False
  end.
Proof. vm_compute. repeat split. Qed.

(* a non-trivial value: 9 nodes with three equal keys inserted in zig-zag order, two removals; the tree passes
   the checker, has the invariant, and the equal keys 5 stand in insertion order (identities 1, 4, 6) *)
Definition ex_ops : list (op (Z * N)) :=
  [Ins (e 1 0); Ins (e 5 1); Ins (e 9 2); Ins (e 3 3); Ins (e 5 4); Ins (e 7 5); Ins (e 5 6); Ins (e 2 7); Ins (e 8 8);
   Rem 0; Rem 6].

Example C04_hypotheses_satisfiable :
  ops_valid ex_ops 0 /\ ops_fresh elt_cmp ex_ops [] /\
  exists t, rb_run elt_cmp ex_ops = Some t /\ rb_inv elt_cmp t /\ size t = 7 /\ height t = 4 /\
            inorder t = [e 2 7; e 3 3; e 5 1; e 5 4; e 5 6; e 7 5; e 9 2].
Proof.
  split; [cbn; repeat split; lia|]. split.
  - cbn. repeat split; intro H; repeat (destruct H as [H|H]; [discriminate H|]); exact H.
  - destruct (rb_run elt_cmp ex_ops) as [t|] eqn:E; [|vm_compute in E; discriminate].
    exists t. split; [reflexivity|]. split.
    + apply C04_rb_check_sound; [apply C04_int_order_instance|]. vm_compute in E. injection E as <-. vm_compute. reflexivity.
    + vm_compute in E. injection E as <-. vm_compute. auto.
Qed.
