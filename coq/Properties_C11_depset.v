(* Properties_C11_depset.v — property C11, the part on history independence of compilation: which modules are
   recompiled when a module changes (a feature is switched by lys_set_implemented, the module becomes implemented).
   Model: DepSet.v (lys_unres_dep_sets_create / lys_unres_dep_sets_create_mod_r, LYS_IS_SINGLE_DEP_SET,
   lys_has_dep_mods of src/tree_schema.c, tree_schema_common.c as of /repo commit 64300ce); proofs: DepSetP.v.
   Vocabulary: a context is the list of its (implemented) modules, a module is its index; [nbr c x y]: x imports y or
   y imports x; [can c y]: the traversal enters y - y has data nodes or features of its own (it is not a single-module
   dependency set), or other modules may depend on its imports THROUGH it (features, groupings, augments, deviations,
   typedefs of a module with imports: lys_has_dep_mods); [reach c m y]: a chain of neighbours from m to y all of whose
   modules after m can be entered. *)
From LY Require Import Base DepSet DepSetP.

(* C11_depset_exact: the dependency set computed for a module m (with data nodes or features of its own) is EXACTLY the
   set of modules with data nodes or features that are connected to m by a chain of imports, in either direction,
   through modules the traversal enters. These are the modules whose compiled trees can depend on m (if-feature,
   leafref, augment, deviation, grouping, typedef chains): none of them keeps a stale compiled tree when m changes, and
   nothing else is recompiled. (The fuel of the model, number of modules + 1, always suffices: C11_depset_total.) *)
Theorem C11_depset_exact :
  forall c m y,
    m < length c -> is_single (get c m) = false ->
    (In y (dep_set_of c m) <-> reach c m y /\ is_single (get c y) = false).
Proof. exact dep_set_exact. Qed.
Print Assumptions C11_depset_exact.

(* every recursive call that goes on adds a module that was not yet entered, so the recursion depth is bounded by the
   number of modules: the model never answers out-of-fuel *)
Theorem C11_depset_total : forall c m, dep_fuel_out c m = false.
Proof. exact dep_fuel_suffices. Qed.
Print Assumptions C11_depset_total.

(* the hypotheses are satisfiable by the two shapes that were defects of the code:
   (1) a = features + data, c = data, b = nothing but an augment, imports a and c (seeded change C11-4):
       the set of a is a, c (b itself is a single-module set and only passed through);
   (2) a = features + data, t = nothing but a typedef, imports a; c = data, imports t (fixed by 64300ce):
       the set of a is a, c (t itself is a single-module set and only passed through) *)
Example C11_depset_examples :
  let a := Build_module [] true true false false false false in
  let c0 := Build_module [] false true false false false false in
  let b := Build_module [0; 1] false false false true false false in
  let t := Build_module [0] false false false false false true in
  let c2 := Build_module [1] false true false false false false in
  dep_set_of [a; c0; b] 0 = [0; 1] /\ dep_fuel_out [a; c0; b] 0 = false /\
  reach [a; c0; b] 0 1 /\
  dep_set_of [a; t; c2] 0 = [0; 2] /\ dep_fuel_out [a; t; c2] 0 = false /\ reach [a; t; c2] 0 2.
Proof.
  cbv zeta. split; [vm_compute; reflexivity|]. split; [vm_compute; reflexivity|]. split.
  - apply (ReachStep _ 0 2 1).
    + apply (ReachStep _ 0 0 2); [constructor|right; split; [cbn; lia|left; reflexivity]|split; [cbn; lia|right; reflexivity]].
    + left. right. left. reflexivity.
    + split; [cbn; lia|left; reflexivity].
  - split; [vm_compute; reflexivity|]. split; [vm_compute; reflexivity|].
    apply (ReachStep _ 0 1 2).
    + apply (ReachStep _ 0 0 1); [constructor|right; split; [cbn; lia|left; reflexivity]|split; [cbn; lia|right; reflexivity]].
    + right. split; [cbn; lia|left; reflexivity].
    + split; [cbn; lia|left; reflexivity].
Qed.
