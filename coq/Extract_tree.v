(* Extract_tree.v -- extraction of the Tree foundation to coq/model_tree.ml *)
From Coq Require Extraction ExtrOcamlBasic.
From LY Require Import Base Tree.
Extraction Language OCaml.
Extraction "model_tree.ml"
  N.add N.mul N.div N.modulo N.sub Z.add Z.mul Z.opp Z.of_N Z.abs_N Z.sub Z.ltb
  Tree.lookup Tree.sget Tree.userordered Tree.dup_inst Tree.sorted_sid Tree.is_key Tree.is_np_cont
  Tree.canonb Tree.uniq_idsb Tree.schema_okb Tree.insert_node Tree.rebuild Tree.forest_eqb Tree.dnode_eqb
  Tree.node_cmp Tree.val_cmp Tree.inst_id Tree.find_inst Tree.lookup_path Tree.same_inst Tree.fsize.
