(* PathModel.v -- property C15, the WHOLE round trip node -> path -> node / created nodes (slice pathmodel).

   Transcribed C code (as coded, typed values through [canon], absolute paths, options 0):
     printer     src/tree_data.c        lyd_path(LYD_PATH_STD), lyd_path_list_predicate(), lyd_path_leaflist_predicate(),
                                        lyd_path_position_predicate(); src/tree_data_common.c lyd_list_pos()
     tokenizer   src/xpath.c            lyxp_expr_parse(.., reparse = 0): the tokens ly_path_parse() can consume
     parser      src/path.c             ly_path_parse(BEGIN_EITHER, PREFIX_FIRST, PRED_SIMPLE), ly_path_check_predicate()
     compiler    src/path.c             _ly_path_compile(), ly_path_compile_snode(), ly_path_compile_predicate(),
                                        src/tree_schema.c lys_find_child()
     evaluation  src/path.c             ly_path_eval_partial(); src/tree_data.c lyd_find_path(), lyd_find_sibling_first(),
                                        lyd_find_sibling_val(), lyd_compare_single() (list / leaf-list identity)
     creation    src/tree_data_new.c    lyd_new_path_(), lyd_new_path_check_find_lypath(), lyd_create_list()

   Data model: a data node carries what the C code reads through node->schema (module name, node name, node type
   and the flags LYS_KEYLESS / LYS_CONFIG_W / LYS_KEY) and its canonical value; the compiled schema is a tree of
   the same annotations (choices and cases flattened as lys_getnext() does; an RPC / action has the children of its
   input or of its output, whichever the caller selected). Pointer equality of schema nodes (child->schema == s) is
   equality of (module, name) among the children of one parent.

   Not modelled (the functions answer E_UNSUP, the generator never produces such input): relative paths, XPath
   variables in key predicates, non-ASCII bytes outside literals (XML name characters beyond ASCII), opaque nodes,
   LYD_DEFAULT flags beyond empty non-presence containers, other types than string / int8..uint64 / boolean /
   enumeration (and no range, length, pattern restrictions) for keys, leaf-lists and leaves, the sibling ORDER of nodes
   created in a non-empty tree (lyd_insert_node; only the created chain and its attach point are modelled). *)
From LY Require Import Base Utf8 PathQuote.
From LY Require IntLex.
Local Open Scope N_scope.

(* LY_ERR numbers used as error classes *)
Definition E_INVAL : N := 3.
Definition E_EXIST : N := 4.
Definition E_LYINT : N := 6.       (* LY_EINT *)
Definition E_VALID : N := 7.
Definition E_UNSUP : N := 100.     (* input outside the modelled fragment *)
Definition E_FUEL : N := 101.      (* fuel ran out (never with the fuel the entry points pass) *)
Definition E_INT : N := 102.       (* a state the preceding checks exclude *)

(* ------------------------------------------------------------------------------------------- *)
(* schema and data                                                                               *)
(* ------------------------------------------------------------------------------------------- *)
(* ---- typed values: the built-in types of keys, leaf-lists and leaves that are modelled ----
   string (no restrictions), the eight integer types (model of lyplg_type_store_int / _uint: coq/IntLex.v), boolean,
   enumeration. [canon ty v] = the canonical string lyd_value_store() keeps for the text v, None when v is rejected:
     string       string_check_chars(): valid UTF-8, kept as it is
     intN/uintN   white space around, optional sign, digits, within the bounds; canonical = decimal without plus sign and
                  leading zeros (IntLex.int_store / int_canon)
     boolean      exactly true or false (lyplg_type_store_boolean: no trimming)
     enumeration  exactly one of the names (lyplg_type_store_enum) *)
Inductive vtype := TString | TInt (t : IntLex.ity) | TBool | TEnum (names : list bytes).

Definition canon (ty : vtype) (v : bytes) : option bytes :=
  match ty with
  | TString => if all_checkutf8 v then Some v else None
  | TInt t => match IntLex.int_store t [] v with
              | Ok z => Some (IntLex.int_canon z)
              | Err _ => None
              end
  | TBool => if beq_bytes v [116; 114; 117; 101] || beq_bytes v [102; 97; 108; 115; 101] then Some v else None
  | TEnum names => if existsb (beq_bytes v) names then Some v else None
  end.

Definition ity_eqb (a b : IntLex.ity) : bool :=
  match a, b with
  | IntLex.I8, IntLex.I8 | IntLex.I16, IntLex.I16 | IntLex.I32, IntLex.I32 | IntLex.I64, IntLex.I64
  | IntLex.U8, IntLex.U8 | IntLex.U16, IntLex.U16 | IntLex.U32, IntLex.U32 | IntLex.U64, IntLex.U64 => true
  | _, _ => false
  end.
Fixpoint names_eqb (a b : list bytes) : bool :=
  match a, b with
  | [], [] => true
  | x :: a', y :: b' => beq_bytes x y && names_eqb a' b'
  | _, _ => false
  end.
Definition vtype_eqb (a b : vtype) : bool :=
  match a, b with
  | TString, TString => true
  | TInt x, TInt y => ity_eqb x y
  | TBool, TBool => true
  | TEnum x, TEnum y => names_eqb x y
  | _, _ => false
  end.

Inductive pkind :=
| KCont (presence : bool)            (* container (presence: LYS_PRESENCE); rpc, action, notification count as presence = true *)
| KList (keyless cfgw : bool)        (* LYS_LIST with LYS_KEYLESS / LYS_CONFIG_W *)
| KLeafList (cfgw : bool) (ty : vtype)   (* LYS_LEAFLIST with LYS_CONFIG_W, its type *)
| KLeaf (iskey : bool) (ty : vtype)       (* LYS_LEAF with LYS_KEY, its type *)
| KAny.                              (* anydata / anyxml *)

Inductive snode := SN (m n : bytes) (k : pkind) (ch : list snode).
Inductive dnode := DN (m n : bytes) (k : pkind) (v : bytes) (ch : list dnode).

Definition s_m (s : snode) : bytes := match s with SN m _ _ _ => m end.
Definition s_n (s : snode) : bytes := match s with SN _ n _ _ => n end.
Definition s_k (s : snode) : pkind := match s with SN _ _ k _ => k end.
Definition s_ch (s : snode) : list snode := match s with SN _ _ _ ch => ch end.
Definition d_m (x : dnode) : bytes := match x with DN m _ _ _ _ => m end.
Definition d_n (x : dnode) : bytes := match x with DN _ n _ _ _ => n end.
Definition d_k (x : dnode) : pkind := match x with DN _ _ k _ _ => k end.
Definition d_v (x : dnode) : bytes := match x with DN _ _ _ v _ => v end.
Definition d_ch (x : dnode) : list dnode := match x with DN _ _ _ _ ch => ch end.

Definition kind_eqb (a b : pkind) : bool :=
  match a, b with
  | KCont a1, KCont b1 => Bool.eqb a1 b1
  | KList a1 a2, KList b1 b2 => Bool.eqb a1 b1 && Bool.eqb a2 b2
  | KLeafList a1 t1, KLeafList b1 t2 => Bool.eqb a1 b1 && vtype_eqb t1 t2
  | KLeaf a1 t1, KLeaf b1 t2 => Bool.eqb a1 b1 && vtype_eqb t1 t2
  | KAny, KAny => true
  | _, _ => false
  end.

Definition is_key_kind (k : pkind) : bool := match k with KLeaf true _ => true | _ => false end.
(* the type of a term node (string for the kinds that have none) *)
Definition kind_ty (k : pkind) : vtype := match k with KLeaf _ t | KLeafList _ t => t | _ => TString end.
Definition is_list_kind (k : pkind) : bool := match k with KList _ _ => true | _ => false end.
Definition is_leaflist_kind (k : pkind) : bool := match k with KLeafList _ _ => true | _ => false end.
(* lysc_is_dup_inst_list(): key-less list or leaf-list without LYS_CONFIG_W *)
Definition dup_inst (k : pkind) : bool :=
  match k with KList true _ => true | KLeafList false _ => true | _ => false end.

(* child->schema == s, for a schema node s given by (module, name) *)
Definition same_sn (m n : bytes) (x : dnode) : bool := beq_bytes m (d_m x) && beq_bytes n (d_n x).
Definition same_schema (a b : dnode) : bool := same_sn (d_m a) (d_n a) b.

Fixpoint node_at (f : list dnode) (p : list nat) : option dnode :=
  match p with
  | [] => None
  | i :: p' =>
      match nth_error f i with
      | None => None
      | Some x => match p' with [] => Some x | _ => node_at (d_ch x) p' end
      end
  end.

(* ------------------------------------------------------------------------------------------- *)
(* lyd_path(node, LYD_PATH_STD)                                                                  *)
(* ------------------------------------------------------------------------------------------- *)
(* lyd_list_pos(): for (iter = instance; iter->schema == instance->schema; iter = iter->prev) ++pos; stops at the
   first sibling. [before] = the preceding siblings, nearest first. uint32_t counter. *)
Fixpoint run_back (x : dnode) (before : list dnode) : N :=
  match before with
  | b :: r => if same_schema x b then 1 + run_back x r else 0
  | [] => 0
  end.
Definition list_pos (before : list dnode) (x : dnode) : N := (1 + run_back x before) mod 4294967296.

(* lyd_path_position_predicate(): sprintf [%u] *)
Definition pos_pred (before : list dnode) (x : dnode) : bytes := [91] ++ N_to_dec (list_pos before x) ++ [93].

(* for (key = lyd_child(node); key && key->schema && (key->schema->flags & LYS_KEY); key = key->next) *)
Fixpoint lead_keys (ch : list dnode) : list dnode :=
  match ch with
  | c :: r => if is_key_kind (d_k c) then c :: lead_keys r else []
  | [] => []
  end.
(* lyd_path_list_predicate() *)
Definition keys_pred (x : dnode) : bytes := flat_map (fun c => list_pred (d_n c) (d_v c)) (lead_keys (d_ch x)).

(* the switch on iter->schema->nodetype in lyd_path() *)
Definition node_pred (before : list dnode) (x : dnode) : bytes :=
  match d_k x with
  | KList true _ => pos_pred before x
  | KList false _ => keys_pred x
  | KLeafList true _ => leaflist_pred (d_v x)
  | KLeafList false _ => pos_pred before x
  | _ => []
  end.

Definition opt_is (pm : option bytes) (m : bytes) : bool :=
  match pm with Some a => beq_bytes a m | None => false end.

(* one iteration of the loop: mod = lyd_node_module(iter); if (prev_mod == mod) mod = NULL;
   sprintf /%s%s%s  module, colon, name; then the predicate. [pm] = module of the parent *)
Definition seg_bytes (pm : option bytes) (before : list dnode) (x : dnode) : bytes :=
  [47] ++ (if opt_is pm (d_m x) then [] else d_m x ++ [58]) ++ d_n x ++ node_pred before x.

(* the path of the node at position p (child indices from the top level) of forest f *)
Fixpoint path_from (pm : option bytes) (f : list dnode) (p : list nat) : option bytes :=
  match p with
  | [] => None
  | i :: p' =>
      match nth_error f i with
      | None => None
      | Some x =>
          let seg := seg_bytes pm (rev (firstn i f)) x in
          match p' with
          | [] => Some seg
          | _ => match path_from (Some (d_m x)) (d_ch x) p' with
                 | Some r => Some (seg ++ r)
                 | None => None
                 end
          end
      end
  end.
Definition path_of (t : list dnode) (p : list nat) : option bytes := path_from None t p.

(* ------------------------------------------------------------------------------------------- *)
(* lyxp_expr_parse(): tokens                                                                     *)
(* ------------------------------------------------------------------------------------------- *)
(* Only the token kinds ly_path_parse() can consume are produced. Every other token of the XPath grammar
   ( ( ) .. @ , // != <= >= | + - < > * or and mod div, axis names ) makes ly_path_parse() fail whatever follows
   (each of its steps checks the kind of the token it consumes and no token may be left), exactly as a tokenizer error
   does: both are E_VALID here. *)
Inductive tok :=
| TPath | TB1 | TB2 | TEq | TDot
| TName (pfx : option bytes) (nm : bytes)      (* NameTest: [prefix:]name, name possibly the star *)
| TLit (v : bytes)                             (* Literal, without its quotes *)
| TNum (ip txt : bytes).                       (* Number: leading digits, whole token *)

Fixpoint skip_ws (s : bytes) : bytes :=
  match s with
  | c :: r => if is_xmlws c then skip_ws r else s
  | [] => []
  end.

Fixpoint span_digits (s acc : bytes) : bytes * bytes :=
  match s with
  | c :: r => if is_digit c then span_digits r (c :: acc) else (rev acc, s)
  | [] => (rev acc, [])
  end.
(* for (tok_len = 0; isdigit(..); ++tok_len); if (.. == '.') { ++tok_len; for (; isdigit(..); ++tok_len); } *)
Definition span_number (s : bytes) : bytes * bytes * bytes :=
  let '(ip, r1) := span_digits s [] in
  match r1 with
  | 46 :: r2 => let '(fp, r3) := span_digits r2 [] in (ip, ip ++ [46] ++ fp, r3)
  | _ => (ip, ip, r1)
  end.

(* parse_ncname() on ASCII input: first byte a letter or underscore, then letters, digits, - . _ ;
   a byte above 127 where a name could start or continue is outside the model *)
Definition scan_ncname (s : bytes) : res (bytes * bytes) :=
  match s with
  | [] => Err E_VALID
  | c :: _ =>
      if 128 <=? c then Err E_UNSUP
      else if negb (is_name_start c) then Err E_VALID
      else let '(nm, r) := span_name s [] in
           match r with
           | d :: _ => if 128 <=? d then Err E_UNSUP else Ok (nm, r)
           | [] => Ok (nm, r)
           end
  end.
Definition scan_name_or_star (s : bytes) : res (bytes * bytes) :=
  match s with
  | 42 :: r => Ok ([42], r)
  | _ => scan_ncname s
  end.

(* the last else-if of the chain is taken (operator expected) unless there is no previous token or it is one of
   @ ( [ , and the operators; of those only [ = / are produced here *)
Definition name_pos_ok (prev : option tok) : bool :=
  match prev with
  | None | Some TB1 | Some TEq | Some TPath => true
  | _ => false
  end.

(* the NameTest branch: (NCName | star) [:: -> axis] [: (NCName | star)] *)
Definition scan_nametest (s : bytes) : res (tok * bytes) :=
  match scan_name_or_star s with
  | Err e => Err e
  | Ok (n1, r1) =>
      match r1 with
      | 58 :: 58 :: _ => Err E_VALID                 (* AxisName + DoubleColon, or an unknown axis *)
      | 58 :: r2 =>
          match scan_name_or_star r2 with
          | Err e => Err e
          | Ok (n2, r3) => Ok (TName (Some n1) n2, r3)
          end
      | _ => Ok (TName None n1, r1)
      end
  end.

(* one iteration of the do-while: the token at the head of s (not empty, not starting with white space) and the
   input after it and after the white space that follows *)
Definition next_token (prev : option tok) (s : bytes) : res (tok * bytes) :=
  match s with
  | [] => Err E_VALID
  | c :: r =>
      let out (t : tok) (rest : bytes) : res (tok * bytes) := Ok (t, skip_ws rest) in
      if (c =? 40) || (c =? 41) then Err E_VALID
      else if c =? 91 then out TB1 r
      else if c =? 93 then out TB2 r
      else if (c =? 46) && match r with 46 :: _ => true | _ => false end then Err E_VALID
      else if (c =? 46) && negb match r with d :: _ => is_digit d | [] => false end then out TDot r
      else if (c =? 64) || (c =? 44) then Err E_VALID
      else if (c =? 39) || (c =? 34) then
        match path_literal s with
        | Some (v, rest) => out (TLit v) rest
        | None => Err E_VALID
        end
      else if (c =? 46) || is_digit c then
        let '(ip, txt, rest) := span_number s in out (TNum ip txt) rest
      else if c =? 36 then Err E_UNSUP                (* VariableReference *)
      else if c =? 47 then
        match r with
        | 47 :: _ => Err E_VALID
        | _ => out TPath r
        end
      else if (c =? 33) && match r with 61 :: _ => true | _ => false end then Err E_VALID
      else if (c =? 60) || (c =? 62) || (c =? 124) || (c =? 43) || (c =? 45) then Err E_VALID
      else if c =? 61 then out TEq r
      else if negb (name_pos_ok prev) then Err E_VALID   (* operator star / or / and / mod / div, or an error *)
      else
        match scan_nametest s with
        | Err e => Err e
        | Ok (t, rest) => out t rest
        end
  end.

Fixpoint lex (fuel : nat) (prev : option tok) (s : bytes) : res (list tok) :=
  match fuel with
  | O => Err E_FUEL
  | S f =>
      match s with
      | [] => Ok []
      | _ =>
          match next_token prev s with
          | Err e => Err e
          | Ok (t, r) =>
              match lex f (Some t) r with
              | Ok l => Ok (t :: l)
              | Err e => Err e
              end
          end
      end
  end.

(* the empty expression and the one made of white space are errors *)
Definition tokenize (s : bytes) : res (list tok) :=
  match skip_ws s with
  | [] => Err E_VALID
  | s' => lex (S (length s')) None s'
  end.

(* ------------------------------------------------------------------------------------------- *)
(* ly_path_parse() / ly_path_check_predicate()                                                   *)
(* ------------------------------------------------------------------------------------------- *)
Inductive ppred :=
| PNone
| PKeys (l : list (option bytes * bytes * bytes))      (* prefix, key name, value *)
| PDot (v : bytes)
| PPos (ip : bytes).                                   (* the leading digits of the number *)
Definition pseg : Type := option bytes * bytes * ppred.

(* atoi() = (int)strtol(): clamped to LONG_MAX, then the low 32 bits *)
Definition c_atoi_zero (ip : bytes) : bool := (N.min (dec_to_N ip) 9223372036854775807) mod 4294967296 =? 0.
(* strtoull(): clamped to ULLONG_MAX *)
Definition c_strtoull (ip : bytes) : N := N.min (dec_to_N ip) 18446744073709551615.

(* !strncmp(set->objs[i], name, name_len) && lysp_check_identifierchar(NULL, set->objs[i][name_len], 0, NULL):
   the earlier name e is compared IN THE EXPRESSION, where the byte after it is white space or the equal sign
   (its predicate was accepted), never an identifier character; 61 stands for that byte *)
Definition dup_key (e n : bytes) : bool :=
  let et := e ++ [61] in
  starts_with n et && negb (is_name_byte (nth (length n) et 0)).

(* the do-while of the key branch, entered at a NameTest; returns the keys and the tokens after the last ] *)
Fixpoint parse_keys (seen : list bytes) (ts : list tok) {struct ts}
  : res (list (option bytes * bytes * bytes) * list tok) :=
  match ts with
  | TName p n :: ts1 =>
      if existsb (fun e => dup_key e n) seen then Err E_VALID else
      match ts1 with
      | TEq :: ts2 =>
          match ts2 with
          | TLit v :: ts3 =>
              match ts3 with
              | TB2 :: ts4 =>
                  match ts4 with
                  | TB1 :: ts5 =>
                      match parse_keys (seen ++ [n]) ts5 with
                      | Ok (l, rest) => Ok ((p, n, v) :: l, rest)
                      | Err e => Err e
                      end
                  | _ => Ok ([(p, n, v)], ts4)
                  end
              | _ => Err E_VALID
              end
          | TNum _ txt :: ts3 =>
              match ts3 with
              | TB2 :: ts4 =>
                  match ts4 with
                  | TB1 :: ts5 =>
                      match parse_keys (seen ++ [n]) ts5 with
                      | Ok (l, rest) => Ok ((p, n, txt) :: l, rest)
                      | Err e => Err e
                      end
                  | _ => Ok ([(p, n, txt)], ts4)
                  end
              | _ => Err E_VALID
              end
          | _ => Err E_VALID
          end
      | _ => Err E_VALID
      end
  | _ => Err E_VALID
  end.

(* ly_path_check_predicate(.., LY_PATH_PRED_SIMPLE) *)
Definition parse_pred (ts : list tok) : res (ppred * list tok) :=
  match ts with
  | TB1 :: ts1 =>
      match ts1 with
      | TName _ _ :: _ =>
          match parse_keys [] ts1 with
          | Ok (l, rest) => Ok (PKeys l, rest)
          | Err e => Err e
          end
      | TDot :: TEq :: TLit v :: TB2 :: rest => Ok (PDot v, rest)
      | TDot :: TEq :: TNum _ txt :: TB2 :: rest => Ok (PDot txt, rest)
      | TNum ip _ :: ts2 =>
          if c_atoi_zero ip then Err E_VALID
          else match ts2 with
               | TB2 :: rest => Ok (PPos ip, rest)
               | _ => Err E_VALID
               end
      | _ => Err E_VALID
      end
  | _ => Ok (PNone, ts)
  end.

(* the do-while of ly_path_parse(): NameTest Predicate* ( / ... ); LY_PATH_PREFIX_FIRST: the first node of an absolute
   path needs a prefix; no token may be left *)
Fixpoint parse_segs (fuel : nat) (first : bool) (ts : list tok) : res (list pseg) :=
  match fuel with
  | O => Err E_FUEL
  | S f =>
      match ts with
      | TName p n :: ts1 =>
          if first && match p with None => true | Some _ => false end then Err E_VALID else
          match parse_pred ts1 with
          | Err e => Err e
          | Ok (pr, ts2) =>
              match ts2 with
              | [] => Ok [(p, n, pr)]
              | TPath :: ts3 =>
                  match parse_segs f false ts3 with
                  | Ok l => Ok ((p, n, pr) :: l)
                  | Err e => Err e
                  end
              | _ => Err E_VALID
              end
          end
      | _ => Err E_VALID
      end
  end.

Definition parse_toks (ts : list tok) : res (list pseg) :=
  match ts with
  | TPath :: ts1 => parse_segs (S (length ts1)) true ts1
  | _ => Err E_UNSUP                                 (* relative path *)
  end.

Definition parse_path (s : bytes) : res (list pseg) :=
  match tokenize s with
  | Ok ts => parse_toks ts
  | Err e => Err e
  end.

(* ------------------------------------------------------------------------------------------- *)
(* _ly_path_compile() / ly_path_compile_predicate()                                              *)
(* ------------------------------------------------------------------------------------------- *)
(* one key predicate after compilation: module, name, (node kind of the key leaf, stored = canonical value) *)
Definition kentry : Type := bytes * bytes * (pkind * bytes).

Inductive cpred :=
| CNone
| CKeys (l : list kentry)                        (* LY_PATH_PREDTYPE_LIST: the key (module, name, kind) and the stored value *)
| CDot (v : bytes)                               (* LY_PATH_PREDTYPE_LEAFLIST *)
| CPos (p : N).                                  (* LY_PATH_PREDTYPE_POSITION *)

(* one struct ly_path: the schema node (module, name, type and flags, its keys) and the predicates *)
Record cseg := mk_cseg {
  cs_m : bytes; cs_n : bytes; cs_k : pkind;
  cs_keys : list (bytes * bytes);                (* for (key = lysc_node_child(node); key && (key->flags & LYS_KEY); ..) *)
  cs_pred : cpred }.

(* lys_find_child(parent, module, name, ..): first child of that module with that name *)
Fixpoint find_child (sc : list snode) (m n : bytes) : option snode :=
  match sc with
  | [] => None
  | s :: r => if beq_bytes m (s_m s) && beq_bytes n (s_n s) then Some s else find_child r m n
  end.

Fixpoint schema_keys (ch : list snode) : list (bytes * bytes) :=
  match ch with
  | c :: r => if is_key_kind (s_k c) then (s_m c, s_n c) :: schema_keys r else []
  | [] => []
  end.

(* lyd_value_store(): [canon] of the type of the node; the path keeps the canonical value *)

(* the do-while of the NameTest branch: the key is looked up in the module the prefix names, else in the module of
   the list (LY_VALUE_JSON: inherited); it must be a leaf with LYS_KEY; its value must be storable *)
Fixpoint compile_keys (s : snode) (l : list (option bytes * bytes * bytes)) : res (list kentry) :=
  match l with
  | [] => Ok []
  | (p, n, v) :: l' =>
      let m := match p with Some x => x | None => s_m s end in
      match find_child (s_ch s) m n with
      | Some c =>
          if negb (is_key_kind (s_k c)) then Err E_VALID
          else match canon (kind_ty (s_k c)) v with
               | None => Err E_VALID
               | Some cv =>
                   match compile_keys s l' with
                   | Ok r => Ok ((s_m c, s_n c, (s_k c, cv)) :: r)
                   | Err e => Err e
                   end
               end
      | None => Err E_VALID
      end
  end.

Definition compile_pred (s : snode) (pr : ppred) : res cpred :=
  match pr with
  | PNone => Ok CNone
  | PKeys l =>
      match s_k s with
      | KList false _ =>
          match compile_keys s l with
          | Ok r => if Nat.eqb (length r) (length (schema_keys (s_ch s))) then Ok (CKeys r) else Err E_VALID
          | Err e => Err e
          end
      | _ => Err E_VALID               (* not a list, or a key-less list *)
      end
  | PDot v =>
      match s_k s with
      | KLeafList _ ty => match canon ty v with Some cv => Ok (CDot cv) | None => Err E_VALID end
      | _ => Err E_VALID
      end
  | PPos ip =>
      match s_k s with
      | KList _ false | KLeafList false _ => Ok (CPos (c_strtoull ip))
      | _ => Err E_VALID               (* neither list nor leaf-list, or LYS_CONFIG_W *)
      end
  end.

(* the do-while of _ly_path_compile(): [sc] = the schema children NameTests are looked up in, [pm] = the module an
   unprefixed name inherits (None at the top level: LOGINT). LY_PATH_TARGET_SINGLE (many = false): a list without
   predicate anywhere and a leaf-list without predicate at the end are errors (the C code reports the former at the
   beginning of the next iteration or after the loop; every error is E_VALID) *)
Fixpoint compile_segs (many : bool) (sc : list snode) (pm : option bytes) (l : list pseg) : res (list cseg) :=
  match l with
  | [] => Ok []
  | (p, n, pr) :: l' =>
      match (match p with Some x => Some x | None => pm end) with
      | None => Err E_VALID
      | Some m =>
          match find_child sc m n with
          | None => Err E_VALID
          | Some s =>
              match compile_pred s pr with
              | Err e => Err e
              | Ok cp =>
                  let nopred := match cp with CNone => true | _ => false end in
                  let last := match l' with [] => true | _ => false end in
                  if negb many && nopred && (is_list_kind (s_k s) || (last && is_leaflist_kind (s_k s))) then Err E_VALID
                  else match compile_segs many (s_ch s) (Some (s_m s)) l' with
                       | Ok r => Ok (mk_cseg (s_m s) (s_n s) (s_k s) (schema_keys (s_ch s)) cp :: r)
                       | Err e => Err e
                       end
              end
          end
      end
  end.

Definition compile_path (many : bool) (S : list snode) (s : bytes) : res (list cseg) :=
  match parse_path s with
  | Ok l => compile_segs many S None l
  | Err e => Err e
  end.

(* ------------------------------------------------------------------------------------------- *)
(* ly_path_eval_partial()                                                                        *)
(* ------------------------------------------------------------------------------------------- *)
Fixpoint find_idx {A : Type} (P : A -> bool) (l : list A) : option nat :=
  match l with
  | [] => None
  | x :: r => if P x then Some O else match find_idx P r with Some i => Some (S i) | None => None end
  end.

(* LYD_LIST_FOR_INST from the first instance: the instances that follow it directly; pos counts from 1 *)
Fixpoint pos_walk (m n : bytes) (want pos : N) (l : list dnode) (idx : nat) : option nat :=
  match l with
  | x :: r =>
      if same_sn m n x then
        if pos =? want then Some idx else pos_walk m n want (pos + 1) r (S idx)
      else None
  | [] => None
  end.

(* lyd_create_list(): one key node per predicate, each put in its place by lyd_insert_node(): the keys in schema order *)
Definition key_is (k : bytes * bytes) (e : kentry) : bool :=
  beq_bytes (fst k) (fst (fst e)) && beq_bytes (snd k) (snd (fst e)).
Definition target_keys (keys : list (bytes * bytes)) (l : list kentry) : list kentry :=
  flat_map (fun k => filter (key_is k) l) keys.

(* lyd_compare_single(.., 0) of two instances of a list with keys: the leading children pairwise, schema and value *)
Fixpoint keys_match (tk : list kentry) (ch : list dnode) : bool :=
  match tk with
  | [] => true
  | (km, kn, kv) :: tk' =>
      match ch with
      | c :: ch' => same_sn km kn c && beq_bytes (snd kv) (d_v c) && keys_match tk' ch'
      | [] => false
      end
  end.

(* index of the sibling one path segment selects *)
Definition eval_seg (cs : cseg) (f : list dnode) : option nat :=
  let here := same_sn (cs_m cs) (cs_n cs) in
  match cs_pred cs with
  | CPos p =>
      match find_idx here f with
      | Some j => pos_walk (cs_m cs) (cs_n cs) p 1 (skipn j f) j
      | None => None
      end
  | CDot v => find_idx (fun x => here x && beq_bytes v (d_v x)) f
  | CKeys l => find_idx (fun x => here x && keys_match (target_keys (cs_keys cs) l) (d_ch x)) f
  | CNone => find_idx here f
  end.

Inductive eres := EFound (p : list nat) | EPartial (p : list nat) | ENone.    (* LY_SUCCESS / LY_EINCOMPLETE / LY_ENOTFOUND *)

Fixpoint eval_segs (l : list cseg) (f : list dnode) : eres :=
  match l with
  | [] => ENone
  | cs :: l' =>
      match eval_seg cs f with
      | None => ENone
      | Some i =>
          match nth_error f i with
          | None => ENone
          | Some x =>
              match l' with
              | [] => EFound [i]
              | _ => match eval_segs l' (d_ch x) with
                     | EFound p => EFound (i :: p)
                     | EPartial p => EPartial (i :: p)
                     | ENone => EPartial [i]
                     end
              end
          end
      end
  end.

(* lyd_find_path(first top-level sibling, path, output, &match) *)
Inductive fres := FErr (e : N) | FRes (r : eres).
Definition find_path (S : list snode) (t : list dnode) (path : bytes) : fres :=
  match compile_path false S path with
  | Ok cp => FRes (eval_segs cp t)
  | Err e => FErr e
  end.

(* ------------------------------------------------------------------------------------------- *)
(* lyd_new_path2(tree or NULL, ctx, path, value, .., options 0, ..)                              *)
(* ------------------------------------------------------------------------------------------- *)
(* lyd_new_path_check_find_lypath(): returns the adjusted path and new_count when some segment is always created *)
Fixpoint check_find (value : bytes) (l : list cseg) (u : nat) : res (list cseg * option nat) :=
  match l with
  | [] => Ok ([], None)
  | cs :: l' =>
      let go (cs' : cseg) (mine : option nat) :=
        match check_find value l' (S u) with
        | Ok (r, later) => Ok (cs' :: r, match later with Some c => Some c | None => mine end)
        | Err e => Err e
        end in
      if dup_inst (cs_k cs) then
        match cs_pred cs with
        | CNone => go cs (Some u)
        | CDot _ => if is_leaflist_kind (cs_k cs) then go cs (Some u) else Err E_INVAL
        | CPos _ => go cs None
        | CKeys _ => Err E_INVAL
        end
      else if is_list_kind (cs_k cs) then
        match cs_pred cs with
        | CKeys _ => go cs None
        | _ => Err E_INVAL
        end
      else if is_leaflist_kind (cs_k cs) then
        match cs_pred cs with
        | CDot _ => go cs None
        | _ => match canon (kind_ty (cs_k cs)) value with
               | Some cv => go (mk_cseg (cs_m cs) (cs_n cs) (cs_k cs) (cs_keys cs) (CDot cv)) None
               | None => Err E_VALID
               end
        end
      else go cs None
  end.

(* the key children lyd_create_list() gives a new list instance *)
Definition key_nodes (tk : list kentry) : list dnode :=
  map (fun e : kentry => DN (fst (fst e)) (snd (fst e)) (fst (snd e)) (snd (snd e)) []) tk.

(* the for loop that creates the missing nodes, each the only new child of the one before ([] or one node).
   A key leaf is not created: it is found among the keys of the list instance created just before *)
Fixpoint mk_chain (value : bytes) (l : list cseg) : res (list dnode) :=
  match l with
  | [] => Ok []
  | cs :: l' =>
      match mk_chain value l' with
      | Err e => Err e
      | Ok sub =>
          let m := cs_m cs in let n := cs_n cs in let k := cs_k cs in
          match k with
          | KList true _ => Ok [DN m n k [] sub]
          | KList false _ =>
              match cs_pred cs with
              | CKeys kl => Ok [DN m n k [] (key_nodes (target_keys (cs_keys cs) kl) ++ sub)]
              | _ => Err E_INT             (* excluded by check_find *)
              end
          | KCont _ => Ok [DN m n k [] sub]
          | KLeafList _ ty =>
              match cs_pred cs with
              | CDot v => Ok [DN m n k v []]
              | _ => match canon ty value with Some cv => Ok [DN m n k cv []] | None => Err E_VALID end
              end
          | KLeaf true _ => Ok []
          | KLeaf false ty => match canon ty value with Some cv => Ok [DN m n k cv []] | None => Err E_VALID end
          | KAny =>
              (* lyd_create_any(anydata, value, LYD_ANYDATA_STRING): NULL (the empty value) is an empty tree; text that
                 looks like XML, JSON or LYB is parsed (not modelled); any other string is an invalid value (LY_EVALID since
                 /repo 8b61a43; LOGINT before) *)
              match value with
              | [] => Ok [DN m n k [] []]
              | 60 :: _ | 123 :: _ | 108 :: 121 :: 98 :: _ => Err E_UNSUP
              | _ => Err E_VALID
              end
          end
      end
  end.

(* number of instances LYD_LIST_FOR_INST visits *)
Definition inst_count (m n : bytes) (f : list dnode) : N :=
  match find_idx (same_sn m n) f with
  | Some j => (fix cnt (l : list dnode) : N :=
                 match l with x :: r => if same_sn m n x then 1 + cnt r else 0 | [] => 0 end) (skipn j f)
  | None => 0
  end.

Definition children_at (t : list dnode) (attach : option (list nat)) : list dnode :=
  match attach with
  | None => t
  | Some p => match node_at t p with Some x => d_ch x | None => [] end
  end.

(* node->flags & LYD_DEFAULT in a tree without default leaves (parsed without implicit nodes): lyd_create_inner() sets the
   flag on a non-presence container and it is cleared as soon as a non-default child is inserted *)
Fixpoint is_dflt (x : dnode) {struct x} : bool :=
  match x with
  | DN _ _ (KCont false) _ ch => forallb is_dflt ch
  | _ => false
  end.

Inductive nres :=
| NErr (e : N)
| NCreated (attach : option (list nat)) (chain : list dnode).   (* parent of the first created node (None = top level) *)

Definition new_path (S : list snode) (t : list dnode) (path value : bytes) : nres :=
  match compile_path true S path with
  | Err e => NErr e
  | Ok cp0 =>
      match check_find value cp0 O with
      | Err e => NErr e
      | Ok (cp, newc) =>
          let search := match newc with Some c => firstn c cp | None => cp end in
          let cont (idx : nat) (attach : option (list nat)) :=
            let todo := skipn idx cp in
            let posbad :=
              match todo with
              | cs :: _ =>
                  match cs_pred cs with
                  | CPos p => dup_inst (cs_k cs) && (inst_count (cs_m cs) (cs_n cs) (children_at t attach) + 1 <? p)
                  | _ => false
                  end
              | [] => false
              end in
            if posbad then NErr E_INVAL
            else match todo with
                 | cs :: _ =>
                     if is_key_kind (cs_k cs) then NErr E_UNSUP     (* list instance without its key: not a parsed tree *)
                     else match mk_chain value todo with
                          | Ok ch => NCreated attach ch
                          | Err e => NErr e
                          end
                 | [] => NCreated attach []
                 end in
          match eval_segs search t with
          | EFound p =>
              match newc with
              | None =>
                  (* the node exists: LY_EEXIST unless it is a default node; lyd_new_path_update() of a container
                     changes nothing and reports no new node *)
                  match node_at t p with
                  | Some x => if is_dflt x then NCreated None [] else NErr E_EXIST
                  | None => NErr E_INT
                  end
              | Some _ => cont (length search) (Some p)
              end
          | EPartial p => cont (length p) (Some p)
          | ENone => cont O None
          end
      end
  end.

(* ------------------------------------------------------------------------------------------- *)
(* lyd_change_term(node, value)                                                                  *)
(* ------------------------------------------------------------------------------------------- *)
(* _lyd_change_term(): the new text is stored through the type of the term node (its canonical value replaces the old one)
   and, for a key or a (leaf-)list instance, the node and its parents are hashed again: in this model the identity of an
   instance is a function of the current values, there is no separate hash that could go stale. NOT modelled: the move of
   the instance of a system-ordered list / leaf-list to its sorted place (the sibling order stays as it is here). *)
Fixpoint set_val (f : list dnode) (p : list nat) (cw : bytes) {struct p} : list dnode :=
  match p with
  | [] => f
  | i :: p' =>
      match nth_error f i with
      | None => f
      | Some x =>
          let x' := match p' with
                    | [] => DN (d_m x) (d_n x) (d_k x) cw (d_ch x)
                    | _ => DN (d_m x) (d_n x) (d_k x) (d_v x) (set_val (d_ch x) p' cw)
                    end in
          firstn i f ++ x' :: skipn (S i) f
      end
  end.

(* None: no such node, not a term node, or the type rejects the text (LY_EVALID, nothing changed) *)
Definition change_term (t : list dnode) (p : list nat) (w : bytes) : option (list dnode) :=
  match node_at t p with
  | Some x =>
      match d_k x with
      | KLeaf _ ty | KLeafList _ ty =>
          match canon ty w with
          | Some cw => Some (set_val t p cw)
          | None => None
          end
      | _ => None
      end
  | None => None
  end.

(* ------------------------------------------------------------------------------------------- *)
(* well-formed schema and data (what lys_compile and the data parsers guarantee)                 *)
(* ------------------------------------------------------------------------------------------- *)
(* every key of a list with keys belongs to the module of the list, is found by its name, and key names differ *)
Fixpoint distinct_names (l : list (bytes * bytes)) : bool :=
  match l with
  | [] => true
  | k :: r => negb (existsb (fun e => beq_bytes (snd k) (snd e)) r) && distinct_names r
  end.

Definition keys_resolve (lm : bytes) (ch : list snode) : bool :=
  forallb (fun k : bytes * bytes =>
             beq_bytes (fst k) lm &&
             match find_child ch (fst k) (snd k) with
             | Some c => is_key_kind (s_k c)
             | None => false
             end) (schema_keys ch) &&
  distinct_names (schema_keys ch).

Fixpoint swf_node (s : snode) {struct s} : bool :=
  match s with
  | SN m n k ch =>
      name_ok m && name_ok n &&
      match k with
      | KList false _ =>
          match schema_keys ch with [] => false | _ => true end && keys_resolve m ch &&
          forallb (fun c => negb (is_key_kind (s_k c))) (skipn (length (schema_keys ch)) ch)
      | KList true cfgw => negb cfgw && forallb (fun c => negb (is_key_kind (s_k c))) ch
      | KCont _ => forallb (fun c => negb (is_key_kind (s_k c))) ch
      | _ => match ch with [] => true | _ => false end
      end &&
      forallb swf_node ch
  end.
(* names are identifiers; a list with keys has at least one, they lead its children, belong to its module and have
   different names; a key-less list has no LYS_CONFIG_W (lys_compile: a configuration list needs keys); key leaves occur
   nowhere else; terms have no children *)
Definition swf (S : list snode) : bool :=
  forallb swf_node S && forallb (fun c => negb (is_key_kind (s_k c))) S.

(* may node x follow the siblings [before] (nearest first)?
     positional nodes: the instances of one schema node are contiguous (lyd_insert_node keeps them so);
     every other node: no earlier sibling with the same identity - schema node alone, or schema node and key values,
     or schema node and value *)
Fixpoint drop_same (x : dnode) (l : list dnode) : list dnode :=
  match l with
  | b :: r => if same_schema x b then drop_same x r else l
  | [] => []
  end.

Definition key_vals (x : dnode) : list bytes := map d_v (lead_keys (d_ch x)).
Fixpoint beq_vals (a b : list bytes) : bool :=
  match a, b with
  | [], [] => true
  | x :: a', y :: b' => beq_bytes x y && beq_vals a' b'
  | _, _ => false
  end.

Definition same_ident (x y : dnode) : bool :=
  same_schema x y &&
  match d_k x with
  | KList false _ => beq_vals (key_vals x) (key_vals y)
  | KLeafList true _ => beq_bytes (d_v x) (d_v y)
  | _ => true
  end.

Definition positional (k : pkind) : bool := dup_inst k.

Definition sib_ok (before : list dnode) (x : dnode) : bool :=
  if positional (d_k x) then negb (existsb (same_schema x) (drop_same x before))
  else negb (existsb (same_ident x) before).

Fixpoint sibs_ok (before : list dnode) (f : list dnode) : bool :=
  match f with
  | [] => true
  | x :: r => sib_ok before x && sibs_ok (x :: before) r
  end.

(* the leading key children of a list instance are the keys of its schema node, in order *)
Fixpoint keys_agree (l : list dnode) (ks : list (bytes * bytes)) : bool :=
  match l, ks with
  | [], [] => true
  | c :: l', k :: ks' => same_sn (fst k) (snd k) c && keys_agree l' ks'
  | _, _ => false
  end.

(* the data node x is an instance of a child of [sc]: same node type, flags and value type; inner nodes have no value,
   terms the canonical value of their type and no children; a list instance starts with its keys; the children are well-formed siblings,
   fewer than 2^31 of them *)
Fixpoint dwf_node (sc : list snode) (x : dnode) {struct x} : bool :=
  match x with
  | DN m n k v ch =>
      match find_child sc m n with
      | None => false
      | Some s =>
          kind_eqb (s_k s) k &&
          match k with
          | KCont _ | KList _ _ | KAny => match v with [] => true | _ => false end
          | _ => match canon (kind_ty k) v with Some cv => beq_bytes cv v | None => false end
          end &&
          match k with
          | KList false _ =>
              keys_agree (lead_keys ch) (schema_keys (s_ch s)) &&
              forallb (fun c => negb (is_key_kind (d_k c))) (skipn (length (lead_keys ch)) ch)
          | KCont _ | KList true _ => forallb (fun c => negb (is_key_kind (d_k c))) ch
          | _ => match ch with [] => true | _ => false end
          end &&
          sibs_ok [] ch && (N.of_nat (length ch) <? 2147483648) &&
          forallb (dwf_node (s_ch s)) ch
      end
  end.
Definition dwf (S : list snode) (t : list dnode) : bool :=
  sibs_ok [] t && (N.of_nat (length t) <? 2147483648) && forallb (dwf_node S) t &&
  forallb (fun c => negb (is_key_kind (d_k c))) t.

(* the known defect (Properties_C15_ytext.v, C15_path_literal_both_quotes_refuted): a key or configuration leaf-list
   value with both quote characters cannot be written in a predicate; kept as an explicit hypothesis *)
Definition one_quote (v : bytes) : bool := negb (pq_has 39 v && pq_has 34 v).
Fixpoint quotes_ok_node (x : dnode) {struct x} : bool :=
  match x with
  | DN m n k v ch =>
      match k with
      | KLeaf true _ | KLeafList true _ => one_quote v
      | _ => true
      end && forallb quotes_ok_node ch
  end.
Definition quotes_ok (t : list dnode) : bool := forallb quotes_ok_node t.

(* the node and its ancestors, list instances with their keys: what lyd_new_path() has to create in an empty tree *)
Fixpoint spine (f : list dnode) (p : list nat) : list dnode :=
  match p with
  | [] => []
  | i :: p' =>
      match nth_error f i with
      | None => []
      | Some x =>
          let keys := match d_k x with KList false _ => lead_keys (d_ch x) | _ => [] end in
          let below :=
            match p' with
            | j :: _ => if Nat.ltb j (length keys) then [] else spine (d_ch x) p'
            | [] => []
            end in
          [DN (d_m x) (d_n x) (d_k x) (d_v x) (keys ++ below)]
      end
  end.
