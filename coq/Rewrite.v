(* Rewrite.v - slice regex (property C18): the TEXTUAL rewrite libyang applies to a YANG pattern
   before the text is handed to pcre2_compile(). Model only; proofs are in RewriteP.v.

   Transcribed C (src/schema_compile_node.c, as of commits 0ef0929 and 97840a6):
     lys_compile_type_pattern_check()               -> esc_pass, rewrite
     lys_compile_pattern_chblocks_xmlschema2perl()  -> chblocks_step, chblocks
   The model is what the code DOES, including its remaining defects:
     (D3) the bracket counter [brack] of the second function treats a bracket as escaped when the
          PREVIOUS BYTE is a backslash (the first function tracks escaping properly), so after an
          escaped backslash the two disagree: in \\[a]\p{IsGreek} the counter is -1 at the block (the
          size_t wraps, which is defined behaviour and only makes it non-zero) and the range is
          written without its brackets although the block stands outside brackets.
     (D4) the block name is compared with strncmp(..., strlen(table name)), i.e. the FIRST table
          entry whose name is a PREFIX of the text after \p{Is is taken: \p{IsGreekExtended} is
          replaced by the range of Greek (entry 7 stands before entry 38), \p{IsGreekFoo} is accepted.
     (D5) the replacement text of the entry Specials is 28 bytes long but URANGE_LEN = 19 bytes are
          copied (17 inside brackets), so the text written is cut in the middle of a range.
   Fixed since the first transcription (and no longer in the model): (D1) a second backslash in front
   of an already escaped '^' / '$'; (D2) the block index overwritten by the bracket counter, which
   also was the only undefined behaviour (table index out of range, formerly Err 4).
   No undefined behaviour is left in the two functions: every index into perl_regex is below the
   allocated size (size = strlen + 1 + number of inserted backslashes; the realloc before a block
   substitution adds URANGE_LEN - (end - start) when the block text is shorter than the range),
   perl_regex[idx2 - 1] is guarded by !idx2, the table index is the one found by the name loop
   (< 84) and memcpy reads URANGE_LEN bytes of strings that are at least that long.
   Patterns are C strings: the model assumes the pattern contains no 0 byte.
   Error classes: Err 1 = stray ']' ; Err 2 = unterminated \p{Is ; Err 3 = unknown block name ;
   Err 9 = model fuel exhausted (never happens, RewriteP.rewrite_result: every iteration removes one
   occurrence of \p{Is and creates none). *)
From LY Require Import Base.
Local Open Scope N_scope.

(* the table ublock2urange[][2] of lys_compile_pattern_chblocks_xmlschema2perl() without its
   {NULL, NULL} terminator: (block name, replacement text). Transcribed by script from the C
   source; every entry is exercised by the Rewrite correspondence (every name, bare and inside brackets). *)
Definition ublock2urange : list (bytes * bytes) := [
  (* 0 BasicLatin *)
  ([66; 97; 115; 105; 99; 76; 97; 116; 105; 110],
   [91; 92; 120; 123; 48; 48; 48; 48; 125; 45; 92; 120; 123; 48; 48; 55; 70; 125; 93]);
  (* 1 Latin-1Supplement *)
  ([76; 97; 116; 105; 110; 45; 49; 83; 117; 112; 112; 108; 101; 109; 101; 110; 116],
   [91; 92; 120; 123; 48; 48; 56; 48; 125; 45; 92; 120; 123; 48; 48; 70; 70; 125; 93]);
  (* 2 LatinExtended-A *)
  ([76; 97; 116; 105; 110; 69; 120; 116; 101; 110; 100; 101; 100; 45; 65],
   [91; 92; 120; 123; 48; 49; 48; 48; 125; 45; 92; 120; 123; 48; 49; 55; 70; 125; 93]);
  (* 3 LatinExtended-B *)
  ([76; 97; 116; 105; 110; 69; 120; 116; 101; 110; 100; 101; 100; 45; 66],
   [91; 92; 120; 123; 48; 49; 56; 48; 125; 45; 92; 120; 123; 48; 50; 52; 70; 125; 93]);
  (* 4 IPAExtensions *)
  ([73; 80; 65; 69; 120; 116; 101; 110; 115; 105; 111; 110; 115],
   [91; 92; 120; 123; 48; 50; 53; 48; 125; 45; 92; 120; 123; 48; 50; 65; 70; 125; 93]);
  (* 5 SpacingModifierLetters *)
  ([83; 112; 97; 99; 105; 110; 103; 77; 111; 100; 105; 102; 105; 101; 114; 76; 101; 116; 116; 101; 114; 115],
   [91; 92; 120; 123; 48; 50; 66; 48; 125; 45; 92; 120; 123; 48; 50; 70; 70; 125; 93]);
  (* 6 CombiningDiacriticalMarks *)
  ([67; 111; 109; 98; 105; 110; 105; 110; 103; 68; 105; 97; 99; 114; 105; 116; 105; 99; 97; 108; 77; 97; 114; 107; 115],
   [91; 92; 120; 123; 48; 51; 48; 48; 125; 45; 92; 120; 123; 48; 51; 54; 70; 125; 93]);
  (* 7 Greek *)
  ([71; 114; 101; 101; 107],
   [91; 92; 120; 123; 48; 51; 55; 48; 125; 45; 92; 120; 123; 48; 51; 70; 70; 125; 93]);
  (* 8 Cyrillic *)
  ([67; 121; 114; 105; 108; 108; 105; 99],
   [91; 92; 120; 123; 48; 52; 48; 48; 125; 45; 92; 120; 123; 48; 52; 70; 70; 125; 93]);
  (* 9 Armenian *)
  ([65; 114; 109; 101; 110; 105; 97; 110],
   [91; 92; 120; 123; 48; 53; 51; 48; 125; 45; 92; 120; 123; 48; 53; 56; 70; 125; 93]);
  (* 10 Hebrew *)
  ([72; 101; 98; 114; 101; 119],
   [91; 92; 120; 123; 48; 53; 57; 48; 125; 45; 92; 120; 123; 48; 53; 70; 70; 125; 93]);
  (* 11 Arabic *)
  ([65; 114; 97; 98; 105; 99],
   [91; 92; 120; 123; 48; 54; 48; 48; 125; 45; 92; 120; 123; 48; 54; 70; 70; 125; 93]);
  (* 12 Syriac *)
  ([83; 121; 114; 105; 97; 99],
   [91; 92; 120; 123; 48; 55; 48; 48; 125; 45; 92; 120; 123; 48; 55; 52; 70; 125; 93]);
  (* 13 Thaana *)
  ([84; 104; 97; 97; 110; 97],
   [91; 92; 120; 123; 48; 55; 56; 48; 125; 45; 92; 120; 123; 48; 55; 66; 70; 125; 93]);
  (* 14 Devanagari *)
  ([68; 101; 118; 97; 110; 97; 103; 97; 114; 105],
   [91; 92; 120; 123; 48; 57; 48; 48; 125; 45; 92; 120; 123; 48; 57; 55; 70; 125; 93]);
  (* 15 Bengali *)
  ([66; 101; 110; 103; 97; 108; 105],
   [91; 92; 120; 123; 48; 57; 56; 48; 125; 45; 92; 120; 123; 48; 57; 70; 70; 125; 93]);
  (* 16 Gurmukhi *)
  ([71; 117; 114; 109; 117; 107; 104; 105],
   [91; 92; 120; 123; 48; 65; 48; 48; 125; 45; 92; 120; 123; 48; 65; 55; 70; 125; 93]);
  (* 17 Gujarati *)
  ([71; 117; 106; 97; 114; 97; 116; 105],
   [91; 92; 120; 123; 48; 65; 56; 48; 125; 45; 92; 120; 123; 48; 65; 70; 70; 125; 93]);
  (* 18 Oriya *)
  ([79; 114; 105; 121; 97],
   [91; 92; 120; 123; 48; 66; 48; 48; 125; 45; 92; 120; 123; 48; 66; 55; 70; 125; 93]);
  (* 19 Tamil *)
  ([84; 97; 109; 105; 108],
   [91; 92; 120; 123; 48; 66; 56; 48; 125; 45; 92; 120; 123; 48; 66; 70; 70; 125; 93]);
  (* 20 Telugu *)
  ([84; 101; 108; 117; 103; 117],
   [91; 92; 120; 123; 48; 67; 48; 48; 125; 45; 92; 120; 123; 48; 67; 55; 70; 125; 93]);
  (* 21 Kannada *)
  ([75; 97; 110; 110; 97; 100; 97],
   [91; 92; 120; 123; 48; 67; 56; 48; 125; 45; 92; 120; 123; 48; 67; 70; 70; 125; 93]);
  (* 22 Malayalam *)
  ([77; 97; 108; 97; 121; 97; 108; 97; 109],
   [91; 92; 120; 123; 48; 68; 48; 48; 125; 45; 92; 120; 123; 48; 68; 55; 70; 125; 93]);
  (* 23 Sinhala *)
  ([83; 105; 110; 104; 97; 108; 97],
   [91; 92; 120; 123; 48; 68; 56; 48; 125; 45; 92; 120; 123; 48; 68; 70; 70; 125; 93]);
  (* 24 Thai *)
  ([84; 104; 97; 105],
   [91; 92; 120; 123; 48; 69; 48; 48; 125; 45; 92; 120; 123; 48; 69; 55; 70; 125; 93]);
  (* 25 Lao *)
  ([76; 97; 111],
   [91; 92; 120; 123; 48; 69; 56; 48; 125; 45; 92; 120; 123; 48; 69; 70; 70; 125; 93]);
  (* 26 Tibetan *)
  ([84; 105; 98; 101; 116; 97; 110],
   [91; 92; 120; 123; 48; 70; 48; 48; 125; 45; 92; 120; 123; 48; 70; 70; 70; 125; 93]);
  (* 27 Myanmar *)
  ([77; 121; 97; 110; 109; 97; 114],
   [91; 92; 120; 123; 49; 48; 48; 48; 125; 45; 92; 120; 123; 49; 48; 57; 70; 125; 93]);
  (* 28 Georgian *)
  ([71; 101; 111; 114; 103; 105; 97; 110],
   [91; 92; 120; 123; 49; 48; 65; 48; 125; 45; 92; 120; 123; 49; 48; 70; 70; 125; 93]);
  (* 29 HangulJamo *)
  ([72; 97; 110; 103; 117; 108; 74; 97; 109; 111],
   [91; 92; 120; 123; 49; 49; 48; 48; 125; 45; 92; 120; 123; 49; 49; 70; 70; 125; 93]);
  (* 30 Ethiopic *)
  ([69; 116; 104; 105; 111; 112; 105; 99],
   [91; 92; 120; 123; 49; 50; 48; 48; 125; 45; 92; 120; 123; 49; 51; 55; 70; 125; 93]);
  (* 31 Cherokee *)
  ([67; 104; 101; 114; 111; 107; 101; 101],
   [91; 92; 120; 123; 49; 51; 65; 48; 125; 45; 92; 120; 123; 49; 51; 70; 70; 125; 93]);
  (* 32 UnifiedCanadianAboriginalSyllabics *)
  ([85; 110; 105; 102; 105; 101; 100; 67; 97; 110; 97; 100; 105; 97; 110; 65; 98; 111; 114; 105; 103; 105; 110; 97; 108; 83; 121; 108; 108; 97; 98; 105; 99; 115],
   [91; 92; 120; 123; 49; 52; 48; 48; 125; 45; 92; 120; 123; 49; 54; 55; 70; 125; 93]);
  (* 33 Ogham *)
  ([79; 103; 104; 97; 109],
   [91; 92; 120; 123; 49; 54; 56; 48; 125; 45; 92; 120; 123; 49; 54; 57; 70; 125; 93]);
  (* 34 Runic *)
  ([82; 117; 110; 105; 99],
   [91; 92; 120; 123; 49; 54; 65; 48; 125; 45; 92; 120; 123; 49; 54; 70; 70; 125; 93]);
  (* 35 Khmer *)
  ([75; 104; 109; 101; 114],
   [91; 92; 120; 123; 49; 55; 56; 48; 125; 45; 92; 120; 123; 49; 55; 70; 70; 125; 93]);
  (* 36 Mongolian *)
  ([77; 111; 110; 103; 111; 108; 105; 97; 110],
   [91; 92; 120; 123; 49; 56; 48; 48; 125; 45; 92; 120; 123; 49; 56; 65; 70; 125; 93]);
  (* 37 LatinExtendedAdditional *)
  ([76; 97; 116; 105; 110; 69; 120; 116; 101; 110; 100; 101; 100; 65; 100; 100; 105; 116; 105; 111; 110; 97; 108],
   [91; 92; 120; 123; 49; 69; 48; 48; 125; 45; 92; 120; 123; 49; 69; 70; 70; 125; 93]);
  (* 38 GreekExtended *)
  ([71; 114; 101; 101; 107; 69; 120; 116; 101; 110; 100; 101; 100],
   [91; 92; 120; 123; 49; 70; 48; 48; 125; 45; 92; 120; 123; 49; 70; 70; 70; 125; 93]);
  (* 39 GeneralPunctuation *)
  ([71; 101; 110; 101; 114; 97; 108; 80; 117; 110; 99; 116; 117; 97; 116; 105; 111; 110],
   [91; 92; 120; 123; 50; 48; 48; 48; 125; 45; 92; 120; 123; 50; 48; 54; 70; 125; 93]);
  (* 40 SuperscriptsandSubscripts *)
  ([83; 117; 112; 101; 114; 115; 99; 114; 105; 112; 116; 115; 97; 110; 100; 83; 117; 98; 115; 99; 114; 105; 112; 116; 115],
   [91; 92; 120; 123; 50; 48; 55; 48; 125; 45; 92; 120; 123; 50; 48; 57; 70; 125; 93]);
  (* 41 CurrencySymbols *)
  ([67; 117; 114; 114; 101; 110; 99; 121; 83; 121; 109; 98; 111; 108; 115],
   [91; 92; 120; 123; 50; 48; 65; 48; 125; 45; 92; 120; 123; 50; 48; 67; 70; 125; 93]);
  (* 42 CombiningMarksforSymbols *)
  ([67; 111; 109; 98; 105; 110; 105; 110; 103; 77; 97; 114; 107; 115; 102; 111; 114; 83; 121; 109; 98; 111; 108; 115],
   [91; 92; 120; 123; 50; 48; 68; 48; 125; 45; 92; 120; 123; 50; 48; 70; 70; 125; 93]);
  (* 43 LetterlikeSymbols *)
  ([76; 101; 116; 116; 101; 114; 108; 105; 107; 101; 83; 121; 109; 98; 111; 108; 115],
   [91; 92; 120; 123; 50; 49; 48; 48; 125; 45; 92; 120; 123; 50; 49; 52; 70; 125; 93]);
  (* 44 NumberForms *)
  ([78; 117; 109; 98; 101; 114; 70; 111; 114; 109; 115],
   [91; 92; 120; 123; 50; 49; 53; 48; 125; 45; 92; 120; 123; 50; 49; 56; 70; 125; 93]);
  (* 45 Arrows *)
  ([65; 114; 114; 111; 119; 115],
   [91; 92; 120; 123; 50; 49; 57; 48; 125; 45; 92; 120; 123; 50; 49; 70; 70; 125; 93]);
  (* 46 MathematicalOperators *)
  ([77; 97; 116; 104; 101; 109; 97; 116; 105; 99; 97; 108; 79; 112; 101; 114; 97; 116; 111; 114; 115],
   [91; 92; 120; 123; 50; 50; 48; 48; 125; 45; 92; 120; 123; 50; 50; 70; 70; 125; 93]);
  (* 47 MiscellaneousTechnical *)
  ([77; 105; 115; 99; 101; 108; 108; 97; 110; 101; 111; 117; 115; 84; 101; 99; 104; 110; 105; 99; 97; 108],
   [91; 92; 120; 123; 50; 51; 48; 48; 125; 45; 92; 120; 123; 50; 51; 70; 70; 125; 93]);
  (* 48 ControlPictures *)
  ([67; 111; 110; 116; 114; 111; 108; 80; 105; 99; 116; 117; 114; 101; 115],
   [91; 92; 120; 123; 50; 52; 48; 48; 125; 45; 92; 120; 123; 50; 52; 51; 70; 125; 93]);
  (* 49 OpticalCharacterRecognition *)
  ([79; 112; 116; 105; 99; 97; 108; 67; 104; 97; 114; 97; 99; 116; 101; 114; 82; 101; 99; 111; 103; 110; 105; 116; 105; 111; 110],
   [91; 92; 120; 123; 50; 52; 52; 48; 125; 45; 92; 120; 123; 50; 52; 53; 70; 125; 93]);
  (* 50 EnclosedAlphanumerics *)
  ([69; 110; 99; 108; 111; 115; 101; 100; 65; 108; 112; 104; 97; 110; 117; 109; 101; 114; 105; 99; 115],
   [91; 92; 120; 123; 50; 52; 54; 48; 125; 45; 92; 120; 123; 50; 52; 70; 70; 125; 93]);
  (* 51 BoxDrawing *)
  ([66; 111; 120; 68; 114; 97; 119; 105; 110; 103],
   [91; 92; 120; 123; 50; 53; 48; 48; 125; 45; 92; 120; 123; 50; 53; 55; 70; 125; 93]);
  (* 52 BlockElements *)
  ([66; 108; 111; 99; 107; 69; 108; 101; 109; 101; 110; 116; 115],
   [91; 92; 120; 123; 50; 53; 56; 48; 125; 45; 92; 120; 123; 50; 53; 57; 70; 125; 93]);
  (* 53 GeometricShapes *)
  ([71; 101; 111; 109; 101; 116; 114; 105; 99; 83; 104; 97; 112; 101; 115],
   [91; 92; 120; 123; 50; 53; 65; 48; 125; 45; 92; 120; 123; 50; 53; 70; 70; 125; 93]);
  (* 54 MiscellaneousSymbols *)
  ([77; 105; 115; 99; 101; 108; 108; 97; 110; 101; 111; 117; 115; 83; 121; 109; 98; 111; 108; 115],
   [91; 92; 120; 123; 50; 54; 48; 48; 125; 45; 92; 120; 123; 50; 54; 70; 70; 125; 93]);
  (* 55 Dingbats *)
  ([68; 105; 110; 103; 98; 97; 116; 115],
   [91; 92; 120; 123; 50; 55; 48; 48; 125; 45; 92; 120; 123; 50; 55; 66; 70; 125; 93]);
  (* 56 BraillePatterns *)
  ([66; 114; 97; 105; 108; 108; 101; 80; 97; 116; 116; 101; 114; 110; 115],
   [91; 92; 120; 123; 50; 56; 48; 48; 125; 45; 92; 120; 123; 50; 56; 70; 70; 125; 93]);
  (* 57 CJKRadicalsSupplement *)
  ([67; 74; 75; 82; 97; 100; 105; 99; 97; 108; 115; 83; 117; 112; 112; 108; 101; 109; 101; 110; 116],
   [91; 92; 120; 123; 50; 69; 56; 48; 125; 45; 92; 120; 123; 50; 69; 70; 70; 125; 93]);
  (* 58 KangxiRadicals *)
  ([75; 97; 110; 103; 120; 105; 82; 97; 100; 105; 99; 97; 108; 115],
   [91; 92; 120; 123; 50; 70; 48; 48; 125; 45; 92; 120; 123; 50; 70; 68; 70; 125; 93]);
  (* 59 IdeographicDescriptionCharacters *)
  ([73; 100; 101; 111; 103; 114; 97; 112; 104; 105; 99; 68; 101; 115; 99; 114; 105; 112; 116; 105; 111; 110; 67; 104; 97; 114; 97; 99; 116; 101; 114; 115],
   [91; 92; 120; 123; 50; 70; 70; 48; 125; 45; 92; 120; 123; 50; 70; 70; 70; 125; 93]);
  (* 60 CJKSymbolsandPunctuation *)
  ([67; 74; 75; 83; 121; 109; 98; 111; 108; 115; 97; 110; 100; 80; 117; 110; 99; 116; 117; 97; 116; 105; 111; 110],
   [91; 92; 120; 123; 51; 48; 48; 48; 125; 45; 92; 120; 123; 51; 48; 51; 70; 125; 93]);
  (* 61 Hiragana *)
  ([72; 105; 114; 97; 103; 97; 110; 97],
   [91; 92; 120; 123; 51; 48; 52; 48; 125; 45; 92; 120; 123; 51; 48; 57; 70; 125; 93]);
  (* 62 Katakana *)
  ([75; 97; 116; 97; 107; 97; 110; 97],
   [91; 92; 120; 123; 51; 48; 65; 48; 125; 45; 92; 120; 123; 51; 48; 70; 70; 125; 93]);
  (* 63 Bopomofo *)
  ([66; 111; 112; 111; 109; 111; 102; 111],
   [91; 92; 120; 123; 51; 49; 48; 48; 125; 45; 92; 120; 123; 51; 49; 50; 70; 125; 93]);
  (* 64 HangulCompatibilityJamo *)
  ([72; 97; 110; 103; 117; 108; 67; 111; 109; 112; 97; 116; 105; 98; 105; 108; 105; 116; 121; 74; 97; 109; 111],
   [91; 92; 120; 123; 51; 49; 51; 48; 125; 45; 92; 120; 123; 51; 49; 56; 70; 125; 93]);
  (* 65 Kanbun *)
  ([75; 97; 110; 98; 117; 110],
   [91; 92; 120; 123; 51; 49; 57; 48; 125; 45; 92; 120; 123; 51; 49; 57; 70; 125; 93]);
  (* 66 BopomofoExtended *)
  ([66; 111; 112; 111; 109; 111; 102; 111; 69; 120; 116; 101; 110; 100; 101; 100],
   [91; 92; 120; 123; 51; 49; 65; 48; 125; 45; 92; 120; 123; 51; 49; 66; 70; 125; 93]);
  (* 67 EnclosedCJKLettersandMonths *)
  ([69; 110; 99; 108; 111; 115; 101; 100; 67; 74; 75; 76; 101; 116; 116; 101; 114; 115; 97; 110; 100; 77; 111; 110; 116; 104; 115],
   [91; 92; 120; 123; 51; 50; 48; 48; 125; 45; 92; 120; 123; 51; 50; 70; 70; 125; 93]);
  (* 68 CJKCompatibility *)
  ([67; 74; 75; 67; 111; 109; 112; 97; 116; 105; 98; 105; 108; 105; 116; 121],
   [91; 92; 120; 123; 51; 51; 48; 48; 125; 45; 92; 120; 123; 51; 51; 70; 70; 125; 93]);
  (* 69 CJKUnifiedIdeographsExtensionA *)
  ([67; 74; 75; 85; 110; 105; 102; 105; 101; 100; 73; 100; 101; 111; 103; 114; 97; 112; 104; 115; 69; 120; 116; 101; 110; 115; 105; 111; 110; 65],
   [91; 92; 120; 123; 51; 52; 48; 48; 125; 45; 92; 120; 123; 52; 68; 66; 53; 125; 93]);
  (* 70 CJKUnifiedIdeographs *)
  ([67; 74; 75; 85; 110; 105; 102; 105; 101; 100; 73; 100; 101; 111; 103; 114; 97; 112; 104; 115],
   [91; 92; 120; 123; 52; 69; 48; 48; 125; 45; 92; 120; 123; 57; 70; 70; 70; 125; 93]);
  (* 71 YiSyllables *)
  ([89; 105; 83; 121; 108; 108; 97; 98; 108; 101; 115],
   [91; 92; 120; 123; 65; 48; 48; 48; 125; 45; 92; 120; 123; 65; 52; 56; 70; 125; 93]);
  (* 72 YiRadicals *)
  ([89; 105; 82; 97; 100; 105; 99; 97; 108; 115],
   [91; 92; 120; 123; 65; 52; 57; 48; 125; 45; 92; 120; 123; 65; 52; 67; 70; 125; 93]);
  (* 73 HangulSyllables *)
  ([72; 97; 110; 103; 117; 108; 83; 121; 108; 108; 97; 98; 108; 101; 115],
   [91; 92; 120; 123; 65; 67; 48; 48; 125; 45; 92; 120; 123; 68; 55; 65; 51; 125; 93]);
  (* 74 PrivateUse *)
  ([80; 114; 105; 118; 97; 116; 101; 85; 115; 101],
   [91; 92; 120; 123; 69; 48; 48; 48; 125; 45; 92; 120; 123; 70; 56; 70; 70; 125; 93]);
  (* 75 CJKCompatibilityIdeographs *)
  ([67; 74; 75; 67; 111; 109; 112; 97; 116; 105; 98; 105; 108; 105; 116; 121; 73; 100; 101; 111; 103; 114; 97; 112; 104; 115],
   [91; 92; 120; 123; 70; 57; 48; 48; 125; 45; 92; 120; 123; 70; 65; 70; 70; 125; 93]);
  (* 76 AlphabeticPresentationForms *)
  ([65; 108; 112; 104; 97; 98; 101; 116; 105; 99; 80; 114; 101; 115; 101; 110; 116; 97; 116; 105; 111; 110; 70; 111; 114; 109; 115],
   [91; 92; 120; 123; 70; 66; 48; 48; 125; 45; 92; 120; 123; 70; 66; 52; 70; 125; 93]);
  (* 77 ArabicPresentationForms-A *)
  ([65; 114; 97; 98; 105; 99; 80; 114; 101; 115; 101; 110; 116; 97; 116; 105; 111; 110; 70; 111; 114; 109; 115; 45; 65],
   [91; 92; 120; 123; 70; 66; 53; 48; 125; 45; 92; 120; 123; 70; 68; 70; 70; 125; 93]);
  (* 78 CombiningHalfMarks *)
  ([67; 111; 109; 98; 105; 110; 105; 110; 103; 72; 97; 108; 102; 77; 97; 114; 107; 115],
   [91; 92; 120; 123; 70; 69; 50; 48; 125; 45; 92; 120; 123; 70; 69; 50; 70; 125; 93]);
  (* 79 CJKCompatibilityForms *)
  ([67; 74; 75; 67; 111; 109; 112; 97; 116; 105; 98; 105; 108; 105; 116; 121; 70; 111; 114; 109; 115],
   [91; 92; 120; 123; 70; 69; 51; 48; 125; 45; 92; 120; 123; 70; 69; 52; 70; 125; 93]);
  (* 80 SmallFormVariants *)
  ([83; 109; 97; 108; 108; 70; 111; 114; 109; 86; 97; 114; 105; 97; 110; 116; 115],
   [91; 92; 120; 123; 70; 69; 53; 48; 125; 45; 92; 120; 123; 70; 69; 54; 70; 125; 93]);
  (* 81 ArabicPresentationForms-B *)
  ([65; 114; 97; 98; 105; 99; 80; 114; 101; 115; 101; 110; 116; 97; 116; 105; 111; 110; 70; 111; 114; 109; 115; 45; 66],
   [91; 92; 120; 123; 70; 69; 55; 48; 125; 45; 92; 120; 123; 70; 69; 70; 69; 125; 93]);
  (* 82 HalfwidthandFullwidthForms *)
  ([72; 97; 108; 102; 119; 105; 100; 116; 104; 97; 110; 100; 70; 117; 108; 108; 119; 105; 100; 116; 104; 70; 111; 114; 109; 115],
   [91; 92; 120; 123; 70; 70; 48; 48; 125; 45; 92; 120; 123; 70; 70; 69; 70; 125; 93]);
  (* 83 Specials *)
  ([83; 112; 101; 99; 105; 97; 108; 115],
   [91; 92; 120; 123; 70; 69; 70; 70; 125; 124; 92; 120; 123; 70; 70; 70; 48; 125; 45; 92; 120; 123; 70; 70; 70; 68; 125; 93])
].


Definition URANGE_LEN : nat := 19.

(* ---- lys_compile_type_pattern_check(): the while loop over orig_ptr ----------------------------
   brack   = number of unescaped '[' minus unescaped ']' seen so far (size_t, cannot overflow: it is
             bounded by the pattern length; never decremented at 0: that is the Err 1 exit),
   escaped = the previous byte was an unescaped backslash.
   The result is the text written to perl_regex, or Err 1 for the LY_EVALID exit. *)
Definition is_anchor (c : N) : bool := (c =? 36) || (c =? 94).      (* '$' '^' *)

Fixpoint esc_pass (brack : N) (escaped : bool) (p : bytes) : res bytes :=
  match p with
  | [] => Ok []
  | c :: p' =>
      if c =? 92 then                                               (* case '\\': toggle, copy, continue *)
        bind (esc_pass brack (negb escaped) p') (fun o => Ok (92 :: o))
      else if is_anchor c then                                      (* case '$': case '^': if (!brack && !escaped) *)
        bind (esc_pass brack false p')
             (fun o => Ok (if (brack =? 0) && negb escaped then 92 :: c :: o else c :: o))
      else if c =? 91 then                                          (* case '[' *)
        bind (esc_pass (if escaped then brack else brack + 1) false p') (fun o => Ok (c :: o))
      else if c =? 93 then                                          (* case ']' *)
        if (brack =? 0) && negb escaped then Err 1
        else bind (esc_pass (if escaped then brack else brack - 1) false p') (fun o => Ok (c :: o))
      else bind (esc_pass brack false p') (fun o => Ok (c :: o))    (* default *)
  end.

(* ---- lys_compile_pattern_chblocks_xmlschema2perl() -------------------------------------------- *)
Definition needle : bytes := [92; 112; 123; 73; 115].               (* \p{Is *)

(* strstr(s, nd): (text before the first occurrence, text from the occurrence on) *)
Fixpoint find_sub (nd s : bytes) : option (bytes * bytes) :=
  if starts_with nd s then Some ([], s)
  else match s with
       | [] => None
       | c :: s' => match find_sub nd s' with
                    | Some (b, a) => Some (c :: b, a)
                    | None => None
                    end
       end.

(* strchr(s, ch): the text after the first ch *)
Fixpoint after_char (ch : N) (s : bytes) : option bytes :=
  match s with
  | [] => None
  | c :: s' => if c =? ch then Some s' else after_char ch s'
  end.

(* for (idx = 0; ublock2urange[idx][0]; ++idx) if (!strncmp(text, name, strlen(name))) break;
   the first entry whose name is a prefix of the text (defect D4), None = the {NULL, NULL} entry *)
Definition block_find (text : bytes) : option (bytes * bytes) :=
  find (fun e => starts_with (fst e) text) ublock2urange.

(* for (idx2 = 0, brack = 0; idx2 < start; ++idx2) ... : the bracket counter over the text before
   the occurrence; prev = previous byte (0 at the start: no byte before). brack is a size_t and
   --brack at 0 wraps to SIZE_MAX (defined); it is only tested against 0. The counter is modelled
   in Z: its absolute value is at most the length of the text, which is below 2^64 for a C string,
   so (count mod 2^64) is 0 exactly when the count is 0. *)
Fixpoint brk_count (prev : N) (s : bytes) (acc : Z) : Z :=
  match s with
  | [] => acc
  | c :: s' =>
      let acc1 := if (c =? 91) && negb (prev =? 92) then (acc + 1)%Z else acc in
      let acc2 := if (c =? 93) && negb (prev =? 92) then (acc1 - 1)%Z else acc1 in
      brk_count c s' acc2
  end.

(* one iteration of the while loop: None = no occurrence left *)
Definition chblocks_step (s : bytes) : option (res bytes) :=
  match find_sub needle s with
  | None => None
  | Some (before, at_) =>
      match after_char 125 at_ with                                  (* strchr(ptr, '}') *)
      | None => Some (Err 2)
      | Some rest =>
          match block_find (skipn 5 at_) with
          | None => Some (Err 3)
          | Some e =>
              if (brk_count 0 before 0%Z =? 0)%Z then                (* if (brack) ... else ... *)
                Some (Ok (before ++ firstn URANGE_LEN (snd e) ++ rest))
              else
                Some (Ok (before ++ firstn (URANGE_LEN - 2) (skipn 1 (snd e)) ++ rest))
          end
      end
  end.

Fixpoint chblocks (fuel : nat) (s : bytes) : res bytes :=
  match fuel with
  | O => Err 9
  | S f => match chblocks_step s with
           | None => Ok s
           | Some (Err e) => Err e
           | Some (Ok s') => chblocks f s'
           end
  end.

(* the text that reaches pcre2_compile() for pattern p (PCRE2_ENDANCHORED is defined for every
   PCRE2 >= 10.30, so no trailing '$' is appended) *)
Definition rewrite (p : bytes) : res bytes :=
  bind (esc_pass 0 false p) (fun q => chblocks (S (length q)) q).

(* ---- Spec: what the block rewrite is meant to do -------------------------------------------------
   The first pass has no separate Spec any more: since 97840a6 esc_pass IS the intended function (a
   backslash in front of every UNESCAPED '^' / '$' outside brackets); what it does to a pattern is
   stated independently, on tokens, by RewriteP.rewrite_caret_dollar.
   chblocks_step_spec: the block named between \p{Is and } (EXACT name) selects the range, the whole
   replacement text of the table is written, and the bracket depth - counted with the escape
   tracking of the first pass, depth_spec - decides whether the range keeps its own brackets. *)
Fixpoint depth_spec (escaped : bool) (s : bytes) (acc : Z) : Z :=
  match s with
  | [] => acc
  | c :: s' =>
      if c =? 92 then depth_spec (negb escaped) s' acc
      else if escaped then depth_spec false s' acc
      else if c =? 91 then depth_spec false s' (acc + 1)%Z
      else if c =? 93 then depth_spec false s' (acc - 1)%Z
      else depth_spec false s' acc
  end.

Fixpoint before_char (ch : N) (s : bytes) : bytes :=
  match s with
  | [] => []
  | c :: s' => if c =? ch then [] else c :: before_char ch s'
  end.

Definition chblocks_step_spec (s : bytes) : option (res bytes) :=
  match find_sub needle s with
  | None => None
  | Some (before, at_) =>
      match after_char 125 at_ with
      | None => Some (Err 2)
      | Some rest =>
          match find (fun e => beq_bytes (fst e) (before_char 125 (skipn 5 at_))) ublock2urange with
          | None => Some (Err 3)
          | Some e =>
              let rng := snd e in
              if (depth_spec false before 0%Z =? 0)%Z then Some (Ok (before ++ rng ++ rest))
              else Some (Ok (before ++ removelast (skipn 1 rng) ++ rest))
          end
      end
  end.

Fixpoint chblocks_spec (fuel : nat) (s : bytes) : res bytes :=
  match fuel with
  | O => Err 9
  | S f => match chblocks_step_spec s with
           | None => Ok s
           | Some (Err e) => Err e
           | Some (Ok s') => chblocks_spec f s'
           end
  end.

Definition rewrite_spec (p : bytes) : res bytes :=
  bind (esc_pass 0 false p) (fun q => chblocks_spec (S (length q)) q).

(* the class of patterns on which the code is proved to be the Spec (RewriteP.rewrite_eq_spec):
   every occurrence of \p{Is is followed by a name that the lookup of the code resolves to the entry
   of exactly that name (the text goes on with '}'; this excludes the six names shadowed by an
   earlier entry that is a prefix of them, D4) and whose replacement text is not cut (D5) *)
Definition name_exact (text : bytes) : bool :=
  match block_find text with
  | Some e => starts_with (fst e ++ [125]) text && (length (snd e) =? URANGE_LEN)%nat
  | None => false
  end.

Fixpoint blocks_exact (s : bytes) : bool :=
  (if starts_with needle s then name_exact (skipn 5 s) else true) &&
  match s with
  | [] => true
  | _ :: s' => blocks_exact s'
  end.

(* ---- lyplg_type_validate_patterns() (src/plugins_types.c) over an abstract matcher ------------
   code_match c s models ly_pattern_code_match(): Ok true = LY_SUCCESS (match), Ok false = LY_ENOT,
   Err e = any other return value. Result of validate_patterns: Ok true = LY_SUCCESS, Ok false =
   LY_EVALID (a pattern restriction is not satisfied), Err e = the matcher failed. *)
Section Validate.
  Variable code : Type.
  Variable code_match : code -> bytes -> res bool.

  Record pattern := { pat_code : code; pat_inverted : bool }.

  Fixpoint validate_patterns (ps : list pattern) (s : bytes) : res bool :=
    match ps with
    | [] => Ok true
    | p :: ps' =>
        match code_match (pat_code p) s with
        | Err e => Err e                                             (* LY_CHECK_RET(r && r != LY_ENOT) *)
        | Ok m =>
            if (negb m && negb (pat_inverted p)) || (m && pat_inverted p) then Ok false
            else validate_patterns ps' s
        end
    end.

  (* lys_compile_type_patterns() (src/schema_compile_node.c): the compiled pattern array of a type is a copy
     of the array of its base type (lysc_patterns_dup), followed by one NEW element per pattern statement of
     the type itself, in source order; the new element - not the element with the index of the parsed
     statement - is inverted iff the statement carries modifier invert-match (arg.str[0] is the NACK byte).
     A parsed pattern is (inverted, code); compiling the expression to a code is lys_compile_type_pattern_check
     (rewrite above + PCRE2) and is kept abstract here. *)
  Definition compile_type_patterns (base : list pattern) (parsed : list (bool * code)) : list pattern :=
    base ++ map (fun q => {| pat_code := snd q; pat_inverted := fst q |}) parsed.

  (* a typedef chain: levels are the pattern statements of the innermost typedef (on the built-in string),
     of the typedef derived from it, ..., of the type statement of the leaf itself (any of them may be empty) *)
  Fixpoint chain_patterns (base : list pattern) (levels : list (list (bool * code))) : list pattern :=
    match levels with
    | [] => base
    | l :: ls => chain_patterns (compile_type_patterns base l) ls
    end.

  (* lys_compile_type_() case LY_TYPE_STRING: a string type has an optional length restriction (parts min..max in
     characters) and patterns. A level of a typedef chain is (its length statement if it has one, its pattern
     statements). Length: the own statement is compiled (lys_compile_type_range also checks that it restricts the
     base's - not modelled, the generators nest the lengths), else the base's is duplicated. Patterns: when the
     level has pattern statements, lys_compile_type_patterns() on the base's patterns, else the base's are
     duplicated - the two restrictions are handled independently of each other. *)
  Definition length_restr := list (N * N).
  Record str_type := { st_length : option length_restr; st_patterns : list pattern }.

  Definition compile_string_type (base : str_type) (lvl : option length_restr * list (bool * code)) : str_type :=
    {| st_length := match fst lvl with
                    | Some l => Some l                                (* if (type_p->length) *)
                    | None => st_length base                          (* else if (base && base->length) lysc_range_dup *)
                    end;
       st_patterns := match snd lvl with
                      | [] => st_patterns base                        (* else if (base && base->patterns) lysc_patterns_dup *)
                      | ps => compile_type_patterns (st_patterns base) ps   (* if (type_p->patterns) *)
                      end |}.

  Fixpoint chain_type (base : str_type) (levels : list (option length_restr * list (bool * code))) : str_type :=
    match levels with
    | [] => base
    | l :: ls => chain_type (compile_string_type base l) ls
    end.

  Definition string_builtin : str_type := {| st_length := None; st_patterns := [] |}.

  (* lyplg_type_store_string() (src/plugins_types/string.c): length in characters first, then the patterns *)
  Definition in_length (r : length_restr) (n : N) : bool :=
    existsb (fun p => (fst p <=? n) && (n <=? snd p)) r.

  Definition validate_string (t : str_type) (nchars : N) (s : bytes) : res bool :=
    match st_length t with
    | Some r => if in_length r nchars then validate_patterns (st_patterns t) s else Ok false
    | None => validate_patterns (st_patterns t) s
    end.
End Validate.
