(* RBTree.v - model of the red-black tree of src/tree_data_sorted.c (BSD tree.h style, taken over from
   FRRouting / OpenBSD subr_tree.c): rb_insert_node, rb_insert_color, rb_remove, rb_remove_color,
   rb_find, rb_prev, rb_next, rotations.  MODEL ONLY (proofs: RBTreeP.v).

   Representation (DESIGN.md Appendix C.5).  The C nodes carry parent pointers; a position in the
   tree is modelled by a zipper (path, subtree): the path lists the ancestors from the nearest parent
   up to the root, each frame holding the ancestor's colour, key and OTHER subtree.  RBN_PARENT(x) is
   the head of the path, `x == RBN_LEFT(parent)` is the frame constructor (FL / FR).  The two fix-up
   loops walk towards the root, so they are structural recursions on the path.

   Dereferences that the C code does not guard (gparent in rb_insert_color, the sibling `tmp` and
   the rotated child in rb_remove_color and the rotations) answer [None] in the model when the pointer
   would be NULL; RBTreeP.v proves that this never happens on trees satisfying the red-black
   invariant (C04_rb_remove_no_null_deref).

   Keys: the C compare callback (rb_compare_leaflists / rb_compare_lists -> type plugin `sort`)
   returns an int of which only the sign is used; it is the Section variable [cmp] with
   cmp a b = Gt  <->  rb_compare(a, b) > 0.  Elements are data nodes, so two elements can compare
   Eq and still be different nodes; [ideq] is pointer equality of the data nodes. *)
From LY Require Import Base.

Inductive color : Type := Red | Black.

Section RBTree.
Variable A : Type.
Variable cmp : A -> A -> comparison.
Variable ideq : A -> A -> bool.

Inductive tree : Type :=
| Leaf
| Node (c : color) (l : tree) (k : A) (r : tree).

(* FL c k r: the position is the LEFT child of a node (c, _, k, r); FR c l k: the RIGHT child of (c, l, k, _) *)
Inductive frame : Type :=
| FL (c : color) (k : A) (r : tree)
| FR (c : color) (l : tree) (k : A).

Definition path := list frame.

Definition plug (f : frame) (t : tree) : tree :=
  match f with
  | FL c k r => Node c t k r
  | FR c l k => Node c l k t
  end.

Fixpoint zip (p : path) (t : tree) : tree :=
  match p with
  | [] => t
  | f :: p' => zip p' (plug f t)
  end.

Fixpoint inorder (t : tree) : list A :=
  match t with
  | Leaf => []
  | Node _ l k r => inorder l ++ k :: inorder r
  end.

Fixpoint size (t : tree) : nat :=
  match t with
  | Leaf => 0
  | Node _ l _ r => size l + 1 + size r
  end.

(* elements in-order before / after the position described by a path *)
Fixpoint before (p : path) : list A :=
  match p with
  | [] => []
  | FL _ _ _ :: p' => before p'
  | FR _ l k :: p' => before p' ++ inorder l ++ [k]
  end.

Fixpoint after (p : path) : list A :=
  match p with
  | [] => []
  | FL _ k r :: p' => k :: inorder r ++ after p'
  | FR _ _ _ :: p' => after p'
  end.

Definition frame_color (f : frame) : color :=
  match f with FL c _ _ => c | FR c _ _ => c end.

Definition frame_set (c : color) (f : frame) : frame :=
  match f with FL _ k r => FL c k r | FR _ l k => FR c l k end.

(* (tmp != NULL) && (RBN_COLOR(tmp) == RB_RED) *)
Definition is_red (t : tree) : bool :=
  match t with Node Red _ _ _ => true | _ => false end.

(* if (x != NULL) RBN_COLOR(x) = RB_BLACK *)
Definition blacken (t : tree) : tree :=
  match t with Leaf => Leaf | Node _ l k r => Node Black l k r end.

(* ---------------------------------------------------------------------------------------------
   rb_insert_node(): the search loop.
       comp = rb_compare(RBN_DNODE(tmp), RBN_DNODE(rbn));
       if (comp > 0) { tmp = RBN_LEFT(tmp); max = 0; } else { tmp = RBN_RIGHT(tmp); }
   An equal key goes to the RIGHT, i.e. after the existing equal ones.  Result: the path to the
   NULL position where the node is linked (rb_set: red, no children) and the `max` flag. *)
Fixpoint descend (t : tree) (x : A) (p : path) (mx : bool) : path * bool :=
  match t with
  | Leaf => (p, mx)
  | Node c l k r =>
    match cmp k x with
    | Gt => descend l x (FL c k r :: p) false
    | _ => descend r x (FR c l k :: p) mx
    end
  end.

(* ---------------------------------------------------------------------------------------------
   rb_insert_color(rbt, rbn): rbn is the root of [t] at path [p].
       while ((parent = RBN_PARENT(rbn)) != NULL && RBN_COLOR(parent) == RB_RED) {
           gparent = RBN_PARENT(parent);            -- not checked against NULL
           if (parent == RBN_LEFT(gparent)) {
               tmp = RBN_RIGHT(gparent);
               if (tmp != NULL && RBN_COLOR(tmp) == RB_RED) {
                   tmp black; parent black; gparent red; rbn = gparent; continue; }
               if (RBN_RIGHT(parent) == rbn) { rb_rotate_left(parent); swap(parent, rbn); }
               parent black; gparent red; rb_rotate_right(gparent);
           } else { mirror image }
       }
   After a rotation case the parent of rbn is black, so the loop ends: the model returns.
   The result is the whole tree (the final `RBN_COLOR( *rbt) = RB_BLACK` is applied by rb_insert). *)
Fixpoint ins_color (p : path) (t : tree) : option tree :=
  match p with
  | [] => Some t
  | pf :: p1 =>
    match frame_color pf with
    | Black => Some (zip p t)
    | Red =>
      match p1 with
      | [] => None                                   (* RBN_LEFT(gparent) with gparent == NULL *)
      | FL gc gk gr :: rest =>                       (* parent == RBN_LEFT(gparent), uncle gr *)
        if is_red gr then
          ins_color rest (Node Red (plug (frame_set Black pf) t) gk (blacken gr))
        else
          match pf with
          | FL pc pk pr =>                           (* rbn is the left child: one rotation *)
            Some (zip rest (Node Black t pk (Node Red pr gk gr)))
          | FR pc pl pk =>                           (* RBN_RIGHT(parent) == rbn: rotate left, then right *)
            match t with
            | Leaf => None
            | Node c l k r => Some (zip rest (Node Black (Node pc pl pk l) k (Node Red r gk gr)))
            end
          end
      | FR gc gl gk :: rest =>                       (* parent == RBN_RIGHT(gparent), uncle gl *)
        if is_red gl then
          ins_color rest (Node Red (blacken gl) gk (plug (frame_set Black pf) t))
        else
          match pf with
          | FR pc pl pk =>
            Some (zip rest (Node Black (Node Red gl gk pl) pk t))
          | FL pc pk pr =>                           (* RBN_LEFT(parent) == rbn: rotate right, then left *)
            match t with
            | Leaf => None
            | Node c l k r => Some (zip rest (Node Black (Node Red gl gk l) k (Node pc r pk pr)))
            end
          end
      end
    end
  end.

(* rb_insert_node(): search, rb_set(rbn, parent) (red leaf), link, rb_insert_color, root black *)
Definition rb_insert (t : tree) (x : A) : option tree :=
  option_map blacken (ins_color (fst (descend t x [] true)) (Node Red Leaf x Leaf)).

(* the `max` output of rb_insert_node: the search never went left *)
Definition rb_insert_max (t : tree) (x : A) : bool := snd (descend t x [] true).

(* ---------------------------------------------------------------------------------------------
   rb_remove_color(rbt, parent, rbn).  One iteration with RBN_LEFT(parent) == rbn, entered after the
   red-sibling rotation if there was one: parent = (pc, t, pk, tmp).
       if (both children of tmp are NULL or black) { tmp red; rbn = parent; parent = RBN_PARENT(rbn); }   -> Up
       else { if (RBN_RIGHT(tmp) NULL or black) { oleft black; tmp red; rb_rotate_right(tmp); tmp = RBN_RIGHT(parent); }
              tmp.color = parent.color; parent black; RBN_RIGHT(tmp) black; rb_rotate_left(parent);
              rbn = *rbt; break; }                                                                        -> Stop
   Up s / Stop s: s is the subtree that now stands where the parent stood. *)
Inductive fix_res : Type :=
| Up (s : tree)
| Stop (s : tree).

Definition fix_left (pc : color) (t : tree) (pk : A) (tmp : tree) : option fix_res :=
  match tmp with
  | Leaf => None                                     (* RBN_LEFT(tmp) with tmp == NULL *)
  | Node tc tl tk tr =>
    if negb (is_red tl) && negb (is_red tr) then
      Some (Up (Node pc t pk (Node Red tl tk tr)))
    else if negb (is_red tr) then
      match tl with
      | Leaf => None                                 (* rb_rotate_right(tmp) with RBN_LEFT(tmp) == NULL *)
      | Node _ tll tlk tlr =>
        Some (Stop (Node pc (Node Black t pk tll) tlk (Node Black tlr tk tr)))
      end
    else
      Some (Stop (Node pc (Node Black t pk tl) tk (blacken tr)))
  end.

(* mirror image: RBN_RIGHT(parent) == rbn, parent = (pc, tmp, pk, t) *)
Definition fix_right (pc : color) (tmp : tree) (pk : A) (t : tree) : option fix_res :=
  match tmp with
  | Leaf => None
  | Node tc tl tk tr =>
    if negb (is_red tl) && negb (is_red tr) then
      Some (Up (Node pc (Node Red tl tk tr) pk t))
    else if negb (is_red tl) then
      match tr with
      | Leaf => None
      | Node _ trl trk trr =>
        Some (Stop (Node pc (Node Black tl tk trl) trk (Node Black trr pk t)))
      end
    else
      Some (Stop (Node pc (blacken tl) tk (Node Black tr pk t)))
  end.

(*     while ((rbn == NULL || RBN_COLOR(rbn) == RB_BLACK) && rbn != *rbt && parent) {
           if (RBN_LEFT(parent) == rbn) {
               tmp = RBN_RIGHT(parent);
               if (RBN_COLOR(tmp) == RB_RED) {           -- tmp not checked against NULL
                   tmp black; parent red; rb_rotate_left(parent); tmp = RBN_RIGHT(parent); }
               ... fix_left ...
           } else mirror image
       }
       if (rbn != NULL) RBN_COLOR(rbn) = RB_BLACK;
   After the red-sibling rotation the parent is red; if fix_left answers Up the next loop test sees
   the red rbn = parent and leaves the loop, so that iteration is written out here.  After `break`
   rbn is the root, which is then coloured black. *)
Fixpoint rem_color (p : path) (t : tree) : option tree :=
  if is_red t then Some (zip p (blacken t))
  else
    match p with
    | [] => Some (blacken t)
    | FL pc pk pr :: rest =>
      match pr with
      | Leaf => None                                 (* RBN_COLOR(tmp) with tmp == NULL *)
      | Node Red tl tk tr =>
        match fix_left Red t pk tl with
        | None => None
        | Some (Up s) => Some (zip (FL Black tk tr :: rest) (blacken s))
        | Some (Stop s) => Some (blacken (zip (FL Black tk tr :: rest) s))
        end
      | Node Black _ _ _ =>
        match fix_left pc t pk pr with
        | None => None
        | Some (Up s) => rem_color rest s
        | Some (Stop s) => Some (blacken (zip rest s))
        end
      end
    | FR pc pl pk :: rest =>
      match pl with
      | Leaf => None
      | Node Red tl tk tr =>
        match fix_right Red tr pk t with
        | None => None
        | Some (Up s) => Some (zip (FR Black tl tk :: rest) (blacken s))
        | Some (Stop s) => Some (blacken (zip (FR Black tl tk :: rest) s))
        end
      | Node Black _ _ _ =>
        match fix_right pc pl pk t with
        | None => None
        | Some (Up s) => rem_color rest s
        | Some (Stop s) => Some (blacken (zip rest s))
        end
      end
    end.

(* ---------------------------------------------------------------------------------------------
   rb_remove(rbt, rbn).  `rbn = RBN_RIGHT(rbn); while ((tmp = RBN_LEFT(rbn))) rbn = tmp;`:
   path (inside the right subtree) to its minimum, with the minimum's colour, key, right child. *)
Fixpoint min_path (t : tree) (p : path) : option (path * color * A * tree) :=
  match t with
  | Leaf => None
  | Node c l k r =>
    match l with
    | Leaf => Some (p, c, k, r)
    | Node _ _ _ _ => min_path l (FL c k r :: p)
    end
  end.

(* color: if (color == RB_BLACK) rb_remove_color(rbt, parent, child); *)
Definition rem_finish (c : color) (p : path) (child : tree) : option tree :=
  match c with
  | Black => rem_color p child
  | Red => Some (zip p child)
  end.

(* the node to remove is the root of [t] at path [p].
   - no left child:  child = right child, spliced in; colour = colour of the removed node
   - no right child: child = left child
   - two children:   the in-order successor s (minimum of the right subtree) is unlinked (its right
     child spliced in, colour = colour of s) and then takes over position, colour and children of the
     removed node (RBN_COPY); the fix-up starts where s was: below s itself if s was the right
     child of the removed node (`if (RBN_PARENT(rbn) == old) parent = rbn`). *)
Definition rb_remove_at (p : path) (t : tree) : option tree :=
  match t with
  | Leaf => None
  | Node c l k r =>
    match l with
    | Leaf => rem_finish c p r
    | Node _ _ _ _ =>
      match r with
      | Leaf => rem_finish c p l
      | Node _ _ _ _ =>
        match min_path r [] with
        | None => None
        | Some (ip, sc, sk, sr) => rem_finish sc (ip ++ FR c l sk :: p) sr
        end
      end
    end
  end.

(* the C code names the node by pointer; the model names it by its in-order position *)
Fixpoint locate (t : tree) (i : nat) (p : path) : option (path * tree) :=
  match t with
  | Leaf => None
  | Node c l k r =>
    match Nat.compare i (size l) with
    | Lt => locate l i (FL c k r :: p)
    | Eq => Some (p, t)
    | Gt => locate r (i - size l - 1) (FR c l k :: p)
    end
  end.

Definition rb_remove (t : tree) (i : nat) : option tree :=
  match locate t i [] with
  | None => None
  | Some (p, n) => rb_remove_at p n
  end.

(* ---------------------------------------------------------------------------------------------
   rb_prev(rbn) / rb_next(rbn): the data node of the in-order neighbour, None for NULL.
       if (RBN_LEFT(rbn)) { rbn = RBN_LEFT(rbn); while (RBN_RIGHT(rbn)) rbn = RBN_RIGHT(rbn); }
       else { [if rbn is a right child: parent] else { while (parent && rbn == RBN_LEFT(parent)) rbn = parent;
              rbn = RBN_PARENT(rbn); } }
   (the special case `rbn == RBN_RIGHT(parent)` is the general loop with zero iterations) *)
Fixpoint max_key (t : tree) : option A :=
  match t with
  | Leaf => None
  | Node _ _ k r => match r with Leaf => Some k | Node _ _ _ _ => max_key r end
  end.

Fixpoint min_key (t : tree) : option A :=
  match t with
  | Leaf => None
  | Node _ l k _ => match l with Leaf => Some k | Node _ _ _ _ => min_key l end
  end.

Fixpoint up_prev (p : path) : option A :=
  match p with
  | [] => None
  | FL _ _ _ :: p' => up_prev p'
  | FR _ _ k :: _ => Some k
  end.

Fixpoint up_next (p : path) : option A :=
  match p with
  | [] => None
  | FR _ _ _ :: p' => up_next p'
  | FL _ k _ :: _ => Some k
  end.

Definition rb_prev (p : path) (t : tree) : option A :=
  match t with
  | Leaf => None
  | Node _ l _ _ => match l with Leaf => up_prev p | Node _ _ _ _ => max_key l end
  end.

Definition rb_next (p : path) (t : tree) : option A :=
  match t with
  | Leaf => None
  | Node _ _ _ r => match r with Leaf => up_next p | Node _ _ _ _ => min_key r end
  end.

(* ---------------------------------------------------------------------------------------------
   rb_find(rbt, target): the red-black node whose data node IS target (pointer equality), found
   by key.  Answer: in-order position of the node found.
       if (RBN_DNODE(rbt) == target) return rbt;
       iter = rbt;
       do { comp = rb_compare(RBN_DNODE(iter), target);
            if (comp > 0) iter = left; else if (comp < 0) iter = right;
            else if (RBN_DNODE(iter) == target) return iter;
            else { pivot = iter;
                   for (iter = rb_prev(pivot); iter; iter = rb_prev(iter)) {
                       if (rb_compare(RBN_DNODE(iter), target) != 0) break;
                       else if (RBN_DNODE(iter) == target) return iter; }
                   for (iter = rb_next(pivot); ...) the same;
                   break; }
       } while (iter != NULL);
       return NULL;
   The two sequential searches walk the in-order neighbours of the pivot by rb_prev / rb_next; they
   are modelled as scans of the in-order lists before / after the pivot (RBTreeP.v: rb_prev_spec,
   rb_next_spec show that rb_prev / rb_next step exactly through these lists). *)
Fixpoint find_pivot (t : tree) (x : A) (p : path) : option (path * tree) :=
  match t with
  | Leaf => None
  | Node c l k r =>
    match cmp k x with
    | Gt => find_pivot l x (FL c k r :: p)
    | Lt => find_pivot r x (FR c l k :: p)
    | Eq => Some (p, t)
    end
  end.

Fixpoint scan_eq (l : list A) (x : A) : option nat :=
  match l with
  | [] => None
  | y :: l' =>
    match cmp y x with
    | Eq => if ideq y x then Some 0 else option_map S (scan_eq l' x)
    | _ => None
    end
  end.

Definition rb_find (t : tree) (x : A) : option nat :=
  match t with
  | Leaf => None
  | Node _ l0 k0 _ =>
    if ideq k0 x then Some (size l0)
    else
      match find_pivot t x [] with
      | None => None
      | Some (_, Leaf) => None
      | Some (p, Node _ l k r) =>
        let bef := before p ++ inorder l in
        let aft := inorder r ++ after p in
        if ideq k x then Some (length bef)
        else
          match scan_eq (rev bef) x with
          | Some j => Some (length bef - 1 - j)
          | None =>
            match scan_eq aft x with
            | Some j => Some (length bef + 1 + j)
            | None => None
            end
          end
      end
  end.

(* position of the red-black node of the data node x (resolves the C pointer `rbn` after the
   rebalancing; a modelling device, the C code simply keeps the pointer) *)
Fixpoint locate_id (t : tree) (x : A) (p : path) : option (path * tree) :=
  match t with
  | Leaf => None
  | Node c l k r =>
    if ideq k x then Some (p, t)
    else
      match locate_id l x (FL c k r :: p) with
      | Some z => Some z
      | None => locate_id r x (FR c l k :: p)
      end
  end.

(* ---------------------------------------------------------------------------------------------
   read-only invariant checker (the same checks as the C driver's checker): black height with
   no red node having a red child; None = violated *)
Fixpoint bheight (t : tree) : option nat :=
  match t with
  | Leaf => Some 0
  | Node c l _ r =>
    match bheight l, bheight r with
    | Some a, Some b =>
      if Nat.eqb a b then
        match c with
        | Black => Some (S a)
        | Red => if is_red l || is_red r then None else Some a
        end
      else None
    | _, _ => None
    end
  end.

Fixpoint sortedb (l : list A) : bool :=
  match l with
  | [] => true
  | x :: l' => match l' with [] => true | y :: _ => match cmp x y with Gt => false | _ => sortedb l' end end
  end.

Definition rb_check (t : tree) : bool :=
  negb (is_red t) && (match bheight t with Some _ => true | None => false end) && sortedb (inorder t).

Fixpoint height (t : tree) : nat :=
  match t with
  | Leaf => 0
  | Node _ l _ r => S (Nat.max (height l) (height r))
  end.

End RBTree.

Arguments Leaf {A}.
Arguments Node {A} c l k r.
Arguments FL {A} c k r.
Arguments FR {A} c l k.
Arguments Up {A} s.
Arguments Stop {A} s.
Arguments plug {A}.
Arguments zip {A}.
Arguments inorder {A}.
Arguments size {A}.
Arguments before {A}.
Arguments after {A}.
Arguments frame_color {A}.
Arguments frame_set {A}.
Arguments is_red {A}.
Arguments blacken {A}.
Arguments descend {A}.
Arguments ins_color {A}.
Arguments rb_insert {A}.
Arguments rb_insert_max {A}.
Arguments fix_left {A}.
Arguments fix_right {A}.
Arguments rem_color {A}.
Arguments min_path {A}.
Arguments rem_finish {A}.
Arguments rb_remove_at {A}.
Arguments locate {A}.
Arguments rb_remove {A}.
Arguments max_key {A}.
Arguments min_key {A}.
Arguments up_prev {A}.
Arguments up_next {A}.
Arguments rb_prev {A}.
Arguments rb_next {A}.
Arguments find_pivot {A}.
Arguments scan_eq {A}.
Arguments rb_find {A}.
Arguments locate_id {A}.
Arguments bheight {A}.
Arguments sortedb {A}.
Arguments rb_check {A}.
Arguments height {A}.
