(* DiffUserOrd.v — list-level model of how src/diff.c diffs, patches and reverses ONE user-ordered
   leaf-list (ordered-by user, no duplicate instances; values are N).  Model only.

   The instances of the leaf-list in the first tree are [l1], in the second tree [l2] (sibling order).
   A diff is itself a data tree: every diff node is a copy of an instance carrying yang:operation and
   the anchors yang:value / yang:orig-value (value of the PRECEDING instance, empty string = first).
   lyd_diff_add() links every new diff node with lyd_insert_node(LYD_INSERT_NODE_LAST_BY_SCHEMA), i.e.
   behind all existing instances of the same schema node, so the sibling order of the diff is the order
   of the lyd_diff_add() calls: pass 1 (deletes, in l1 order) then pass 2 (creates and moves, in l2
   order).  lyd_diff_apply_module() walks the diff siblings first to last. *)
From LY Require Import Base.
Local Open Scope N_scope.

(* ------------------------------------------------------------------------------------------- *)
(* diff nodes                                                                                    *)
(* ------------------------------------------------------------------------------------------- *)

(* an anchor string: None = the empty string (first position), Some v = value of the preceding instance *)
Definition anchor := option N.

Inductive opk : Type := OpCreate | OpDelete | OpReplace.

(* one diff node: operation, value of the instance, metadata yang:value and yang:orig-value
   (outer None = the metadata is absent) *)
Record dop : Type := mkdop { d_op : opk; d_x : N; d_value : option anchor; d_orig : option anchor }.

(* ------------------------------------------------------------------------------------------- *)
(* list helpers (the virtual array userord_item->inst and the sibling list)                      *)
(* ------------------------------------------------------------------------------------------- *)

Definition mem (x : N) (l : list N) : bool := existsb (N.eqb x) l.

(* the loop: for (first_pos = 0; first_pos < COUNT; ++first_pos) if (inst[first_pos] == first) break; *)
Fixpoint find_pos (x : N) (l : list N) : nat :=
  match l with
  | [] => O
  | y :: r => if y =? x then O else S (find_pos x r)
  end.

Fixpoint remove_at (p : nat) (l : list N) : list N :=
  match l, p with
  | [], _ => []
  | _ :: r, O => r
  | y :: r, S q => y :: remove_at q r
  end.

Fixpoint insert_at (p : nat) (x : N) (l : list N) : list N :=
  match p, l with
  | O, _ => x :: l
  | S q, y :: r => y :: insert_at q x r
  | S _, [] => [x]
  end.

(* lyd_get_value(inst[p - 1]) or the empty string when p = 0 (an index outside the array, which
   the C code would read out of bounds, cannot occur: see DiffUserOrdP.userord_trace_safe) *)
Definition anchor_at (inst : list N) (p : nat) : anchor :=
  match p with
  | O => None
  | S q => nth_error inst q
  end.

(* remove the first occurrence *)
Fixpoint remove1 (x : N) (l : list N) : list N :=
  match l with
  | [] => []
  | y :: r => if y =? x then r else y :: remove1 x r
  end.

(* value of the sibling following the first occurrence of x *)
Fixpoint next_of (x : N) (l : list N) : option N :=
  match l with
  | [] => None
  | y :: r => if y =? x then hd_error r else next_of x r
  end.

(* link x behind the first occurrence of a *)
Fixpoint insert_after (a x : N) (l : list N) : list N :=
  match l with
  | [] => []
  | y :: r => if y =? a then y :: x :: r else y :: insert_after a x r
  end.

(* ------------------------------------------------------------------------------------------- *)
(* lyd_diff_siblings_r() + lyd_diff_userord_attrs() + lyd_diff_add()                             *)
(* ------------------------------------------------------------------------------------------- *)

(* what one call of lyd_diff_userord_attrs() did: the diff node it produced and the array indices
   it used (first_pos, second_pos, LY_ARRAY_COUNT(inst) before the update); the indices are kept so
   that the memory-safety conditions of that function can be stated *)
Record tr : Type := mktr { t_op : dop; t_first : nat; t_second : nat; t_count : nat }.

(* pass 1 of lyd_diff_siblings_r(): for every instance x of the first tree without a match in the
   second tree, lyd_diff_userord_attrs(x, NULL): op = delete, orig-value = inst[first_pos - 1] of the
   CURRENT virtual array (earlier deleted instances are already gone), then the instance is removed
   from the array (memmove + LY_ARRAY_DECREMENT).  second_pos = pos++ is computed but unused; pos is
   reset to 0 after the pass.  Returns the trace and the array after the pass. *)
Fixpoint diff_pass1 (l1 l2 inst : list N) (pos : nat) : list tr * list N :=
  match l1 with
  | [] => ([], inst)
  | x :: r =>
      if mem x l2 then diff_pass1 r l2 inst pos
      else
        let fp := find_pos x inst in
        let t := mktr (mkdop OpDelete x None (Some (anchor_at inst fp))) fp pos (length inst) in
        let (ts, inst') := diff_pass1 r l2 (remove_at fp inst) (S pos) in
        (t :: ts, inst')
  end.

(* pass 2: for every instance y of the second tree (second_pos = pos++):
   - no match in the first tree: op = create, value = inst[second_pos - 1], insert into the array at
     second_pos;
   - match, and inst[second_pos] is that instance: LY_ENOT, nothing added;
   - match, other instance at second_pos: op = replace (a move), value = inst[second_pos - 1],
     orig-value = inst[first_pos - 1], then
        memmove(inst + second_pos + 1, inst + second_pos, (first_pos - second_pos) * sizeof *inst);
        inst[second_pos] = first;
     which for first_pos >= second_pos is: remove at first_pos, insert at second_pos (for
     first_pos < second_pos the uint32_t difference wraps and the memmove runs wild; the model then
     still computes remove/insert, and userord_memmove_safe shows the case never arises). *)
Fixpoint diff_pass2 (l1 l2 inst : list N) (pos : nat) : list tr :=
  match l2 with
  | [] => []
  | y :: r =>
      if mem y l1 then
        let fp := find_pos y inst in
        let same := match nth_error inst pos with Some z => z =? y | None => false end in
        if same then diff_pass2 l1 r inst (S pos)
        else
          mktr (mkdop OpReplace y (Some (anchor_at inst pos)) (Some (anchor_at inst fp))) fp pos (length inst)
            :: diff_pass2 l1 r (insert_at pos y (remove_at fp inst)) (S pos)
      else
        mktr (mkdop OpCreate y (Some (anchor_at inst pos)) None) O pos (length inst)
          :: diff_pass2 l1 r (insert_at pos y inst) (S pos)
  end.

(* the whole trace; lyd_diff_userord_get() fills inst with all instances of the first tree *)
Definition userord_trace (l1 l2 : list N) : list tr :=
  let (ts, inst) := diff_pass1 l1 l2 l1 O in
  ts ++ diff_pass2 l1 l2 inst O.

(* the diff nodes in the sibling order of the diff tree *)
Definition userord_diff (l1 l2 : list N) : list dop := map t_op (userord_trace l1 l2).

(* ------------------------------------------------------------------------------------------- *)
(* lyd_diff_apply_all() -> lyd_diff_apply_r() / lyd_diff_insert()                                *)
(* ------------------------------------------------------------------------------------------- *)

(* State of the patched tree: the sibling list as seen from the true first sibling, and the node
   that *first_node (the caller's *data) points to, by value (None = NULL).  The pointer matters:
   lyd_diff_insert() repairs it only in some branches (after lyd_insert_after: when *first_node is
   the moved node it is set to the anchor, which is wrong when the moved first instance lands behind a
   later anchor), and the delete branch advances it to its next sibling, so a stale pointer that reaches the end of the list becomes
   NULL and the rest of the tree is lost (state ([], None)). Searching (lyd_find_sibling_first/_val)
   always restarts from the true first sibling, so the stale pointer does not affect lookups. *)
Definition st : Type := (list N * option N)%type.

Definition opt_is (f : option N) (x : N) : bool :=
  match f with Some v => v =? x | None => false end.

(* lyd_diff_insert(first_node, NULL, new_node, anchor): [linked] = the node is already part of the
   list (a move: lyd_insert_after/before unlink it first) *)
Definition st_insert (linked : bool) (x : N) (a : anchor) (s : st) : res st :=
  let (l, f) := s in
  match f with
  | None => Ok ([x], Some x)                        (* !*first_node && !parent_node: anchor ignored *)
  | Some fv =>
      match a with
      | Some v =>
          if negb (mem v l) then Err 1              (* LY_ENOTFOUND: instance to insert next to not found *)
          else if linked && (v =? x) then Err 1     (* lyd_insert_after(): sibling == node *)
          else let l' := insert_after v x (if linked then remove1 x l else l) in
               Ok (l', if linked && (fv =? x) then hd_error l' else Some fv)
                                                    (* the first sibling was moved: *first_node =
                                                       lyd_first_sibling(anchor) (/repo commit a54f28a; was
                                                       *first_node = anchor, right only if the anchor followed) *)
      | None =>
          match l with
          | [] => Ok ([x], Some x)                  (* not reachable with f = Some _ *)
          | h :: _ =>
              if linked && (h =? x) then Ok (l, Some fv)   (* anchor == new_node: already the first instance, nothing
                                                              to do (/repo commit a481aab; was lyd_insert_before():
                                                              sibling == node, LY_EINVAL) *)
              else Ok (x :: (if linked then remove1 x l else l), Some x)
          end
      end
  end.

(* lyd_diff_apply_r() on one diff node *)
Definition apply_one (o : dop) (s : st) : res st :=
  let (l, f) := s in
  let x := d_x o in
  match d_op o with
  | OpCreate =>
      match d_value o with
      | None => Err 1                               (* LOGERR_META: no yang:value (the duplicate leaks) *)
      | Some a => st_insert false x a s
      end
  | OpReplace =>
      if negb (mem x l) then Err 1                  (* LOGERR_NOINST *)
      else match d_value o with
           | None => Err 1
           | Some a => st_insert true x a s
           end
  | OpDelete =>
      if negb (mem x l) then Err 1
      else
        let f' := if opt_is f x then next_of x l else f in
        match f' with
        | None => Ok ([], None)
        | Some _ => Ok (remove1 x l, f')
        end
  end.

Fixpoint apply_ops_st (ops : list dop) (s : st) : res st :=
  match ops with
  | [] => Ok s
  | o :: r => bind (apply_one o s) (apply_ops_st r)
  end.

(* lyd_diff_apply_all(&data, diff) with data = first sibling of the list l *)
Definition apply_ops_full (ops : list dop) (l : list N) : res st := apply_ops_st ops (l, hd_error l).

Definition apply_ops (ops : list dop) (l : list N) : res (list N) :=
  match apply_ops_full ops l with
  | Ok (l', _) => Ok l'
  | Err e => Err e
  end.

(* ------------------------------------------------------------------------------------------- *)
(* lyd_diff_reverse_all()                                                                        *)
(* ------------------------------------------------------------------------------------------- *)

(* per node, order of the siblings kept (lyd_dup_siblings): create <-> delete with the metadata left
   as they are (so a reversed delete has orig-value but no value), replace: lyd_diff_reverse_meta
   swaps orig-value and value and fails when one of them is absent *)
Definition reverse_op (o : dop) : res dop :=
  match d_op o with
  | OpCreate => Ok (mkdop OpDelete (d_x o) (d_value o) (d_orig o))
  | OpDelete => Ok (mkdop OpCreate (d_x o) (d_value o) (d_orig o))
  | OpReplace =>
      match d_orig o, d_value o with
      | Some a, Some b => Ok (mkdop OpReplace (d_x o) (Some a) (Some b))
      | _, _ => Err 1
      end
  end.

Fixpoint reverse_ops (ops : list dop) : res (list dop) :=
  match ops with
  | [] => Ok []
  | o :: r => bind (reverse_op o) (fun o' => bind (reverse_ops r) (fun r' => Ok (o' :: r')))
  end.

(* lyd_diff_reverse_all(diff, &rdiff) then lyd_diff_apply_all(&data, rdiff) *)
Definition reverse_apply_full (ops : list dop) (l : list N) : res st :=
  bind (reverse_ops ops) (fun r => apply_ops_full r l).

Definition reverse_apply (ops : list dop) (l : list N) : res (list N) :=
  bind (reverse_ops ops) (fun r => apply_ops r l).
