(* Properties_C09_ctx.v — property C09 (a failed schema operation leaves the context exactly as it was):
   theorem statements only. Model: Context.v (the context as a state machine: lys_parse / ly_ctx_load_module /
   lys_set_implemented / ly_ctx_compile / ly_ctx_set_options / ly_ctx_unset_options with lys_unres_glob_revert as coded;
   correspondence with the real library: impl/t_ctx.c, component ctxs); proofs: ContextP.v.

   reachable R s        s is the state of a new context (with or without LY_CTX_EXPLICIT_COMPILE) after some
                        operations, the import callback serving the repository R
   step R s o = (s', r) one API call; r = RErr: it returned an error (RFuel / RAbort: the model ran out of fuel /
                        an assert() of the C code does not hold)
   obs s                what the public API shows: modules with revision, implemented flag, feature values and
                        compiled schema; answers of ly_ctx_get_module_latest / _implemented; the hashed fields of
                        ly_ctx_get_modules_hash; ly_ctx_get_options (explicit s: LY_CTX_EXPLICIT_COMPILE, xopts s:
                        ENABLE_IMP_FEATURES, REF_IMPLEMENTED, SET_PRIV_PARSED; LY_CTX_ALL_IMPLEMENTED is not modelled)
   op                   OpParse, OpLoad, OpImpl, OpCompile, OpSetOpt fl, OpUnsetOpt fl (fl: the four modelled bits)
   quiescent s          executable: nothing pending (unres empty, no to_compile mark), every implemented module is
                        compiled against the current features and would compile again, single-module dep sets do not
                        depend on features
   step_mid R s o       the state where a failing call jumps to its cleanup (before the revert) *)
From LY Require Import Base Context ContextP.
Local Open Scope N_scope.

(* The property at full strength. *)
Definition failed_op_restores_statement : Prop :=
  forall R s o s', reachable R s -> step R s o = (s', RErr) -> obs s' = obs s.

(* It still does not hold for every reachable state: with LY_CTX_EXPLICIT_COMPILE ctx->unres accumulates over the calls
   until ly_ctx_compile(), and the revert of a failing call undoes what earlier successful calls did. Witness (observed
   on the real library first): a compiled, b parsed successfully but not compiled yet; the failed parse of c (syntax
   error) removes b from the context. (Open findings that do not show in obs: hidden flag bits, recompiled trees, the
   assert of lys_parse_load - see the theorems below.) *)
Theorem C09_failed_op_restores_refuted : ~ failed_op_restores_statement.
Proof. exact full_statement_refuted. Qed.
Print Assumptions C09_failed_op_restores_refuted.

(* MAIN THEOREM. In a reachable state with nothing pending (quiescent: executable; every state of a context without
   LY_CTX_EXPLICIT_COMPILE between two calls, and a context with explicit compilation right after ly_ctx_compile), a
   failing lys_parse / ly_ctx_load_module / lys_set_implemented / ly_ctx_compile / ly_ctx_set_options /
   ly_ctx_unset_options leaves the observable state (modules and options) as it was, whatever stage fails (syntax, import not found, duplicate definitions found after the imports were resolved, another
   implemented revision, unknown feature, if-feature of an enabled feature, a node that does not compile, leafref target,
   disabled list key) and whatever it did before failing (created modules, took the latest-revision flag, changed
   feature bits, implemented and compiled modules). Uses the code as of /repo commits 21681e3 (the revert gives
   LYS_MOD_LATEST_REV back), af27b8d / d89c6b6 (the revert writes the remembered feature states back and recompiles) and
   c018937 (the revert marks every implemented module of the dependency sets before it recompiles). *)
Theorem C09_failed_op_restores : forall R s o s',
  reachable R s -> quiescent s = true -> step R s o = (s', RErr) -> obs s' = obs s.
Proof. exact failed_restores_reachable. Qed.
Print Assumptions C09_failed_op_restores.

(* For the two option calls the main theorem holds because they cannot fail when nothing is pending: the recompilation
   that a newly set LY_CTX_SET_PRIV_PARSED triggers compiles again what was compiled. *)
Theorem C09_option_calls_quiescent_ok : forall R s fl, quiescent s = true ->
  snd (step R s (OpSetOpt fl)) <> RErr /\ snd (step R s (OpUnsetOpt fl)) = ROk.
Proof. exact option_calls_quiescent_ok. Qed.
Print Assumptions C09_option_calls_quiescent_ok.

(* Where ly_ctx_set_options can fail (explicit compilation, modules pending) its own part of the property holds in
   EVERY state, reachable or not, quiescent or not: a failing call leaves ly_ctx_get_options as it was (the new flags
   are ORed in only after the recompilation succeeded, and LY_CTX_SET_PRIV_PARSED is cleared again). The modules are
   not covered there: the revert of the failed recompilation drops what earlier calls left pending, which is the known
   finding of C09_quiescent_necessary. *)
Theorem C09_set_options_failed_keeps_options : forall R s fl s',
  step R s (OpSetOpt fl) = (s', RErr) -> explicit s' = explicit s /\ xopts s' = xopts s.
Proof. exact set_options_step_failed. Qed.
Print Assumptions C09_set_options_failed_keeps_options.

(* Regression of the seeded change C09-7 (set_options_gen true: the variant of ly_ctx_set_options that ORs the new flags
   in before the recompilation): it does not have that property. Witness: explicit compilation, b (leafref without
   target) parsed and pending; set_options(ENABLE_IMP_FEATURES | SET_PRIV_PARSED) fails and ENABLE_IMP_FEATURES stays set. *)
Example C09_set_options_or_first_refuted :
  ~ (forall s fl, snd (set_options_gen true s fl) = false -> xopts (fst (set_options_gen true s fl)) = xopts s).
Proof. exact set_options_or_first_refuted. Qed.

(* The same witness on the model as coded: the call fails and the options are what they were. *)
Example C09_set_options_failed_witness :
  snd (step w8_R w8_s (OpSetOpt w8_fl)) = RErr /\ xopts (fst (step w8_R w8_s (OpSetOpt w8_fl))) = xopts w8_s.
Proof. exact (conj (proj1 w8_facts) (proj1 (proj2 w8_facts))). Qed.

(* The remaining side condition is necessary (the witness of the refutation above is reachable and not quiescent). *)
Theorem C09_quiescent_necessary :
  exists R s o, reachable R s /\ quiescent s = false /\ snd (step R s o) = RErr /\ obs (fst (step R s o)) <> obs s.
Proof. exact quiescent_necessary. Qed.
Print Assumptions C09_quiescent_necessary.

(* Regression of the defect fixed by 21681e3: a@2001 is in the context; lys_parse of a@2002 whose import is not found
   fails; at the cleanup jump a@2001 has lost LYS_MOD_LATEST_REV (lys_parse_in took it), and after the revert the
   observable (ly_ctx_get_module_latest included) is what it was. *)
Theorem C09_latest_flag_given_back :
  reachable w1_R w1_s /\ snd (step w1_R w1_s w1_o) = RErr /\
  option_map m_latest (find_mod (0, 1) (mods (step_mid w1_R w1_s w1_o))) = Some false /\
  obs (fst (step w1_R w1_s w1_o)) = obs w1_s.
Proof. exact latest_flag_given_back. Qed.
Print Assumptions C09_latest_flag_given_back.

(* Regression of the defects fixed by af27b8d: a {feature f1; feature f2 {if-feature f1;}} with f1 on (implemented, or only
   imported by b); lys_set_implemented(a, {f2}) fails (LY_EDENIED); at the cleanup jump f1 is off and f2 on; after the
   revert the observable is what it was, and (implemented case) the later load of b importing a succeeds. *)
Theorem C09_feature_bits_restored :
  (reachable w2_R w2_s /\ snd (step w2_R w2_s w2_o) = RErr /\
   option_map (fun m => map f_on (m_feats m)) (find_mod (0, 1) (mods (step_mid w2_R w2_s w2_o))) = Some [false; true] /\
   obs (fst (step w2_R w2_s w2_o)) = obs w2_s /\
   snd (step w2_R (fst (step w2_R w2_s w2_o)) (OpParse w_b1_imp_a FNull)) = ROk) /\
  (reachable w2_R w3_s /\ snd (step w2_R w3_s w2_o) = RErr /\
   option_map (fun m => map f_on (m_feats m)) (find_mod (0, 1) (mods (step_mid w2_R w3_s w2_o))) = Some [false; true] /\
   obs (fst (step w2_R w3_s w2_o)) = obs w3_s).
Proof. exact feature_bits_restored. Qed.
Print Assumptions C09_feature_bits_restored.

(* The hypotheses are satisfiable by non-trivial values: a context with a (features f1 on, f2 off) and b importing a is
   reachable and quiescent, and ten operations, one per fault kind (leafref without target, import not found, duplicate
   feature after the imports were resolved, if-feature of an enabled feature not satisfied, node that does not compile,
   disabled list key, syntax error, module nobody has, unknown feature on an implemented module, unknown feature on a
   module that is parsed again) fail in it. *)
Example C09_hypotheses_satisfiable :
  reachable w7_R w7_s /\ quiescent w7_s = true /\
  forallb (fun o => match snd (step w7_R w7_s o) with RErr => true | _ => false end) w7_ops = true.
Proof. exact hypotheses_satisfiable. Qed.

(* A syntax error in the module text always fails (and restores). *)
Theorem C09_syntax_fault_restores : forall R s d sel s' r,
  reachable R s -> quiescent s = true -> d_fault d = 1 -> step R s (OpParse d sel) = (s', r) -> r = RErr /\ obs s' = obs s.
Proof. exact syntax_fault_restores_reachable. Qed.
Print Assumptions C09_syntax_fault_restores.

(* ly_ctx_compile() with nothing pending does not fail and compiles nothing. *)
Theorem C09_compile_quiescent_ok : forall R s, quiescent s = true ->
  snd (step R s OpCompile) <> RErr /\ compiled_in (fst (step R s OpCompile)) = [].
Proof. exact compile_quiescent_ok. Qed.
Print Assumptions C09_compile_quiescent_ok.

(* later_load_unaffected: what a later operation does depends on the C state only, so if a failed operation
   restored the whole C state (core: modules with all their flag bits and marks, options, unres), every later
   operation behaves as if the failed one had not happened. *)
Theorem C09_later_load_unaffected : forall R s s' o2,
  core s' = core s -> step R s' o2 = step R s o2.
Proof. exact later_load_unaffected. Qed.
Print Assumptions C09_later_load_unaffected.

(* But restoring the observable is not restoring the C state: LYS_MOD_IMPORTED_REV (and LATEST_SEARCHDIRS /
   LATEST_IMPCLB) set on a@1 while the imports of b were resolved stay after the load of b failed; the observable is
   what it was, yet after a@2 was loaded and implemented, c (import a without revision-date) binds to a@1 instead of
   the implemented a@2 that a context without the failed call gives. *)
Theorem C09_later_load_affected_refuted :
  exists R s o later, reachable R s /\ quiescent s = true /\ snd (step R s o) = RErr /\
    obs (fst (step R s o)) = obs s /\ obs (run R (fst (step R s o)) later) <> obs (run R s later).
Proof. exact later_load_affected. Qed.
Print Assumptions C09_later_load_affected_refuted.

(* history_failed_ops_invisible (the whole-history form: the observable at the end of a history is the one at the end of the
   history of its calls that did not fail; succ_ops R s ops = the operations of ops whose result was not RErr) does NOT hold,
   not even for contexts without LY_CTX_EXPLICIT_COMPILE: the main theorem restores obs, not the C state, and a later
   successful call can see the difference (LYS_MOD_IMPORTED_REV, known finding ctx-hidden-state-left; same witness as
   C09_later_load_affected_refuted, read as one history: parse d, failing parse of b, parse a@2, parse c). *)
Theorem C09_history_failed_ops_invisible_refuted :
  ~ (forall R ops, obs (run R (init false) ops) = obs (run R (init false) (succ_ops R (init false) ops))).
Proof. exact history_failed_ops_invisible_refuted. Qed.
Print Assumptions C09_history_failed_ops_invisible_refuted.

(* Quiescence along the history is not what is missing: in the counterexample every state between two calls is quiescent,
   so a proof that calls preserve quiescence (tested by the oracle ctx-model-inv, not proved) would not give the
   whole-history form either; it needs the C state, not obs, to be restored. *)
Theorem C09_history_counterexample_quiescent :
  exists R ops, (forall n, quiescent (run R (init false) (firstn n ops)) = true) /\
    obs (run R (init false) ops) <> obs (run R (init false) (succ_ops R (init false) ops)).
Proof. exact history_counterexample_quiescent. Qed.
Print Assumptions C09_history_counterexample_quiescent.

(* data_trees_still_valid does not hold either: the failed load of b (leafref without target, b imports the
   implemented a) restores the observable, but a was recompiled (twice: by the failing call and by the revert), so
   a data tree of a created before the call points into freed schema nodes. *)
Theorem C09_data_trees_still_valid_refuted :
  exists R s o k, reachable R s /\ quiescent s = true /\ snd (step R s o) = RErr /\ obs (fst (step R s o)) = obs s /\
    option_map m_impl (find_mod k (mods s)) = Some true /\ In k (compiled_in (fst (step R s o))).
Proof. exact data_trees_refuted. Qed.
Print Assumptions C09_data_trees_still_valid_refuted.

(* What holds for data trees: a failure in the parse stage (syntax, import not found, duplicate definitions, ...)
   compiles nothing, so every compiled tree is the object it was. *)
Theorem C09_parse_failure_keeps_compiled_trees : forall R s o,
  quiescent s = true -> fails_in_parse R s o = true -> compiled_in (fst (step R s o)) = [].
Proof. exact parse_failure_compiles_nothing. Qed.
Print Assumptions C09_parse_failure_keeps_compiled_trees.

(* change_count_monotone: ly_ctx_get_change_count() after a call is the count before plus the number of modules
   added and compiled, modulo 2^16 (uint16_t); it does not decrease unless it wraps around. (It is not restored
   by a failed call and is not part of obs.) *)
Theorem C09_change_count_monotone : forall R c o,
  let c' := fst (cstep R c o) in
  snd c' = (snd c + N.of_nat (length (evs (fst c')))) mod 65536 /\
  (snd c + N.of_nat (length (evs (fst c'))) < 65536 -> snd c <= snd c').
Proof. exact change_count_step. Qed.
Print Assumptions C09_change_count_monotone.
