(* Properties_C09_ctx.v — property C09 (a failed schema operation leaves the context exactly as it was):
   theorem statements only. Model: Context.v (the context as a state machine: lys_parse / ly_ctx_load_module /
   lys_set_implemented / ly_ctx_compile with lys_unres_glob_revert as coded; correspondence with the real library:
   impl/t_ctx.c, component ctxs); proofs: ContextP.v.

   reachable R s        s is the state of a new context (with or without LY_CTX_EXPLICIT_COMPILE) after some
                        operations, the import callback serving the repository R
   step R s o = (s', r) one API call; r = RErr: it returned an error (RFuel / RAbort: the model ran out of fuel /
                        an assert() of the C code does not hold)
   obs s                what the public API shows: modules with revision, implemented flag, feature values and
                        compiled schema; answers of ly_ctx_get_module_latest / _implemented; the hashed fields of
                        ly_ctx_get_modules_hash
   quiescent s          executable: nothing pending (unres empty, no to_compile mark), every implemented module is
                        compiled against the current features and would compile again
   keeps_features R s o executable: where the failing call jumps to its cleanup, every module that existed before still
                        has its feature bits *)
From LY Require Import Base Context ContextP.
Local Open Scope N_scope.

(* The property at full strength. *)
Definition failed_op_restores_statement : Prop :=
  forall R s o s', reachable R s -> step R s o = (s', RErr) -> obs s' = obs s.

(* It does not hold: the faithful model violates it, and so does the library (same scripts, driver t_ctx; each
   witness was observed on the real code first). Witness: a {feature f1; feature f2 {if-feature f1;}} implemented
   with f1; lys_set_implemented(a, {f2}) fails (LY_EDENIED) and leaves f1 off and f2 on: lys_set_features flipped the
   bits in place and the revert does not know about them. *)
Theorem C09_failed_op_restores_refuted : ~ failed_op_restores_statement.
Proof. exact full_statement_refuted. Qed.
Print Assumptions C09_failed_op_restores_refuted.

(* What holds: in a reachable quiescent state, a failing operation that does not change feature bits of an existing
   module leaves the observable state as it was, whatever stage fails (syntax, import not found, duplicate definitions
   found after the imports were resolved, another implemented revision, unknown feature, if-feature of an enabled
   feature, a node that does not compile, leafref target, disabled list key), with or without LY_CTX_EXPLICIT_COMPILE.
   The two side conditions are executable. Since /repo commit 21681e3 (the revert gives LYS_MOD_LATEST_REV back to the
   newest remaining revision) no condition about the latest-revision flag is needed: reachability gives the invariant
   that exactly the newest revision of every name carries the flag (ContextP.reachable_LJ), and the revert restores it. *)
Theorem C09_failed_op_restores_partial : forall R s o s',
  reachable R s -> quiescent s = true -> keeps_features R s o = true ->
  step R s o = (s', RErr) -> obs s' = obs s.
Proof. exact failed_restores_reachable. Qed.
Print Assumptions C09_failed_op_restores_partial.

(* Regression of the defect fixed by 21681e3: a@2001 is in the context; lys_parse of a@2002 whose import is not found
   fails; at the cleanup jump a@2001 has lost LYS_MOD_LATEST_REV (lys_parse_in took it), and after the revert the
   observable (ly_ctx_get_module_latest included) is what it was. *)
Theorem C09_latest_flag_given_back :
  reachable w1_R w1_s /\ snd (step w1_R w1_s w1_o) = RErr /\
  option_map m_latest (find_mod (0, 1) (mods (step_mid w1_R w1_s w1_o))) = Some false /\
  obs (fst (step w1_R w1_s w1_o)) = obs w1_s.
Proof. exact latest_flag_given_back. Qed.
Print Assumptions C09_latest_flag_given_back.

(* Each of the two side conditions is necessary: a reachable witness that violates only that one and is not restored.
   features: a {feature f1; feature f2 {if-feature f1;}} implemented with f1; lys_set_implemented(a, {f2}) fails
             (LY_EDENIED) and leaves f1 off, f2 on, to_compile set; the later load of a correct module importing a
             fails although it succeeds without the failed call.
   features on a module that is only imported: the revert un-implements it but the bits stay, and the importer is
             recompiled against them (its compiled schema changes).
   quiescent: LY_CTX_EXPLICIT_COMPILE, b parsed successfully but not compiled yet; the failed parse of c (syntax
             error) removes b from the context. *)
Theorem C09_side_conditions_necessary :
  (exists R s o, reachable R s /\ quiescent s = true /\ keeps_features R s o = false /\
                 snd (step R s o) = RErr /\ obs (fst (step R s o)) <> obs s /\
                 exists o2, snd (step R (fst (step R s o)) o2) = RErr /\ snd (step R s o2) = ROk) /\
  (exists R s o, reachable R s /\ quiescent s = true /\ keeps_features R s o = false /\
                 snd (step R s o) = RErr /\ obs (fst (step R s o)) <> obs s /\
                 option_map m_impl (find_mod (0, 1) (mods s)) = Some false) /\
  (exists R s o, reachable R s /\ quiescent s = false /\ keeps_features R s o = true /\
                 snd (step R s o) = RErr /\ obs (fst (step R s o)) <> obs s).
Proof. exact side_conditions_necessary. Qed.
Print Assumptions C09_side_conditions_necessary.

(* The hypotheses are satisfiable by non-trivial values: a context with a (features f1 on, f2 off) and b importing a;
   ten failing operations, one per fault kind (leafref without target, import not found, duplicate feature after the
   imports were resolved, if-feature of an enabled feature not satisfied, node that does not compile, disabled list
   key, syntax error, module nobody has, unknown feature on an implemented module, unknown feature on a module that
   is parsed again) satisfy them and return an error. *)
Example C09_hypotheses_satisfiable :
  reachable w7_R w7_s /\ quiescent w7_s = true /\
  forallb (fun o => keeps_features w7_R w7_s o &&
                    match snd (step w7_R w7_s o) with RErr => true | _ => false end) w7_ops = true.
Proof. exact hypotheses_satisfiable. Qed.

(* Fault kinds that restore unconditionally (from a reachable quiescent state): a syntax error in the module text ... *)
Theorem C09_syntax_fault_restores : forall R s d sel s' r,
  reachable R s -> quiescent s = true -> d_fault d = 1 -> step R s (OpParse d sel) = (s', r) -> r = RErr /\ obs s' = obs s.
Proof. exact syntax_fault_restores_reachable. Qed.
Print Assumptions C09_syntax_fault_restores.

(* ... and lys_set_implemented(m, NULL): whatever makes implementing a module without touching its features fail
   (another revision is implemented, a node that does not compile, a leafref without target, a disabled list key). *)
Theorem C09_failed_implement_restores : forall R s name rev s',
  reachable R s -> quiescent s = true -> step R s (OpImpl name rev FNull) = (s', RErr) -> obs s' = obs s.
Proof. exact failed_implement_restores_reachable. Qed.
Print Assumptions C09_failed_implement_restores.

(* ly_ctx_compile() with nothing pending does not fail and compiles nothing. *)
Theorem C09_compile_quiescent_ok : forall R s, quiescent s = true ->
  snd (step R s OpCompile) <> RErr /\ compiled_in (fst (step R s OpCompile)) = [].
Proof. exact compile_quiescent_ok. Qed.
Print Assumptions C09_compile_quiescent_ok.

(* later_load_unaffected: what a later operation does depends on the C state only, so if a failed operation
   restored the whole C state (core: modules with all their flag bits and marks, options, unres), every later
   operation behaves as if the failed one had not happened. *)
Theorem C09_later_load_unaffected : forall R s s' o2,
  core s' = core s -> step R s' o2 = step R s o2.
Proof. exact later_load_unaffected. Qed.
Print Assumptions C09_later_load_unaffected.

(* But restoring the observable is not restoring the C state: LYS_MOD_IMPORTED_REV (and LATEST_SEARCHDIRS /
   LATEST_IMPCLB) set on a@1 while the imports of b were resolved stay after the load of b failed; the observable is
   what it was, yet after a@2 was loaded and implemented, c (import a without revision-date) binds to a@1 instead of
   the implemented a@2 that a context without the failed call gives. *)
Theorem C09_later_load_affected_refuted :
  exists R s o later, reachable R s /\ quiescent s = true /\ snd (step R s o) = RErr /\
    obs (fst (step R s o)) = obs s /\ obs (run R (fst (step R s o)) later) <> obs (run R s later).
Proof. exact later_load_affected. Qed.
Print Assumptions C09_later_load_affected_refuted.

(* data_trees_still_valid does not hold either: the failed load of b (leafref without target, b imports the
   implemented a) restores the observable, but a was recompiled (twice: by the failing call and by the revert), so
   a data tree of a created before the call points into freed schema nodes. *)
Theorem C09_data_trees_still_valid_refuted :
  exists R s o k, reachable R s /\ quiescent s = true /\ snd (step R s o) = RErr /\ obs (fst (step R s o)) = obs s /\
    option_map m_impl (find_mod k (mods s)) = Some true /\ In k (compiled_in (fst (step R s o))).
Proof. exact data_trees_refuted. Qed.
Print Assumptions C09_data_trees_still_valid_refuted.

(* What holds for data trees: a failure in the parse stage (syntax, import not found, duplicate definitions, ...)
   compiles nothing, so every compiled tree is the object it was. *)
Theorem C09_parse_failure_keeps_compiled_trees : forall R s o,
  quiescent s = true -> fails_in_parse R s o = true -> compiled_in (fst (step R s o)) = [].
Proof. exact parse_failure_compiles_nothing. Qed.
Print Assumptions C09_parse_failure_keeps_compiled_trees.

(* change_count_monotone: ly_ctx_get_change_count() after a call is the count before plus the number of modules
   added and compiled, modulo 2^16 (uint16_t); it does not decrease unless it wraps around. (It is not restored
   by a failed call and is not part of obs.) *)
Theorem C09_change_count_monotone : forall R c o,
  let c' := fst (cstep R c o) in
  snd c' = (snd c + N.of_nat (length (evs (fst c')))) mod 65536 /\
  (snd c + N.of_nat (length (evs (fst c'))) < 65536 -> snd c <= snd c').
Proof. exact change_count_step. Qed.
Print Assumptions C09_change_count_monotone.
