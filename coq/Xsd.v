(* Xsd.v - slice regex (property C18): XML Schema (XSD) regular expressions.
   Model only (proofs in XsdP.v): abstract syntax, denotational semantics [in_lang], and an
   executable Brzozowski-derivative matcher [matches]. This is the SPECIFICATION side of C18
   (XML Schema Part 2: Datatypes, appendix F); it transcribes no C code. Strings are lists of
   Unicode code points (N); the concrete syntax is read by XsdParse.v.

   AST. A regular expression is a choice of branches (Alt), a branch a sequence of pieces (Cat,
   Eps for the empty branch), a piece an atom with a quantifier (Rep a lo hi: at least lo and, for
   hi = Some h, at most h repetitions; ? = {0,1}, * = {0,}, + = {1,}, {n} = {n,n}), an atom a set of
   characters (Chr: literal character, wildcard, escape, bracket expression) or a parenthesised
   regular expression. Character sets are closed under union, complement and difference (class
   subtraction).

   Unicode knowledge. Blocks (\p{IsX}) are exact. General categories (\p{L} ...), \w, \d and the
   XML name classes \i \c are exact for U+0000..U+00FF and treat every code point >= U+0100 as a
   member of NO category and NO name class (so \w, which is the complement of P|Z|C, contains all of
   them, \d = \p{Nd} none). \s is exact (space, TAB, LF, CR). The wildcard is every character except
   LF and CR. *)
From LY Require Import Base.
Local Open Scope N_scope.

(* ---- character sets ---------------------------------------------------------------------------- *)
Inductive cset : Type :=
| CsNone
| CsRange (lo hi : N)
| CsUnion (a b : cset)
| CsNeg (a : cset)
| CsDiff (a b : cset).

Fixpoint cs_mem (cs : cset) (c : N) : bool :=
  match cs with
  | CsNone => false
  | CsRange lo hi => (lo <=? c) && (c <=? hi)
  | CsUnion a b => cs_mem a c || cs_mem b c
  | CsNeg a => negb (cs_mem a c)
  | CsDiff a b => cs_mem a c && negb (cs_mem b c)
  end.

Definition cs_char (c : N) : cset := CsRange c c.
Definition cs_ranges (l : list (N * N)) : cset :=
  fold_right (fun r acc => CsUnion (CsRange (fst r) (snd r)) acc) CsNone l.

(* ---- regular expressions ------------------------------------------------------------------------ *)
Inductive re : Type :=
| Empty                                   (* no string at all (only produced by the matcher) *)
| Eps                                     (* the empty string: empty branch *)
| Chr (cs : cset)                         (* one character of the set *)
| Cat (a b : re)                          (* sequence of pieces *)
| Alt (a b : re)                          (* choice of branches *)
| Rep (a : re) (lo : N) (hi : option N).  (* quantified atom *)

Definition Opt (a : re) : re := Rep a 0 (Some 1).
Definition Star (a : re) : re := Rep a 0 None.
Definition Plus (a : re) : re := Rep a 1 None.

(* ---- denotational semantics --------------------------------------------------------------------- *)
(* s is a concatenation of k strings of L *)
Fixpoint pow_lang (L : list N -> Prop) (k : nat) (s : list N) : Prop :=
  match k with
  | O => s = []
  | S k' => exists s1 s2, s = s1 ++ s2 /\ L s1 /\ pow_lang L k' s2
  end.

Definition hi_ok (k : nat) (hi : option N) : Prop :=
  match hi with None => True | Some h => N.of_nat k <= h end.

Fixpoint in_lang (r : re) (s : list N) : Prop :=
  match r with
  | Empty => False
  | Eps => s = []
  | Chr cs => exists c, s = [c] /\ cs_mem cs c = true
  | Cat a b => exists s1 s2, s = s1 ++ s2 /\ in_lang a s1 /\ in_lang b s2
  | Alt a b => in_lang a s \/ in_lang b s
  | Rep a lo hi => exists k : nat, lo <= N.of_nat k /\ hi_ok k hi /\ pow_lang (in_lang a) k s
  end.

(* ---- derivative matcher -------------------------------------------------------------------------- *)
Definition hi_ge (lo : N) (hi : option N) : bool :=
  match hi with None => true | Some h => lo <=? h end.

Fixpoint nullable (r : re) : bool :=
  match r with
  | Empty => false
  | Eps => true
  | Chr _ => false
  | Cat a b => nullable a && nullable b
  | Alt a b => nullable a || nullable b
  | Rep a lo hi => hi_ge lo hi && ((lo =? 0) || nullable a)
  end.

(* syntactic equality (used to drop duplicate alternatives) *)
Fixpoint cs_eqb (a b : cset) : bool :=
  match a, b with
  | CsNone, CsNone => true
  | CsRange l1 h1, CsRange l2 h2 => (l1 =? l2) && (h1 =? h2)
  | CsUnion a1 a2, CsUnion b1 b2 => cs_eqb a1 b1 && cs_eqb a2 b2
  | CsNeg a1, CsNeg b1 => cs_eqb a1 b1
  | CsDiff a1 a2, CsDiff b1 b2 => cs_eqb a1 b1 && cs_eqb a2 b2
  | _, _ => false
  end.

Definition hi_eqb (a b : option N) : bool :=
  match a, b with
  | None, None => true
  | Some x, Some y => x =? y
  | _, _ => false
  end.

Fixpoint re_eqb (a b : re) : bool :=
  match a, b with
  | Empty, Empty => true
  | Eps, Eps => true
  | Chr c1, Chr c2 => cs_eqb c1 c2
  | Cat a1 a2, Cat b1 b2 => re_eqb a1 b1 && re_eqb a2 b2
  | Alt a1 a2, Alt b1 b2 => re_eqb a1 b1 && re_eqb a2 b2
  | Rep a1 l1 h1, Rep b1 l2 h2 => re_eqb a1 b1 && (l1 =? l2) && hi_eqb h1 h2
  | _, _ => false
  end.

(* smart constructors: same language as Cat / Alt, smaller terms. mk_alt flattens nested choices
   and drops Empty and repeated alternatives; without this the derivatives of nested quantifiers
   such as a star of a star double in size with every character. *)
Definition mk_cat (a b : re) : re :=
  match a, b with
  | Empty, _ => Empty
  | _, Empty => Empty
  | Eps, _ => b
  | _, Eps => a
  | _, _ => Cat a b
  end.

(* x is one of the alternatives of r *)
Fixpoint alt_mem (x r : re) : bool :=
  match r with
  | Alt a b => alt_mem x a || alt_mem x b
  | _ => re_eqb x r
  end.

Definition alt_cons (x acc : re) : re :=
  if alt_mem x acc then acc
  else match acc with Empty => x | _ => Alt x acc end.

(* the alternatives of x that are not yet in acc, in front of acc *)
Fixpoint alt_add (x acc : re) : re :=
  match x with
  | Alt a b => alt_add a (alt_add b acc)
  | Empty => acc
  | _ => alt_cons x acc
  end.

Definition mk_alt (a b : re) : re := alt_add a (alt_add b Empty).

Definition pred_hi (hi : option N) : option N :=
  match hi with None => None | Some h => Some (N.pred h) end.

Definition hi_zero (hi : option N) : bool :=
  match hi with Some h => h =? 0 | None => false end.

(* deriv c r denotes { s | c :: s in r } *)
Fixpoint deriv (c : N) (r : re) : re :=
  match r with
  | Empty => Empty
  | Eps => Empty
  | Chr cs => if cs_mem cs c then Eps else Empty
  | Cat a b =>
      if nullable a then mk_alt (mk_cat (deriv c a) b) (deriv c b)
      else mk_cat (deriv c a) b
  | Alt a b => mk_alt (deriv c a) (deriv c b)
  | Rep a lo hi =>
      if hi_zero hi then Empty
      else mk_cat (deriv c a) (Rep a (N.pred lo) (pred_hi hi))
  end.

Fixpoint matches (r : re) (s : list N) : bool :=
  match s with
  | [] => nullable r
  | c :: s' => matches (deriv c r) s'
  end.

(* ---- the character sets of the escapes ----------------------------------------------------------- *)
(* the character blocks of XSD appendix F.1.1 that libyang knows (same ranges as the table in
   lys_compile_pattern_chblocks_xmlschema2perl(), transcribed by script): (name, ranges) *)
Definition xsd_blocks : list (list N * list (N * N)) := [
  (* BasicLatin *) ([66; 97; 115; 105; 99; 76; 97; 116; 105; 110], [(0, 127)]);
  (* Latin-1Supplement *) ([76; 97; 116; 105; 110; 45; 49; 83; 117; 112; 112; 108; 101; 109; 101; 110; 116], [(128, 255)]);
  (* LatinExtended-A *) ([76; 97; 116; 105; 110; 69; 120; 116; 101; 110; 100; 101; 100; 45; 65], [(256, 383)]);
  (* LatinExtended-B *) ([76; 97; 116; 105; 110; 69; 120; 116; 101; 110; 100; 101; 100; 45; 66], [(384, 591)]);
  (* IPAExtensions *) ([73; 80; 65; 69; 120; 116; 101; 110; 115; 105; 111; 110; 115], [(592, 687)]);
  (* SpacingModifierLetters *) ([83; 112; 97; 99; 105; 110; 103; 77; 111; 100; 105; 102; 105; 101; 114; 76; 101; 116; 116; 101; 114; 115], [(688, 767)]);
  (* CombiningDiacriticalMarks *) ([67; 111; 109; 98; 105; 110; 105; 110; 103; 68; 105; 97; 99; 114; 105; 116; 105; 99; 97; 108; 77; 97; 114; 107; 115], [(768, 879)]);
  (* Greek *) ([71; 114; 101; 101; 107], [(880, 1023)]);
  (* Cyrillic *) ([67; 121; 114; 105; 108; 108; 105; 99], [(1024, 1279)]);
  (* Armenian *) ([65; 114; 109; 101; 110; 105; 97; 110], [(1328, 1423)]);
  (* Hebrew *) ([72; 101; 98; 114; 101; 119], [(1424, 1535)]);
  (* Arabic *) ([65; 114; 97; 98; 105; 99], [(1536, 1791)]);
  (* Syriac *) ([83; 121; 114; 105; 97; 99], [(1792, 1871)]);
  (* Thaana *) ([84; 104; 97; 97; 110; 97], [(1920, 1983)]);
  (* Devanagari *) ([68; 101; 118; 97; 110; 97; 103; 97; 114; 105], [(2304, 2431)]);
  (* Bengali *) ([66; 101; 110; 103; 97; 108; 105], [(2432, 2559)]);
  (* Gurmukhi *) ([71; 117; 114; 109; 117; 107; 104; 105], [(2560, 2687)]);
  (* Gujarati *) ([71; 117; 106; 97; 114; 97; 116; 105], [(2688, 2815)]);
  (* Oriya *) ([79; 114; 105; 121; 97], [(2816, 2943)]);
  (* Tamil *) ([84; 97; 109; 105; 108], [(2944, 3071)]);
  (* Telugu *) ([84; 101; 108; 117; 103; 117], [(3072, 3199)]);
  (* Kannada *) ([75; 97; 110; 110; 97; 100; 97], [(3200, 3327)]);
  (* Malayalam *) ([77; 97; 108; 97; 121; 97; 108; 97; 109], [(3328, 3455)]);
  (* Sinhala *) ([83; 105; 110; 104; 97; 108; 97], [(3456, 3583)]);
  (* Thai *) ([84; 104; 97; 105], [(3584, 3711)]);
  (* Lao *) ([76; 97; 111], [(3712, 3839)]);
  (* Tibetan *) ([84; 105; 98; 101; 116; 97; 110], [(3840, 4095)]);
  (* Myanmar *) ([77; 121; 97; 110; 109; 97; 114], [(4096, 4255)]);
  (* Georgian *) ([71; 101; 111; 114; 103; 105; 97; 110], [(4256, 4351)]);
  (* HangulJamo *) ([72; 97; 110; 103; 117; 108; 74; 97; 109; 111], [(4352, 4607)]);
  (* Ethiopic *) ([69; 116; 104; 105; 111; 112; 105; 99], [(4608, 4991)]);
  (* Cherokee *) ([67; 104; 101; 114; 111; 107; 101; 101], [(5024, 5119)]);
  (* UnifiedCanadianAboriginalSyllabics *) ([85; 110; 105; 102; 105; 101; 100; 67; 97; 110; 97; 100; 105; 97; 110; 65; 98; 111; 114; 105; 103; 105; 110; 97; 108; 83; 121; 108; 108; 97; 98; 105; 99; 115], [(5120, 5759)]);
  (* Ogham *) ([79; 103; 104; 97; 109], [(5760, 5791)]);
  (* Runic *) ([82; 117; 110; 105; 99], [(5792, 5887)]);
  (* Khmer *) ([75; 104; 109; 101; 114], [(6016, 6143)]);
  (* Mongolian *) ([77; 111; 110; 103; 111; 108; 105; 97; 110], [(6144, 6319)]);
  (* LatinExtendedAdditional *) ([76; 97; 116; 105; 110; 69; 120; 116; 101; 110; 100; 101; 100; 65; 100; 100; 105; 116; 105; 111; 110; 97; 108], [(7680, 7935)]);
  (* GreekExtended *) ([71; 114; 101; 101; 107; 69; 120; 116; 101; 110; 100; 101; 100], [(7936, 8191)]);
  (* GeneralPunctuation *) ([71; 101; 110; 101; 114; 97; 108; 80; 117; 110; 99; 116; 117; 97; 116; 105; 111; 110], [(8192, 8303)]);
  (* SuperscriptsandSubscripts *) ([83; 117; 112; 101; 114; 115; 99; 114; 105; 112; 116; 115; 97; 110; 100; 83; 117; 98; 115; 99; 114; 105; 112; 116; 115], [(8304, 8351)]);
  (* CurrencySymbols *) ([67; 117; 114; 114; 101; 110; 99; 121; 83; 121; 109; 98; 111; 108; 115], [(8352, 8399)]);
  (* CombiningMarksforSymbols *) ([67; 111; 109; 98; 105; 110; 105; 110; 103; 77; 97; 114; 107; 115; 102; 111; 114; 83; 121; 109; 98; 111; 108; 115], [(8400, 8447)]);
  (* LetterlikeSymbols *) ([76; 101; 116; 116; 101; 114; 108; 105; 107; 101; 83; 121; 109; 98; 111; 108; 115], [(8448, 8527)]);
  (* NumberForms *) ([78; 117; 109; 98; 101; 114; 70; 111; 114; 109; 115], [(8528, 8591)]);
  (* Arrows *) ([65; 114; 114; 111; 119; 115], [(8592, 8703)]);
  (* MathematicalOperators *) ([77; 97; 116; 104; 101; 109; 97; 116; 105; 99; 97; 108; 79; 112; 101; 114; 97; 116; 111; 114; 115], [(8704, 8959)]);
  (* MiscellaneousTechnical *) ([77; 105; 115; 99; 101; 108; 108; 97; 110; 101; 111; 117; 115; 84; 101; 99; 104; 110; 105; 99; 97; 108], [(8960, 9215)]);
  (* ControlPictures *) ([67; 111; 110; 116; 114; 111; 108; 80; 105; 99; 116; 117; 114; 101; 115], [(9216, 9279)]);
  (* OpticalCharacterRecognition *) ([79; 112; 116; 105; 99; 97; 108; 67; 104; 97; 114; 97; 99; 116; 101; 114; 82; 101; 99; 111; 103; 110; 105; 116; 105; 111; 110], [(9280, 9311)]);
  (* EnclosedAlphanumerics *) ([69; 110; 99; 108; 111; 115; 101; 100; 65; 108; 112; 104; 97; 110; 117; 109; 101; 114; 105; 99; 115], [(9312, 9471)]);
  (* BoxDrawing *) ([66; 111; 120; 68; 114; 97; 119; 105; 110; 103], [(9472, 9599)]);
  (* BlockElements *) ([66; 108; 111; 99; 107; 69; 108; 101; 109; 101; 110; 116; 115], [(9600, 9631)]);
  (* GeometricShapes *) ([71; 101; 111; 109; 101; 116; 114; 105; 99; 83; 104; 97; 112; 101; 115], [(9632, 9727)]);
  (* MiscellaneousSymbols *) ([77; 105; 115; 99; 101; 108; 108; 97; 110; 101; 111; 117; 115; 83; 121; 109; 98; 111; 108; 115], [(9728, 9983)]);
  (* Dingbats *) ([68; 105; 110; 103; 98; 97; 116; 115], [(9984, 10175)]);
  (* BraillePatterns *) ([66; 114; 97; 105; 108; 108; 101; 80; 97; 116; 116; 101; 114; 110; 115], [(10240, 10495)]);
  (* CJKRadicalsSupplement *) ([67; 74; 75; 82; 97; 100; 105; 99; 97; 108; 115; 83; 117; 112; 112; 108; 101; 109; 101; 110; 116], [(11904, 12031)]);
  (* KangxiRadicals *) ([75; 97; 110; 103; 120; 105; 82; 97; 100; 105; 99; 97; 108; 115], [(12032, 12255)]);
  (* IdeographicDescriptionCharacters *) ([73; 100; 101; 111; 103; 114; 97; 112; 104; 105; 99; 68; 101; 115; 99; 114; 105; 112; 116; 105; 111; 110; 67; 104; 97; 114; 97; 99; 116; 101; 114; 115], [(12272, 12287)]);
  (* CJKSymbolsandPunctuation *) ([67; 74; 75; 83; 121; 109; 98; 111; 108; 115; 97; 110; 100; 80; 117; 110; 99; 116; 117; 97; 116; 105; 111; 110], [(12288, 12351)]);
  (* Hiragana *) ([72; 105; 114; 97; 103; 97; 110; 97], [(12352, 12447)]);
  (* Katakana *) ([75; 97; 116; 97; 107; 97; 110; 97], [(12448, 12543)]);
  (* Bopomofo *) ([66; 111; 112; 111; 109; 111; 102; 111], [(12544, 12591)]);
  (* HangulCompatibilityJamo *) ([72; 97; 110; 103; 117; 108; 67; 111; 109; 112; 97; 116; 105; 98; 105; 108; 105; 116; 121; 74; 97; 109; 111], [(12592, 12687)]);
  (* Kanbun *) ([75; 97; 110; 98; 117; 110], [(12688, 12703)]);
  (* BopomofoExtended *) ([66; 111; 112; 111; 109; 111; 102; 111; 69; 120; 116; 101; 110; 100; 101; 100], [(12704, 12735)]);
  (* EnclosedCJKLettersandMonths *) ([69; 110; 99; 108; 111; 115; 101; 100; 67; 74; 75; 76; 101; 116; 116; 101; 114; 115; 97; 110; 100; 77; 111; 110; 116; 104; 115], [(12800, 13055)]);
  (* CJKCompatibility *) ([67; 74; 75; 67; 111; 109; 112; 97; 116; 105; 98; 105; 108; 105; 116; 121], [(13056, 13311)]);
  (* CJKUnifiedIdeographsExtensionA *) ([67; 74; 75; 85; 110; 105; 102; 105; 101; 100; 73; 100; 101; 111; 103; 114; 97; 112; 104; 115; 69; 120; 116; 101; 110; 115; 105; 111; 110; 65], [(13312, 19893)]);
  (* CJKUnifiedIdeographs *) ([67; 74; 75; 85; 110; 105; 102; 105; 101; 100; 73; 100; 101; 111; 103; 114; 97; 112; 104; 115], [(19968, 40959)]);
  (* YiSyllables *) ([89; 105; 83; 121; 108; 108; 97; 98; 108; 101; 115], [(40960, 42127)]);
  (* YiRadicals *) ([89; 105; 82; 97; 100; 105; 99; 97; 108; 115], [(42128, 42191)]);
  (* HangulSyllables *) ([72; 97; 110; 103; 117; 108; 83; 121; 108; 108; 97; 98; 108; 101; 115], [(44032, 55203)]);
  (* PrivateUse *) ([80; 114; 105; 118; 97; 116; 101; 85; 115; 101], [(57344, 63743)]);
  (* CJKCompatibilityIdeographs *) ([67; 74; 75; 67; 111; 109; 112; 97; 116; 105; 98; 105; 108; 105; 116; 121; 73; 100; 101; 111; 103; 114; 97; 112; 104; 115], [(63744, 64255)]);
  (* AlphabeticPresentationForms *) ([65; 108; 112; 104; 97; 98; 101; 116; 105; 99; 80; 114; 101; 115; 101; 110; 116; 97; 116; 105; 111; 110; 70; 111; 114; 109; 115], [(64256, 64335)]);
  (* ArabicPresentationForms-A *) ([65; 114; 97; 98; 105; 99; 80; 114; 101; 115; 101; 110; 116; 97; 116; 105; 111; 110; 70; 111; 114; 109; 115; 45; 65], [(64336, 65023)]);
  (* CombiningHalfMarks *) ([67; 111; 109; 98; 105; 110; 105; 110; 103; 72; 97; 108; 102; 77; 97; 114; 107; 115], [(65056, 65071)]);
  (* CJKCompatibilityForms *) ([67; 74; 75; 67; 111; 109; 112; 97; 116; 105; 98; 105; 108; 105; 116; 121; 70; 111; 114; 109; 115], [(65072, 65103)]);
  (* SmallFormVariants *) ([83; 109; 97; 108; 108; 70; 111; 114; 109; 86; 97; 114; 105; 97; 110; 116; 115], [(65104, 65135)]);
  (* ArabicPresentationForms-B *) ([65; 114; 97; 98; 105; 99; 80; 114; 101; 115; 101; 110; 116; 97; 116; 105; 111; 110; 70; 111; 114; 109; 115; 45; 66], [(65136, 65278)]);
  (* HalfwidthandFullwidthForms *) ([72; 97; 108; 102; 119; 105; 100; 116; 104; 97; 110; 100; 70; 117; 108; 108; 119; 105; 100; 116; 104; 70; 111; 114; 109; 115], [(65280, 65519)]);
  (* Specials *) ([83; 112; 101; 99; 105; 97; 108; 115], [(65279, 65279); (65520, 65533)])
].
(* GENERATED from Python unicodedata 14.0.0 for U+0000..U+00FF: (category name, ranges) *)
Definition latin1_categories : list (list N * list (N * N)) := [
  (* L *) ([76], [(65, 90); (97, 122); (170, 170); (181, 181); (186, 186); (192, 214); (216, 246); (248, 255)]);
  (* Lu *) ([76; 117], [(65, 90); (192, 214); (216, 222)]);
  (* Ll *) ([76; 108], [(97, 122); (181, 181); (223, 246); (248, 255)]);
  (* Lt *) ([76; 116], []);
  (* Lm *) ([76; 109], []);
  (* Lo *) ([76; 111], [(170, 170); (186, 186)]);
  (* M *) ([77], []);
  (* Mn *) ([77; 110], []);
  (* Mc *) ([77; 99], []);
  (* Me *) ([77; 101], []);
  (* N *) ([78], [(48, 57); (178, 179); (185, 185); (188, 190)]);
  (* Nd *) ([78; 100], [(48, 57)]);
  (* Nl *) ([78; 108], []);
  (* No *) ([78; 111], [(178, 179); (185, 185); (188, 190)]);
  (* P *) ([80], [(33, 35); (37, 42); (44, 47); (58, 59); (63, 64); (91, 93); (95, 95); (123, 123); (125, 125); (161, 161); (167, 167); (171, 171); (182, 183); (187, 187); (191, 191)]);
  (* Pc *) ([80; 99], [(95, 95)]);
  (* Pd *) ([80; 100], [(45, 45)]);
  (* Ps *) ([80; 115], [(40, 40); (91, 91); (123, 123)]);
  (* Pe *) ([80; 101], [(41, 41); (93, 93); (125, 125)]);
  (* Pi *) ([80; 105], [(171, 171)]);
  (* Pf *) ([80; 102], [(187, 187)]);
  (* Po *) ([80; 111], [(33, 35); (37, 39); (42, 42); (44, 44); (46, 47); (58, 59); (63, 64); (92, 92); (161, 161); (167, 167); (182, 183); (191, 191)]);
  (* Z *) ([90], [(32, 32); (160, 160)]);
  (* Zs *) ([90; 115], [(32, 32); (160, 160)]);
  (* Zl *) ([90; 108], []);
  (* Zp *) ([90; 112], []);
  (* S *) ([83], [(36, 36); (43, 43); (60, 62); (94, 94); (96, 96); (124, 124); (126, 126); (162, 166); (168, 169); (172, 172); (174, 177); (180, 180); (184, 184); (215, 215); (247, 247)]);
  (* Sm *) ([83; 109], [(43, 43); (60, 62); (124, 124); (126, 126); (172, 172); (177, 177); (215, 215); (247, 247)]);
  (* Sc *) ([83; 99], [(36, 36); (162, 165)]);
  (* Sk *) ([83; 107], [(94, 94); (96, 96); (168, 168); (175, 175); (180, 180); (184, 184)]);
  (* So *) ([83; 111], [(166, 166); (169, 169); (174, 174); (176, 176)]);
  (* C *) ([67], [(0, 31); (127, 159); (173, 173)]);
  (* Cc *) ([67; 99], [(0, 31); (127, 159)]);
  (* Cf *) ([67; 102], [(173, 173)]);
  (* Co *) ([67; 111], []);
  (* Cn *) ([67; 110], [])
].
(* \w below U+0100: everything that is not in category P, Z or C *)
Definition latin1_word : list (N * N) := [(36, 36); (43, 43); (48, 57); (60, 62); (65, 90); (94, 94); (96, 122); (124, 124); (126, 126); (162, 166); (168, 170); (172, 172); (174, 181); (184, 186); (188, 190); (192, 255)].

Definition MAXCP : N := 1114111.                                    (* U+10FFFF *)

(* wildcard '.': [^\n\r] *)
Definition cs_dot : cset := CsNeg (CsUnion (cs_char 10) (cs_char 13)).
(* \s: [#x20\t\n\r] *)
Definition cs_space : cset := cs_ranges [(9, 10); (13, 13); (32, 32)].
(* \d = \p{Nd} (exact below U+0100, see the header) *)
Definition cs_digit : cset := CsRange 48 57.
(* \w = [#x0000-#x10FFFF]-[\p{P}\p{Z}\p{C}] *)
Definition cs_word : cset := CsUnion (cs_ranges latin1_word) (CsRange 256 MAXCP).
(* \i = Letter | '_' | ':' and \c = NameChar of XML 1.0, below U+0100 *)
Definition cs_initial : cset :=
  cs_ranges [(58, 58); (65, 90); (95, 95); (97, 122); (192, 214); (216, 246); (248, 255)].
Definition cs_namechar : cset :=
  cs_ranges [(45, 46); (48, 58); (65, 90); (95, 95); (97, 122); (183, 183); (192, 214); (216, 246); (248, 255)].

(* \p{Name}: Name = IsBlock or a general category *)
Definition lookup_name {A} (name : list N) (tab : list (list N * A)) : option A :=
  match find (fun e => beq_bytes (fst e) name) tab with
  | Some e => Some (snd e)
  | None => None
  end.

Definition prop_set (name : list N) : option cset :=
  match name with
  | 73 :: 115 :: blk =>                                             (* Is... *)
      match lookup_name blk xsd_blocks with Some rs => Some (cs_ranges rs) | None => None end
  | _ =>
      match lookup_name name latin1_categories with Some rs => Some (cs_ranges rs) | None => None end
  end.
