(* XPathExamples.v — slice xpath (C08): a concrete data tree and, on it, one witness per modelled departure of
   src/xpath.c from XPath 1.0 (reference result versus as-coded result, both computed by [eval_top]), and the
   former witnesses of the departures that were repaired in /repo as regression examples (both results equal now).
   Every witness is also a case of the correspondence corpus (tools/props/comps_xpath.py, FIXED_EXPRS), where the real
   library is seen to give the as-coded answer.

   The tree (module a):   c { s 'x';  ll '5.0';
                               l1 { k '5.0'; v '1'; in { x 'q' } }
                               l1 { k 'b';   v '2'; in { x 'r' } } }
                           tl 't'                                        <- last top-level node: a leaf *)
From Coq Require Import QArith.
From LY Require Import Base XPathConv XPathTree XPathSem.
Local Open Scope N_scope.

Definition nA : bytes := [97].
Definition mk (k : nkind) (name val : bytes) (ty : ltype) (keys : list bytes) : ninfo :=
  {| ni_kind := k; ni_mod := nA; ni_name := name; ni_val := val; ni_dflt := false; ni_type := ty; ni_keys := keys |}.
Definition leaf (name val : bytes) : rtree := RNode (mk KLeaf name val TyStr []) [].
Definition ileaf (name val : bytes) : rtree := RNode (mk KLeaf name val (TyInt (-2147483648) 2147483647) []) [].

Definition n_c : bytes := [99].
Definition n_s : bytes := [115].
Definition n_ll : bytes := [108; 108].
Definition n_l1 : bytes := [108; 49].
Definition n_k : bytes := [107].
Definition n_v : bytes := [118].
Definition n_in : bytes := [105; 110].
Definition n_x : bytes := [120].
Definition n_tl : bytes := [116; 108].
Definition n_zz : bytes := [122; 122].

Definition ex_forest : list rtree :=
  [ RNode (mk KCont n_c [] TyStr [])
      [ leaf n_s [120];
        RNode (mk KLeafList n_ll [53; 46; 48] TyStr []) [];
        RNode (mk KList n_l1 [] TyStr [n_k])
          [ leaf n_k [53; 46; 48]; ileaf n_v [49]; RNode (mk KCont n_in [] TyStr []) [ leaf n_x [113] ] ];
        RNode (mk KList n_l1 [] TyStr [n_k])
          [ leaf n_k [98]; ileaf n_v [50]; RNode (mk KCont n_in [] TyStr []) [ leaf n_x [114] ] ] ];
    leaf n_tl [116] ].

Definition ex_tree : list xnode := tree_of_forest ex_forest.

Lemma ex_tree_wf : wf_tree ex_tree.
Proof. vm_compute. repeat split. Qed.

(* expression shorthands *)
Definition nm (n : bytes) : ntest := TName (Some nA) n.
Definition ch (b : expr) (n : bytes) : expr := EStep b false AxChild (nm n) PNil.
Definition chp (b : expr) (n : bytes) (p : expr) : expr := EStep b false AxChild (nm n) (PCons p PNil).
Definition num (z : bytes) : expr := ENum z.
Definition p_c_l1 : expr := ch (ch ERoot n_c) n_l1.                       (* /a:c/a:l1 *)

(* observable form of a result: keys of a node-set (root 0, element i: 2i+1, its text node: 2i+2) *)
Inductive obs : Type := ONodes (k : list N) | OStr (s : bytes) | OBool (b : bool) | ONum (x : xnum) | OErr (e : N).
Definition observe (r : res value) : obs :=
  match r with
  | Ok (VSet l) => ONodes (map item_key l)
  | Ok (VStr s) => OStr s
  | Ok (VBool b) => OBool b
  | Ok (VNum x) => ONum x
  | Err e => OErr e
  end.
Definition run (fl : flags) (e : expr) : obs := observe (eval_top fl ex_tree IRoot e).

(* ids: c 0, s 1, ll 2, l1 3 {k 4, v 5, in 6 {x 7}}, l1 8 {k 9, v 10, in 11 {x 12}}, tl 13 *)
Example ex_path : run spec_flags p_c_l1 = ONodes [7; 17] /\ run impl_flags p_c_l1 = ONodes [7; 17].
Proof. split; vm_compute; reflexivity. Qed.

(* ---------------- departures that remain (known findings) ---------------- *)

(* /a:c/a:l1/a:v[1] : the first v of EACH l1 (XPath 1.0 section 2.4); as coded the first of the merged set *)
Example predicate_position_global_refuted :
  run spec_flags (chp p_c_l1 n_v (num [49])) = ONodes [11; 21] /\
  run impl_flags (chp p_c_l1 n_v (num [49])) = ONodes [11].
Proof. split; vm_compute; reflexivity. Qed.

(* /a:c/a:s/node() : the text node of the leaf; as coded a leaf has no children.
   count(//node()) : 14 elements and 9 text nodes; as coded the elements only *)
Example text_nodes_refuted :
  run spec_flags (EStep (ch (ch ERoot n_c) n_s) false AxChild TNode PNil) = ONodes [4] /\
  run impl_flags (EStep (ch (ch ERoot n_c) n_s) false AxChild TNode PNil) = ONodes [] /\
  run spec_flags (EFun1 FCount (EStep ERoot true AxChild TNode PNil)) = ONum (x_of_Z 23) /\
  run impl_flags (EFun1 FCount (EStep ERoot true AxChild TNode PNil)) = ONum (x_of_Z 14).
Proof. repeat split; vm_compute; reflexivity. Qed.

(* /a:c/a:l1/a:v = '01' : string comparison '1' = '01' is false; as coded the literal is canonized as an int32 *)
Example cmp_canonize_refuted :
  run spec_flags (ECmp CEq (ch p_c_l1 n_v) (ELit [48; 49])) = OBool false /\
  run impl_flags (ECmp CEq (ch p_c_l1 n_v) (ELit [48; 49])) = OBool true.
Proof. split; vm_compute; reflexivity. Qed.

(* string(/a:c/a:l1) : concatenation of the descendant text; as coded with line feeds and indentation *)
Example string_value_indent_refuted :
  run spec_flags (EFun1 FString p_c_l1) = OStr [53; 46; 48; 49; 113] /\
  run impl_flags (EFun1 FString p_c_l1) = OStr [10; 32; 32; 53; 46; 48; 10; 32; 32; 49; 10; 10; 32; 32; 32; 32; 113; 10].
Proof. split; vm_compute; reflexivity. Qed.

(* string-length('é'), 9007199254740993 = 9007199254740992 through the evaluator *)
Example kernels_through_eval_refuted :
  run spec_flags (EFun1 FStrLen (ELit [195; 169])) = ONum (x_of_Z 1) /\
  run impl_flags (EFun1 FStrLen (ELit [195; 169])) = ONum (x_of_Z 2) /\
  run spec_flags (ECmp CEq (num [57;48;48;55;49;57;57;50;53;52;55;52;48;57;57;51]) (num [57;48;48;55;49;57;57;50;53;52;55;52;48;57;57;50])) = OBool true /\
  run impl_flags (ECmp CEq (num [57;48;48;55;49;57;57;50;53;52;55;52;48;57;57;51]) (num [57;48;48;55;49;57;57;50;53;52;55;52;48;57;57;50])) = OBool false.
Proof. repeat split; vm_compute; reflexivity. Qed.

(* ---------------- regression: former witnesses of departures repaired in /repo ---------------- *)
Definition agree (e : expr) (o : obs) : Prop := run spec_flags e = o /\ run impl_flags e = o.

(* 54bf5db, b906576  string(1 div 4) is 0.25 (was 0.2: one fraction digit), number('1e3') is NaN (was 1000: strtold),
   number(' 5 ') is 5 (was NaN) *)
Example kernels_through_eval_regression :
  agree (EFun1 FString (EArith ADiv (num [49]) (num [52]))) (OStr [48; 46; 50; 53]) /\
  agree (EFun1 FNumber (ELit [49; 101; 51])) (ONum XNaN) /\
  agree (EFun1 FNumber (ELit [32; 53; 32])) (ONum (x_of_Z 5)).
Proof. repeat split; vm_compute; reflexivity. Qed.

(* c545a4e  /a:c/ancestor::* : the root is not an element (it matched '*'); ancestor::node() still selects it *)
Example root_matches_star_regression :
  agree (EStep (ch ERoot n_c) false AxAncestor (TStar None) PNil) (ONodes []) /\
  agree (EStep (ch ERoot n_c) false AxAncestor TNode PNil) (ONodes [0]).
Proof. repeat split; vm_compute; reflexivity. Qed.

(* 434e77e  /a:c/a:l1[a:k=5] : node-set = number compares numbers: the key '5.0' is 5 (the lookup compared strings) *)
Example fastpath_nonstring_rhs_regression :
  agree (chp (ch ERoot n_c) n_l1 (ECmp CEq (ch ECtx n_k) (num [53]))) (ONodes [7]).
Proof. split; vm_compute; reflexivity. Qed.

(* 7bd5826  /a:c/a:l1/a:in/a:x/following::* : x (7) is a last sibling: everything after it follows *)
Example axis_following_regression :
  agree (EStep (ch (ch p_c_l1 n_in) n_x) false AxFollowing (TStar None) PNil) (ONodes [17; 19; 21; 23; 25; 27]).
Proof. split; vm_compute; reflexivity. Qed.

(* 905ba1e, 61e2388  /a:c/a:l1/a:v/preceding::* : without the ancestors, also built in reverse order with a leaf as the
   last top-level node (the former get_node_pos() crash) *)
Example axis_preceding_regression :
  agree (EStep (ch p_c_l1 n_v) false AxPreceding (TStar None) PNil) (ONodes [3; 5; 7; 9; 11; 13; 15; 19]).
Proof. split; vm_compute; reflexivity. Qed.

(* a7f876d  count(//node()[self::a:k]) : '//' before node() *)
Example dslash_nodetype_regression :
  agree (EFun1 FCount (EStep ERoot true AxChild TNode (PCons (EStep ECtx false AxSelf (nm n_k) PNil) PNil))) (ONum (x_of_Z 2)).
Proof. split; vm_compute; reflexivity. Qed.

(* 605bb31  /a:c/a:zz = false() : an empty node-set converts to false *)
Example cmp_nodeset_boolean_regression :
  agree (ECmp CEq (ch (ch ERoot n_c) n_zz) (EFun0 FFalse)) (OBool true).
Proof. split; vm_compute; reflexivity. Qed.

(* a05fbb7  /a:c/a:l1[1.5] : position() = 1.5 is never true *)
Example predicate_number_regression :
  agree (chp (ch ERoot n_c) n_l1 (num [49; 46; 53])) (ONodes []).
Proof. split; vm_compute; reflexivity. Qed.

(* 945d0bc  true() or //parent::a:x ;  false() and //parent::a:x and true() *)
Example skip_alldesc_axis_regression :
  agree (EOr (EFun0 FTrue) (EStep ERoot true AxParent (nm n_x) PNil)) (OBool true) /\
  agree (EAnd (EAnd (EFun0 FFalse) (EStep ERoot true AxParent (nm n_x) PNil)) (EFun0 FTrue)) (OBool false).
Proof. repeat split; vm_compute; reflexivity. Qed.

(* 6840bb1  (/a:c | /a:c/a:l1)/* : children of nested context nodes, in document order *)
Example unsorted_child_step_regression :
  agree (EStep (EUnion (ch ERoot n_c) p_c_l1) false AxChild (TStar None) PNil) (ONodes [3; 5; 7; 9; 11; 13; 17; 19; 21; 23]).
Proof. split; vm_compute; reflexivity. Qed.

(* 31c0198  (/a:c/a:l1[2] | /a:c/a:l1[2]/a:in)//a:x : x once *)
Example alldesc_duplicate_regression :
  let l1_2 := chp (ch ERoot n_c) n_l1 (num [50]) in
  agree (EStep (EUnion l1_2 (ch l1_2 n_in)) true AxChild (nm n_x) PNil) (ONodes [25]).
Proof. split; vm_compute; reflexivity. Qed.

(* 0327904  floor(-1.5) *)
Example floor_regression : agree (EFun1 FFloor (ENeg (num [49; 46; 53]))) (ONum (XFin true (inject_Z 2))).
Proof. split; vm_compute; reflexivity. Qed.

(* 17c1e75  (1)/node() : a step after a non-node-set is a type error *)
Example node_step_on_non_nodeset_regression : agree (EStep (num [49]) false AxChild TNode PNil) (OErr E_TYPE).
Proof. split; vm_compute; reflexivity. Qed.
