(* Extract_pathmodel.v - extraction of slice pathmodel (PathModel) *)
From Coq Require Extraction ExtrOcamlBasic.
From LY Require Import Base Utf8 PathQuote PathModel PathModelP.
Extraction Language OCaml.
Extraction "model_pathmodel.ml"
  N.add N.mul N.div N.modulo N.sub Z.add Z.mul Z.opp Z.of_N Z.abs_N Z.sub Z.ltb
  PathModel.path_of PathModel.parse_path PathModel.find_path PathModel.new_path
  PathModel.change_term PathModel.is_dflt PathModel.swf PathModel.dwf PathModel.quotes_ok PathModel.spine PathModel.node_at
  PathModel.E_VALID PathModel.E_UNSUP PathModel.E_EXIST PathModelP.ex_S_c PathModelP.ex_t_c.
