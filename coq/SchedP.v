(* SchedP.v - proofs about the scheduler model Sched.v (slice conc, property C16). *)
From LY Require Import Base Sched.
From Coq Require Import ZifyBool ZifyNat ZifyN.
Local Open Scope N_scope.

(* ---------------------------------------------------------------------------------------------------------------
   lists, thread update
   --------------------------------------------------------------------------------------------------------------- *)
Lemma lset_length {A} (l : list A) i a : length (lset l i a) = length l.
Proof. revert i; induction l as [|x l IH]; intros [|i]; cbn; auto. Qed.

Lemma lset_same {A} (l : list A) i a x : nth_error l i = Some x -> nth_error (lset l i a) i = Some a.
Proof.
  revert i; induction l as [|y l IH]; intros [|i] H; cbn in *; try discriminate; auto.
Qed.

Lemma lset_other {A} (l : list A) i j a : i <> j -> nth_error (lset l i a) j = nth_error l j.
Proof.
  revert i j; induction l as [|y l IH]; intros [|i] [|j] H; cbn; auto; try congruence.
Qed.

Lemma lset_none {A} (l : list A) i a : nth_error l i = None -> lset l i a = l.
Proof.
  revert i; induction l as [|y l IH]; intros [|i] H; cbn in *; try discriminate; auto. f_equal; auto.
Qed.

Definition upd_thread (st : state) (t : tid) (ts : tstate) : state := set_thr st (lset (s_thr st) t ts).

Lemma run_app s1 s2 st :
  run (s1 ++ s2) st = (fst (run s2 (fst (run s1 st))), snd (run s1 st) ++ snd (run s2 (fst (run s1 st)))).
Proof.
  revert st; induction s1 as [|t s1 IH]; intro st; cbn [run app fst snd].
  - destruct (run s2 st); reflexivity.
  - rewrite IH. cbn [fst snd]. rewrite app_assoc. reflexivity.
Qed.

(* a property of states that every step preserves, and a property of events every step guarantees *)
Lemma run_invariant (I : state -> Prop) (G : tid -> event -> Prop) :
  (forall st t, I st -> I (fst (exec st t)) /\ forall e, In e (snd (exec st t)) -> G t e) ->
  forall sched st, I st -> I (fst (run sched st)) /\ forall t e, In (t, e) (snd (run sched st)) -> G t e.
Proof.
  intros Hstep sched; induction sched as [|t s IH]; intros st HI; cbn [run fst snd].
  - split; [exact HI|]. intros t e [].
  - destruct (Hstep st t HI) as [HI1 HG1]. destruct (IH _ HI1) as [HI2 HG2]. split; [exact HI2|].
    intros u e Hin. apply in_app_or in Hin. destruct Hin as [Hin|Hin].
    + apply in_map_iff in Hin. destruct Hin as [e' [Heq Hin]]. inversion Heq; subst. apply HG1; exact Hin.
    + apply HG2; exact Hin.
Qed.

(* ---------------------------------------------------------------------------------------------------------------
   lock discipline
   --------------------------------------------------------------------------------------------------------------- *)
Definition held_of (st : state) (t : tid) : held := (holds st t LDict, holds st t LHash).

Definition disc_inv (st : state) : Prop :=
  forall t ts, nth_error (s_thr st) t = Some ts -> disc (held_of st t) (t_rem ts) = true.

Lemma held_eqb_eq a b : held_eqb a b = true -> a = b.
Proof.
  destruct a as [a1 a2], b as [b1 b2]; unfold held_eqb; cbn. intro H. apply andb_true_iff in H. destruct H as [H1 H2].
  apply Bool.eqb_prop in H1. apply Bool.eqb_prop in H2. congruence.
Qed.

Lemma disc_skip : forall n p h h',
  disc_block h (firstn n p) = Some h' -> (n <= length p)%nat -> disc h p = true -> disc h' (skipn n p) = true.
Proof.
  induction n as [|n IH]; intros p h h' Hb Hn Hd.
  - cbn in Hb. inversion Hb; subst. exact Hd.
  - destruct p as [|s p]; [cbn in Hn; lia|]. cbn [firstn skipn] in *. cbn [length] in Hn.
    assert (Hn' : (n <= length p)%nat) by lia.
    destruct s; cbn [disc_block disc needs] in Hb, Hd;
      try (apply (IH p h h' Hb Hn' Hd));
      try discriminate.
    + destruct (hget h m); [discriminate|]. cbn in Hd. apply (IH p _ h' Hb Hn' Hd).
    + destruct (hget h m); [|discriminate]. cbn in Hd. apply (IH p _ h' Hb Hn' Hd).
    + destruct (hget h LDict); [|discriminate]. apply (IH p h h' Hb Hn' Hd).
    + destruct (hget h LDict); [|discriminate]. apply (IH p h h' Hb Hn' Hd).
    + destruct (hget h LDict); [|discriminate]. apply (IH p h h' Hb Hn' Hd).
    + destruct (hget h LDict); [|discriminate]. apply (IH p h h' Hb Hn' Hd).
    + destruct (hget h LHash); [|discriminate]. apply (IH p h h' Hb Hn' Hd).
    + destruct (hget h LHash); [|discriminate]. apply (IH p h h' Hb Hn' Hd).
    + destruct (hget h LHash); [|discriminate]. apply (IH p h h' Hb Hn' Hd).
    + destruct (hget h LHash); [|discriminate]. apply (IH p h h' Hb Hn' Hd).
    + destruct (hget h LHash); [|discriminate]. apply (IH p h h' Hb Hn' Hd).
    + destruct (hget h LHash); [|discriminate]. apply (IH p h h' Hb Hn' Hd).
Qed.

Lemma holds_set_holder st m h u m' :
  holds (set_holder st m h) u m' =
  if lockid_eqb m m' then match h with Some x => Nat.eqb x u | None => false end else holds st u m'.
Proof. destruct m, m'; reflexivity. Qed.

Lemma held_of_thr st l u : held_of (set_thr st l) u = held_of st u.
Proof. reflexivity. Qed.

(* the next step of thread t *)
Definition next_step (st : state) (t : tid) : option step :=
  match nth_error (s_thr st) t with
  | Some ts => match t_rem ts with s :: _ => Some s | [] => None end
  | None => None
  end.

Definition good_event (e : event) : Prop :=
  is_bad_access e = false /\ forall m, e <> EvBadUnlock m.

Lemma hget_held_of st t m : hget (held_of st t) m = holds st t m.
Proof. destruct m; reflexivity. Qed.

Lemma held_of_acquire st t m u :
  holder st m = None ->
  held_of (set_holder st m (Some t)) u = if Nat.eqb t u then hset (held_of st u) m true else held_of st u.
Proof.
  intro Hh. unfold held_of. rewrite !holds_set_holder.
  destruct m; cbn [lockid_eqb hset fst snd]; unfold holds at 1 2; cbn in Hh |- *.
  - unfold holds. cbn. rewrite Hh. destruct (Nat.eqb t u); reflexivity.
  - unfold holds. cbn. rewrite Hh. destruct (Nat.eqb t u); reflexivity.
Qed.

Lemma held_of_release st t m u :
  holds st t m = true ->
  held_of (set_holder st m None) u = if Nat.eqb t u then hset (held_of st u) m false else held_of st u.
Proof.
  intro Hh. unfold held_of. rewrite !holds_set_holder.
  unfold holds in *. destruct m; cbn in *.
  - destruct (s_ldict st) as [x|]; [|discriminate]. apply Nat.eqb_eq in Hh. subst x.
    destruct (Nat.eqb t u); reflexivity.
  - destruct (s_lhash st) as [x|]; [|discriminate]. apply Nat.eqb_eq in Hh. subst x.
    destruct (Nat.eqb t u); reflexivity.
Qed.

Lemma disc_inv_step st st1 t ts ts' :
  disc_inv st -> nth_error (s_thr st) t = Some ts -> s_thr st1 = s_thr st ->
  (forall u, u <> t -> held_of st1 u = held_of st u) ->
  disc (held_of st1 t) (t_rem ts') = true ->
  disc_inv (set_thr st1 (lset (s_thr st1) t ts')).
Proof.
  intros Hinv Ht Hthr Hoth Hd. unfold disc_inv. intros u tsu Hu. cbn [s_thr set_thr] in Hu. rewrite held_of_thr.
  rewrite Hthr in Hu. destruct (Nat.eq_dec t u) as [->|Hne].
  - rewrite (lset_same _ _ _ _ Ht) in Hu. inversion Hu; subst. exact Hd.
  - rewrite lset_other in Hu by exact Hne. rewrite Hoth by auto. apply Hinv; exact Hu.
Qed.

Lemma good_access r : good_event (EvAccess r true).
Proof. split; [reflexivity|]. intros m H; discriminate. Qed.

Ltac good_other := split; [reflexivity | intros ? ?; discriminate].
Ltac evs :=
  let ev := fresh "ev" in let Hev := fresh "Hev" in
  intros ev Hev; cbn [In snd] in Hev;
  repeat (destruct Hev as [<-|Hev]; [try apply good_access; try good_other|]); try contradiction.

Lemma s_thr_set_holder st m h : s_thr (set_holder st m h) = s_thr st.
Proof. destruct m; reflexivity. Qed.

Ltac dstep :=
  match goal with
  | Hinv : disc_inv ?st, Ht : nth_error (s_thr ?st) _ = Some ?ts |- _ =>
      apply disc_inv_step with (st := st) (ts := ts);
      [exact Hinv | exact Ht | try reflexivity; try apply s_thr_set_holder | try (intros ? ?; reflexivity) | try assumption]
  end.

Lemma exec_disc st t :
  disc_inv st -> disc_inv (fst (exec st t)) /\ forall e, In e (snd (exec st t)) -> good_event e.
Proof.
  intro Hinv. unfold exec. destruct (nth_error (s_thr st) t) as [ts|] eqn:Ht; [|split; [exact Hinv|evs]].
  destruct (t_rem ts) as [|stp rest] eqn:Hrem; [split; [exact Hinv|evs]|].
  pose proof (Hinv t ts Ht) as Hd. rewrite Hrem in Hd.
  destruct stp; cbn [exec_step]; cbn [disc needs] in Hd.
  - (* Acquire *)
    apply andb_true_iff in Hd. destruct Hd as [Hfree Hd].
    destruct (holder st m) as [x|] eqn:Hh.
    + split; [exact Hinv|]. evs.
    + split; [|evs]. cbn [fst].
      dstep.
      * intros u Hu. rewrite held_of_acquire by exact Hh. destruct (Nat.eqb t u) eqn:E; [apply Nat.eqb_eq in E; congruence|reflexivity].
      * cbn [t_rem]. rewrite held_of_acquire by exact Hh. rewrite Nat.eqb_refl. exact Hd.
  - (* Release *)
    apply andb_true_iff in Hd. destruct Hd as [Hheld Hd]. rewrite hget_held_of in Hheld. rewrite Hheld. cbn [fst snd].
    split; [|evs].
    dstep.
    + intros u Hu. rewrite (held_of_release st t m u Hheld). destruct (Nat.eqb t u) eqn:E; [apply Nat.eqb_eq in E; congruence|reflexivity].
    + cbn [t_rem]. rewrite (held_of_release st t m t Hheld). rewrite Nat.eqb_refl. exact Hd.
  - (* SkipIf *)
    apply andb_true_iff in Hd. destruct Hd as [Hd Hd3]. apply andb_true_iff in Hd. destruct Hd as [Hd1 Hd2].
    cbn [fst snd]. split; [|evs].
    dstep. cbn [t_rem].
    destruct (Bool.eqb (flag (t_reg ts)) b); [|exact Hd3].
    destruct (disc_block (held_of st t) (firstn n rest)) as [h'|] eqn:Hb; [|discriminate].
    apply held_eqb_eq in Hd2. subst h'. apply (disc_skip n rest _ _ Hb); [apply Nat.leb_le; exact Hd1|exact Hd3].
  - (* DictInsFind *)
    apply andb_true_iff in Hd. destruct Hd as [Hheld Hd]. rewrite hget_held_of in Hheld. rewrite Hheld. cbn [fst snd].
    split; [|evs].
    destruct (negb (s_dict st s =? 0)); dstep.
  - (* DictInsBump *)
    apply andb_true_iff in Hd. destruct Hd as [Hheld Hd]. rewrite hget_held_of in Hheld. rewrite Hheld. cbn [fst snd].
    split; [|evs].
    destruct (flag (t_reg ts)); dstep.
  - (* DictRemFind *)
    apply andb_true_iff in Hd. destruct Hd as [Hheld Hd]. rewrite hget_held_of in Hheld. rewrite Hheld. cbn [fst snd].
    split; [|evs].
    dstep.
  - (* DictRemDec *)
    apply andb_true_iff in Hd. destruct Hd as [Hheld Hd]. rewrite hget_held_of in Hheld. rewrite Hheld.
    destruct (flag (t_reg ts)); cbn [fst snd].
    + split; [|evs].
      dstep.
    + split; [|evs].
      dstep.
  - (* ErrFind *)
    apply andb_true_iff in Hd. destruct Hd as [Hheld Hd]. rewrite hget_held_of in Hheld. rewrite Hheld. cbn [fst snd].
    split; [|evs].
    dstep.
  - (* ErrInsert *)
    apply andb_true_iff in Hd. destruct Hd as [Hheld Hd]. rewrite hget_held_of in Hheld. rewrite Hheld.
    destruct (find_rec (s_erecs st) t 0).
    + cbn [fst snd]. split; [|evs].
      dstep.
    + destruct (err_resize (s_egen st) (s_esize st) (s_emode st) (N.of_nat (length (s_erecs st ++ [(t, [])])))) as [[g sz] md].
      cbn [fst snd]. split; [|evs].
      dstep.
  - (* ErrWrite *)
    destruct (t_reg ts) as [| |[p|]|]; try (cbn [fst snd]; split; [dstep|evs]).
    destruct (nth_error (s_erecs st) (p_idx p)); cbn [fst snd];
      (split; [dstep|]); evs.
  - (* ErrRead *)
    destruct (t_reg ts) as [| |[p|]|]; try (cbn [fst snd]; split; [dstep|evs]).
    destruct (nth_error (s_erecs st) (p_idx p)); cbn [fst snd];
      (split; [dstep|]); evs.
  - (* ErrClear *)
    destruct (t_reg ts) as [| |[p|]|]; try (cbn [fst snd]; split; [dstep|evs]).
    destruct (nth_error (s_erecs st) (p_idx p)); cbn [fst snd];
      (split; [dstep|]); evs.
  - cbn [fst snd]. split; [dstep|evs].
  - cbn [fst snd]. split; [dstep|evs].
  - cbn [fst snd]. split; [dstep|evs].
  - cbn [fst snd]. split; [dstep|evs].
  - (* HashFill *)
    apply andb_true_iff in Hd. destruct Hd as [Hheld Hd]. rewrite hget_held_of in Hheld. rewrite Hheld. cbn [fst snd].
    split; [|evs].
    dstep.
  - cbn [fst snd]. split; [dstep|evs].
  - cbn [fst snd]. split; [dstep|evs].
  - cbn [fst snd]. split; [dstep|evs].
  - cbn [fst snd]. split; [dstep|evs].
  - cbn [fst snd]. split; [dstep|evs].
  - cbn [fst snd]. split; [dstep|evs].
  - cbn [fst snd]. split; [dstep|evs].
  - cbn [fst snd]. split; [dstep|evs].
  - cbn [fst snd]. split; [dstep|evs].
  - cbn [fst snd]. split; [dstep|evs].
  - cbn [fst snd]. split; [dstep|evs].
  - cbn [fst snd]. split; [dstep|evs].
  - apply andb_true_iff in Hd. destruct Hd as [Hheld Hd]. rewrite hget_held_of in Hheld. rewrite Hheld. cbn [fst snd].
    split; [|evs]. dstep.
  - apply andb_true_iff in Hd. destruct Hd as [Hheld Hd]. rewrite hget_held_of in Hheld. rewrite Hheld. cbn [fst snd].
    split; [|evs]. dstep.
  - cbn [fst snd]. split; [dstep|evs].
  - apply andb_true_iff in Hd. destruct Hd as [Hheld Hd]. rewrite hget_held_of in Hheld. rewrite Hheld. cbn [fst snd].
    split; [|evs]. dstep.
  - destruct g; cbn [fst snd]; (split; [dstep|evs]).
  - cbn [fst snd]. split; [dstep|evs].
Qed.

Lemma disc_inv_init d0 progs :
  (forall p, In p progs -> disc (false, false) p = true) -> disc_inv (init d0 progs).
Proof.
  intros H t ts Ht. cbn [init s_thr] in Ht. unfold held_of, holds. cbn.
  destruct (nth_error progs t) as [p|] eqn:Hp.
  - rewrite (map_nth_error _ _ _ Hp) in Ht. inversion Ht; subst. cbn. apply H. eapply nth_error_In; exact Hp.
  - apply nth_error_None in Hp. assert (Hn : nth_error (map (fun p => mkT p RNone 0) progs) t = None).
    { apply nth_error_None. rewrite map_length. exact Hp. }
    rewrite Hn in Ht. discriminate.
Qed.

Theorem lock_discipline d0 progs sched :
  (forall p, In p progs -> disc (false, false) p = true) ->
  forall t e, In (t, e) (snd (run sched (init d0 progs))) -> good_event e.
Proof.
  intros H.
  destruct (run_invariant disc_inv (fun _ e => good_event e) exec_disc sched (init d0 progs) (disc_inv_init d0 progs H))
    as [_ HG]. exact HG.
Qed.

Lemma disc_api o q : disc (false, false) q = true -> disc (false, false) (p_api o ++ q) = true.
Proof. intro H. destruct o; cbn; rewrite H; reflexivity. Qed.

Lemma compile_disc ops : disc (false, false) (compile ops) = true.
Proof.
  induction ops as [|o ops IH]; [reflexivity|]. unfold compile in *. cbn [map concat]. apply disc_api. exact IH.
Qed.

Lemma disc_dop o q : disc (false, false) q = true -> disc (false, false) (p_dop o ++ q) = true.
Proof. intro H. destruct o; cbn; rewrite H; reflexivity. Qed.

Lemma dprog_disc ops : disc (false, false) (dprog ops) = true.
Proof.
  induction ops as [|o ops IH]; [reflexivity|]. unfold dprog in *. cbn [map concat]. apply disc_dop. exact IH.
Qed.

(* ---------------------------------------------------------------------------------------------------------------
   error records: isolation
   --------------------------------------------------------------------------------------------------------------- *)
Definition err_inv (st : state) : Prop :=
  (forall i r, nth_error (s_erecs st) i = Some r -> forall it, In it (snd r) -> fst it = fst r) /\
  (forall t ts p, nth_error (s_thr st) t = Some ts -> t_reg ts = RPtr (Some p) ->
     exists r, nth_error (s_erecs st) (p_idx p) = Some r /\ fst r = t).

(* what every step guarantees: error lists only hold the reader's own items, and no handle dangles *)
Definition err_good (t : tid) (e : event) : Prop :=
  (forall items, e = EvErrGot (Some items) -> forall it, In it items -> fst it = t) /\ is_dangling e = false.

Lemma find_rec_spec recs t : forall k i,
  find_rec recs t k = Some i -> (k <= i)%nat /\ exists r, nth_error recs (i - k) = Some r /\ fst r = t.
Proof.
  induction recs as [|r recs IH]; intros k i H; cbn in H; [discriminate|].
  destruct (Nat.eqb (fst r) t) eqn:E.
  - inversion H; subst. split; [lia|]. rewrite Nat.sub_diag. exists r. split; [reflexivity|]. apply Nat.eqb_eq; exact E.
  - destruct (IH _ _ H) as [Hle [r' [Hn Hf]]]. split; [lia|]. exists r'. split; [|exact Hf].
    replace (i - k)%nat with (S (i - S k)) by lia. exact Hn.
Qed.

Lemma err_inv_step st st1 t ts ts' :
  err_inv st -> nth_error (s_thr st) t = Some ts -> s_thr st1 = s_thr st -> s_erecs st1 = s_erecs st ->
  (t_reg ts' = t_reg ts \/ forall p, t_reg ts' <> RPtr (Some p)) ->
  err_inv (set_thr st1 (lset (s_thr st1) t ts')).
Proof.
  intros [Ha Hb] Ht Hthr Hrec Hreg. split; cbn [s_erecs s_egen s_thr set_thr].
  - rewrite Hrec. exact Ha.
  - intros u tsu p Hu Hp. rewrite Hthr in Hu. rewrite Hrec. destruct (Nat.eq_dec t u) as [->|Hne].
    + rewrite (lset_same _ _ _ _ Ht) in Hu. inversion Hu; subst tsu. destruct Hreg as [Hreg|Hreg].
      * apply (Hb u ts p Ht). rewrite <- Hreg. exact Hp.
      * exfalso. apply (Hreg p). exact Hp.
    + rewrite lset_other in Hu by exact Hne. apply (Hb u tsu p Hu Hp).
Qed.

Lemma s_erecs_set_holder st m h : s_erecs (set_holder st m h) = s_erecs st.
Proof. destruct m; reflexivity. Qed.

Ltac estep :=
  match goal with
  | Hinv : err_inv ?st, Ht : nth_error (s_thr ?st) _ = Some ?ts |- _ =>
      apply err_inv_step with (st := st) (ts := ts);
      [exact Hinv | exact Ht | try reflexivity; try apply s_thr_set_holder | try reflexivity; try apply s_erecs_set_holder
       | first [left; reflexivity | left; cbn [t_reg]; symmetry; assumption | right; intros ? ?; discriminate]]
  end.

Ltac eevs :=
  let ev := fresh "ev" in let Hev := fresh "Hev" in let items := fresh "items" in let Hi := fresh "Hi" in
  intros ev Hev; cbn [In snd] in Hev;
  repeat (destruct Hev as [<-|Hev]; [split; [intros items Hi; try discriminate|try reflexivity]|]); try contradiction.

Lemma lset_nth {A} (l : list A) i j a x :
  nth_error (lset l i a) j = Some x -> (i = j /\ x = a) \/ nth_error l j = Some x.
Proof.
  destruct (Nat.eq_dec i j) as [->|Hne].
  - intro H. destruct (nth_error l j) as [y|] eqn:E.
    + rewrite (lset_same _ _ _ _ E) in H. inversion H. left; auto.
    + rewrite (lset_none _ _ _ E) in H. rewrite E in H. discriminate.
  - rewrite lset_other by exact Hne. auto.
Qed.

Lemma err_inv_step2 st t ts ts' :
  err_inv st -> nth_error (s_thr st) t = Some ts ->
  (forall p, t_reg ts' = RPtr (Some p) -> exists r, nth_error (s_erecs st) (p_idx p) = Some r /\ fst r = t) ->
  err_inv (set_thr st (lset (s_thr st) t ts')).
Proof.
  intros [Ha Hb] Ht Hreg. split; cbn [s_erecs s_egen s_thr set_thr]; [exact Ha|].
  intros u tsu p Hu Hp. destruct (Nat.eq_dec t u) as [->|Hne].
  - rewrite (lset_same _ _ _ _ Ht) in Hu. inversion Hu; subst tsu. apply Hreg; exact Hp.
  - rewrite lset_other in Hu by exact Hne. apply (Hb u tsu p Hu Hp).
Qed.

Lemma err_inv_recmod st t ts ts' i r items' :
  err_inv st -> nth_error (s_thr st) t = Some ts -> t_reg ts' = t_reg ts ->
  nth_error (s_erecs st) i = Some r -> (forall it, In it items' -> fst it = fst r) ->
  err_inv (set_thr (set_err st (s_egen st) (s_esize st) (s_emode st) (lset (s_erecs st) i (fst r, items')))
                   (lset (s_thr st) t ts')).
Proof.
  intros [Ha Hb] Ht Hreg Hi Hit. split; cbn [s_erecs s_egen s_thr set_thr set_err].
  - intros j r' Hj it Hin. apply lset_nth in Hj. destruct Hj as [[-> ->]|Hj].
    + cbn [fst snd] in *. apply Hit; exact Hin.
    + apply (Ha j r' Hj it Hin).
  - intros u tsu p Hu Hp.
    assert (Hold : exists tso, nth_error (s_thr st) u = Some tso /\ t_reg tso = RPtr (Some p)).
    { destruct (Nat.eq_dec t u) as [->|Hne].
      - rewrite (lset_same _ _ _ _ Ht) in Hu. inversion Hu; subst tsu. exists ts. split; [exact Ht|]. rewrite <- Hreg; exact Hp.
      - rewrite lset_other in Hu by exact Hne. exists tsu. auto. }
    destruct Hold as [tso [Hu' Hp']]. destruct (Hb u tso p Hu' Hp') as [r0 [Hr0 Hf0]].
    destruct (Nat.eq_dec i (p_idx p)) as [Heq|Hne].
    + subst i. rewrite Hi in Hr0. inversion Hr0; subst r0. exists (fst r, items'). split; [|exact Hf0].
      apply (lset_same _ _ _ _ Hi).
    + exists r0. split; [|exact Hf0]. rewrite lset_other by exact Hne. exact Hr0.
Qed.

Lemma exec_err st t :
  err_inv st -> err_inv (fst (exec st t)) /\ forall e, In e (snd (exec st t)) -> err_good t e.
Proof.
  intro Hinv. unfold exec. destruct (nth_error (s_thr st) t) as [ts|] eqn:Ht; [|split; [exact Hinv|intros e []]].
  destruct (t_rem ts) as [|stp rest] eqn:Hrem; [split; [exact Hinv|intros e []]|].
  destruct stp; cbn [exec_step].
  - destruct (holder st m); cbn [fst snd]; (split; [try exact Hinv; try estep|eevs]).
  - destruct (holds st t m); cbn [fst snd]; (split; [estep|eevs]).
  - cbn [fst snd]. split; [estep|eevs].
  - destruct (negb (s_dict st s =? 0)); cbn [fst snd]; (split; [estep|eevs]).
  - destruct (flag (t_reg ts)); cbn [fst snd]; (split; [estep|eevs]).
  - cbn [fst snd]. split; [estep|eevs].
  - destruct (flag (t_reg ts)); cbn [fst snd]; (split; [estep|eevs]).
  - (* ErrFind *)
    cbn [fst snd]. split; [|eevs]. apply err_inv_step2 with (ts := ts); [exact Hinv|exact Ht|].
    cbn [t_reg]. intros p Hp. destruct (find_rec (s_erecs st) t 0) as [i|] eqn:Hf; [|discriminate].
    inversion Hp; subst p. cbn [p_idx].
    destruct (find_rec_spec _ _ _ _ Hf) as [_ [r [Hn Hr]]]. rewrite Nat.sub_0_r in Hn. exists r; auto.
  - (* ErrInsert *)
    destruct (find_rec (s_erecs st) t 0) as [i|] eqn:Hf.
    + cbn [fst snd]. split; [estep|eevs].
    + destruct (err_resize (s_egen st) (s_esize st) (s_emode st) (N.of_nat (length (s_erecs st ++ [(t, [])])))) as [[g sz] md].
      cbn [fst snd] in *. split; [|eevs]. destruct Hinv as [Ha Hb].
      split; cbn [s_erecs s_egen s_thr set_thr set_err].
      * intros j r Hj it Hin. destruct (Nat.lt_ge_cases j (length (s_erecs st))) as [Hlt|Hge].
        -- rewrite nth_error_app1 in Hj by exact Hlt. apply (Ha j r Hj it Hin).
        -- rewrite nth_error_app2 in Hj by exact Hge. destruct (j - length (s_erecs st))%nat as [|k]; cbn in Hj.
           ++ inversion Hj; subst r. destruct Hin.
           ++ destruct k; discriminate.
      * intros u tsu p Hu Hp. destruct (Nat.eq_dec t u) as [->|Hne].
        -- rewrite (lset_same _ _ _ _ Ht) in Hu. inversion Hu; subst tsu. cbn [t_reg] in Hp. inversion Hp; subst p.
           cbn [p_idx]. exists (u, []). split; [|reflexivity].
           rewrite nth_error_app2 by lia. rewrite Nat.sub_diag. reflexivity.
        -- rewrite lset_other in Hu by exact Hne. destruct (Hb u tsu p Hu Hp) as [r [Hr Hfr]].
           exists r. split; [|exact Hfr]. rewrite nth_error_app1; [exact Hr|]. apply nth_error_Some. congruence.
  - (* ErrWrite *)
    destruct (t_reg ts) as [|b|[p|]|b] eqn:Hreg; try (cbn [fst snd]; split; [estep|eevs]).
    destruct Hinv as [Ha Hb]. destruct (Hb t ts p Ht Hreg) as [r [Hr Hfr]]. rewrite Hr.
    cbn [fst snd]. split; [|eevs].
    refine (err_inv_recmod st t ts _ (p_idx p) r _ (conj Ha Hb) Ht _ Hr _); [cbn; symmetry; exact Hreg|].
    intros it Hin. apply in_app_or in Hin. destruct Hin as [Hin|[<-|[]]].
    + apply (Ha _ _ Hr it Hin).
    + cbn. symmetry; exact Hfr.
  - (* ErrRead *)
    destruct (t_reg ts) as [|b|[p|]|b] eqn:Hreg; try (cbn [fst snd]; split; [estep|eevs]).
    pose proof Hinv as [Ha Hb]. destruct (Hb t ts p Ht Hreg) as [r [Hr Hfr]]. rewrite Hr.
    cbn [fst snd]. split; [estep|eevs]. inversion Hi; subst items. intros it Hin.
    rewrite (Ha _ _ Hr it Hin). exact Hfr.
  - (* ErrClear *)
    destruct (t_reg ts) as [|b|[p|]|b] eqn:Hreg; try (cbn [fst snd]; split; [estep|eevs]).
    destruct Hinv as [Ha Hb]. destruct (Hb t ts p Ht Hreg) as [r [Hr Hfr]]. rewrite Hr.
    cbn [fst snd]. split; [|eevs].
    refine (err_inv_recmod st t ts _ (p_idx p) r _ (conj Ha Hb) Ht _ Hr _); [cbn; symmetry; exact Hreg|]. intros it [].
  - cbn [fst snd]. split; [estep|eevs].
  - cbn [fst snd]. split; [estep|eevs].
  - cbn [fst snd]. split; [estep|eevs].
  - cbn [fst snd]. split; [estep|eevs].
  - cbn [fst snd]. split; [estep|eevs].
  - cbn [fst snd]. split; [estep|eevs].
  - cbn [fst snd]. split; [estep|eevs].
  - cbn [fst snd]. split; [estep|eevs].
  - cbn [fst snd]. split; [estep|eevs].
  - cbn [fst snd]. split; [estep|eevs].
  - cbn [fst snd]. split; [estep|eevs].
  - cbn [fst snd]. split; [estep|eevs].
  - cbn [fst snd]. split; [estep|eevs].
  - cbn [fst snd]. split; [estep|eevs].
  - cbn [fst snd]. split; [estep|eevs].
  - cbn [fst snd]. split; [estep|eevs].
  - cbn [fst snd]. split; [estep|eevs].
  - cbn [fst snd]. split; [estep|eevs].
  - cbn [fst snd]. split; [estep|eevs].
  - cbn [fst snd]. split; [estep|eevs].
  - cbn [fst snd]. split; [estep|eevs].
  - destruct g; cbn [fst snd]; (split; [estep|eevs]).
  - cbn [fst snd]. split; [estep|eevs].
Qed.

Lemma init_thread d0 progs t ts :
  nth_error (s_thr (init d0 progs)) t = Some ts ->
  exists p, nth_error progs t = Some p /\ ts = mkT p RNone 0.
Proof.
  cbn [init s_thr]. rewrite nth_error_map. destruct (nth_error progs t) as [p|]; cbn; [|discriminate].
  intro H. inversion H. exists p. auto.
Qed.

Lemma err_inv_init d0 progs : err_inv (init d0 progs).
Proof.
  split.
  - intros i r H. cbn in H. destruct i; discriminate.
  - intros t ts p Ht Hp. destruct (init_thread _ _ _ _ Ht) as [q [_ ->]]. discriminate.
Qed.

Theorem err_records_isolated d0 progs sched :
  forall t items, In (t, EvErrGot (Some items)) (snd (run sched (init d0 progs))) ->
  forall it, In it items -> fst it = t.
Proof.
  destruct (run_invariant err_inv err_good exec_err sched (init d0 progs) (err_inv_init d0 progs)) as [_ HG].
  intros t items Hin. destruct (HG t _ Hin) as [H _]. apply (H items eq_refl).
Qed.

(* the handle returned by ly_err_get_rec / ly_err_new_rec names a record for as long as the context lives: arbitrary
   programs, any number of threads, every schedule *)
Theorem err_rec_pointer_stable d0 progs sched :
  forall t e, In (t, e) (snd (run sched (init d0 progs))) -> is_dangling e = false.
Proof.
  destruct (run_invariant err_inv err_good exec_err sched (init d0 progs) (err_inv_init d0 progs)) as [_ HG].
  intros t e Hin. destruct (HG t _ Hin) as [_ H]. exact H.
Qed.

(* ---------------------------------------------------------------------------------------------------------------
   private operations
   --------------------------------------------------------------------------------------------------------------- *)
Definition priv_inv (R : tid -> N) (st : state) : Prop :=
  forall t ts, nth_error (s_thr st) t = Some ts ->
    privs_unskipped (t_rem ts) = true /\ priv_result (t_rem ts) (t_local ts) = R t.

Lemma privs_unskipped_tl s p : privs_unskipped (s :: p) = true -> privs_unskipped p = true.
Proof. destruct s; cbn; auto. intro H. apply andb_true_iff in H. tauto. Qed.

Lemma privs_unskipped_skipn n : forall p, privs_unskipped p = true -> privs_unskipped (skipn n p) = true.
Proof.
  induction n as [|n IH]; intros p H; [exact H|]. destruct p as [|s p]; [exact H|]. cbn [skipn].
  apply IH. apply (privs_unskipped_tl _ _ H).
Qed.

Lemma priv_result_skipn n : forall p x,
  existsb is_priv (firstn n p) = false -> priv_result (skipn n p) x = priv_result p x.
Proof.
  induction n as [|n IH]; intros p x H; [reflexivity|]. destruct p as [|s p]; [reflexivity|].
  cbn [firstn existsb skipn] in *. apply orb_false_iff in H. destruct H as [H1 H2].
  rewrite (IH p x H2). destruct s; cbn in H1 |- *; try reflexivity. discriminate.
Qed.

Lemma priv_inv_step R st st1 t ts ts' :
  priv_inv R st -> nth_error (s_thr st) t = Some ts -> s_thr st1 = s_thr st ->
  privs_unskipped (t_rem ts') = true ->
  priv_result (t_rem ts') (t_local ts') = priv_result (t_rem ts) (t_local ts) ->
  priv_inv R (set_thr st1 (lset (s_thr st1) t ts')).
Proof.
  intros Hinv Ht Hthr Hu Hr u tsu Hnu. cbn [s_thr set_thr] in Hnu. rewrite Hthr in Hnu.
  destruct (Nat.eq_dec t u) as [->|Hne].
  - rewrite (lset_same _ _ _ _ Ht) in Hnu. inversion Hnu; subst tsu. split; [exact Hu|]. rewrite Hr. apply (Hinv u ts Ht).
  - rewrite lset_other in Hnu by exact Hne. apply (Hinv u tsu Hnu).
Qed.

Lemma exec_priv R st t : priv_inv R st -> priv_inv R (fst (exec st t)).
Proof.
  intro Hinv. unfold exec. destruct (nth_error (s_thr st) t) as [ts|] eqn:Ht; [|exact Hinv].
  destruct (t_rem ts) as [|stp rest] eqn:Hrem; [exact Hinv|].
  destruct (Hinv t ts Ht) as [Hu _]. rewrite Hrem in Hu.
  assert (Hu' := privs_unskipped_tl _ _ Hu).
  assert (Hgen : forall st1 r, s_thr st1 = s_thr st -> is_priv stp = false -> (forall b n, stp <> SkipIf b n) ->
            priv_inv R (set_thr st1 (lset (s_thr st1) t (mkT rest r (t_local ts))))).
  { intros st1 r Hthr Hnp Hns. apply priv_inv_step with (st := st) (ts := ts); auto.
    cbn [t_rem t_local]. rewrite Hrem. destruct stp; cbn in Hnp |- *; try reflexivity; discriminate. }
  destruct stp; cbn [exec_step];
    try (match goal with |- context [if ?x then set_x _ _ _ _ _ else _] => destruct x end);
    lazymatch goal with
    | |- context [skipn] => idtac
    | |- context [priv_fun] => idtac
    | _ =>
      try (destruct (holder st m)); try (destruct (holds st t m));
      try (destruct (negb (s_dict st s =? 0))); try (destruct (flag (t_reg ts)));
      try (destruct (find_rec (s_erecs st) t 0));
      try (destruct (err_resize (s_egen st) (s_esize st) (s_emode st) (N.of_nat (length (s_erecs st ++ [(t, [])])))) as [[g sz] md]);
      try (destruct (t_reg ts) as [|b0|[p|]|b0]);
      try (destruct (nth_error (s_erecs st) (p_idx p)));
      cbn [fst snd]; try exact Hinv;
      try (apply Hgen; [try reflexivity; try apply s_thr_set_holder|reflexivity|intros ? ? ?; discriminate])
    end.
  - (* SkipIf *)
    cbn [fst snd]. apply priv_inv_step with (st := st) (ts := ts); auto; cbn [t_rem t_local].
    + match goal with |- context [if ?c then skipn _ _ else _] => destruct c end; [apply privs_unskipped_skipn|]; exact Hu'.
    + rewrite Hrem. cbn [priv_result]. cbn [privs_unskipped] in Hu. apply andb_true_iff in Hu. destruct Hu as [Hu1 _].
      match goal with |- context [if ?c then skipn _ _ else _] => destruct c end; [|reflexivity]. apply priv_result_skipn.
      destruct (existsb is_priv (firstn n rest)); [discriminate|reflexivity].
  - (* Priv *)
    cbn [fst snd]. apply priv_inv_step with (st := st) (ts := ts); auto. cbn [t_rem t_local]. rewrite Hrem. reflexivity.
Qed.

Lemma thread_rem_local st t ts : nth_error (s_thr st) t = Some ts -> thread_rem st t = t_rem ts /\ thread_local st t = t_local ts.
Proof. intro H. unfold thread_rem, thread_local. rewrite H. auto. Qed.

Theorem private_ops_schedule_independent d0 progs sched t p :
  (forall q, In q progs -> privs_unskipped q = true) -> nth_error progs t = Some p ->
  priv_result (thread_rem (fst (run sched (init d0 progs))) t) (thread_local (fst (run sched (init d0 progs))) t)
  = priv_result p 0.
Proof.
  intros Hall Hp.
  pose (R := fun u => match nth_error progs u with Some q => priv_result q 0 | None => 0 end).
  assert (H0 : priv_inv R (init d0 progs)).
  { intros u tsu Hu. destruct (init_thread _ _ _ _ Hu) as [q [Hq ->]]. cbn [t_rem t_local]. split.
    - apply Hall. eapply nth_error_In; exact Hq.
    - unfold R. rewrite Hq. reflexivity. }
  destruct (run_invariant (priv_inv R) (fun _ _ => True) (fun st u HI => conj (exec_priv R st u HI) (fun _ _ => I))
              sched (init d0 progs) H0) as [HI _].
  assert (Hlen : exists ts, nth_error (s_thr (fst (run sched (init d0 progs)))) t = Some ts).
  { assert (Hl : forall sch st, length (s_thr (fst (run sch st))) = length (s_thr st)).
    { induction sch as [|u sch IH]; intro st; [reflexivity|]. cbn [run fst]. rewrite IH.
      unfold exec. destruct (nth_error (s_thr st) u) as [tsu|]; [|reflexivity].
      destruct (t_rem tsu) as [|stp rest]; [reflexivity|].
      destruct stp; cbn [exec_step];
    try (match goal with |- context [if ?x then set_x _ _ _ _ _ else _] => destruct x end);
        try (destruct (holder st m)); try (destruct (holds st u m));
        try (destruct (negb (s_dict st s =? 0))); try (destruct (flag (t_reg tsu)));
        try (destruct (find_rec (s_erecs st) u 0));
        try (destruct (err_resize (s_egen st) (s_esize st) (s_emode st) (N.of_nat (length (s_erecs st ++ [(u, [])])))) as [[g sz] md]);
        try (destruct (t_reg tsu) as [|b0|[p0|]|b0]);
        try (destruct (nth_error (s_erecs st) (p_idx p0)));
        cbn [fst snd s_thr set_thr]; try reflexivity; try apply lset_length;
        try (rewrite lset_length; destruct m; reflexivity). }
    destruct (nth_error (s_thr (fst (run sched (init d0 progs)))) t) as [ts|] eqn:E; [exists ts; reflexivity|].
    apply nth_error_None in E. rewrite Hl in E. cbn [init s_thr] in E. rewrite map_length in E.
    assert (Hlt : (t < length progs)%nat) by (apply nth_error_Some; congruence). lia. }
  destruct Hlen as [ts Hts]. destruct (thread_rem_local _ _ _ Hts) as [-> ->].
  destruct (HI t ts Hts) as [_ Hr]. rewrite Hr. unfold R. rewrite Hp. reflexivity.
Qed.

Lemma privs_api o q : privs_unskipped q = true -> privs_unskipped (p_api o ++ q) = true.
Proof. intro H. destruct o; cbn; rewrite ?H; reflexivity. Qed.

Lemma compile_privs_unskipped ops : privs_unskipped (compile ops) = true.
Proof.
  induction ops as [|o ops IH]; [reflexivity|]. unfold compile in *. cbn [map concat]. apply privs_api. exact IH.
Qed.

(* ---------------------------------------------------------------------------------------------------------------
   dictionary: lock-bracketed calls are atomic
   --------------------------------------------------------------------------------------------------------------- *)
Inductive dphase : list step -> Prop :=
| Ph0 ops : dphase (dprog ops)
| PhI1 s ops : dphase (DictInsFind s :: DictInsBump s :: Release LDict :: dprog ops)
| PhI2 s ops : dphase (DictInsBump s :: Release LDict :: dprog ops)
| PhR1 s ops : dphase (DictRemFind s :: DictRemDec s :: Release LDict :: dprog ops)
| PhR2 s ops : dphase (DictRemDec s :: Release LDict :: dprog ops)
| Ph3 ops : dphase (Release LDict :: dprog ops).

Definition in_cs (p : list step) : bool :=
  match p with [] => false | Acquire _ :: _ => false | _ => true end.

Definition P1 (st : state) : Prop :=
  forall t ts, nth_error (s_thr st) t = Some ts ->
    dphase (t_rem ts) /\ (in_cs (t_rem ts) = true <-> s_ldict st = Some t).

Definition dict_rel (st : state) (a : dictT) : Prop :=
  match s_ldict st with
  | None => s_dict st = a
  | Some t =>
      match nth_error (s_thr st) t with
      | Some ts =>
          match t_rem ts with
          | DictInsBump s :: _ =>
              s_dict st = (if a s =? 0 then dupd a s 1 else a) /\ t_reg ts = RFound (negb (a s =? 0))
          | DictRemDec s :: _ => s_dict st = a /\ t_reg ts = RFound (negb (a s =? 0))
          | _ => s_dict st = a
          end
      | None => s_dict st = a
      end
  end.

Definition dinv (st : state) (a : dictT) : Prop := P1 st /\ dict_rel st a.

Lemma dprog_cons_ins s ops :
  dprog (DIns s :: ops) = Acquire LDict :: DictInsFind s :: DictInsBump s :: Release LDict :: dprog ops.
Proof. reflexivity. Qed.
Lemma dprog_cons_rem s ops :
  dprog (DRem s :: ops) = Acquire LDict :: DictRemFind s :: DictRemDec s :: Release LDict :: dprog ops.
Proof. reflexivity. Qed.

Lemma in_cs_dprog ops : in_cs (dprog ops) = false.
Proof. destruct ops as [|[s|s] ops]; reflexivity. Qed.

Lemma beq_bytes_refl s : beq_bytes s s = true.
Proof. apply beq_bytes_eq. reflexivity. Qed.

Lemma P1_step st st1 t ts ts' :
  P1 st -> nth_error (s_thr st) t = Some ts -> s_thr st1 = s_thr st ->
  dphase (t_rem ts') -> (in_cs (t_rem ts') = true <-> s_ldict st1 = Some t) ->
  (s_ldict st1 = s_ldict st \/ (s_ldict st = None /\ s_ldict st1 = Some t) \/ (s_ldict st = Some t /\ s_ldict st1 = None)) ->
  P1 (set_thr st1 (lset (s_thr st1) t ts')).
Proof.
  intros HP Ht Hthr Hph Hcs Hl u tsu Hu. cbn [s_thr set_thr s_ldict] in *. rewrite Hthr in Hu.
  destruct (Nat.eq_dec t u) as [->|Hne].
  - rewrite (lset_same _ _ _ _ Ht) in Hu. inversion Hu; subst tsu. split; [exact Hph|]. exact Hcs.
  - rewrite lset_other in Hu by exact Hne. destruct (HP u tsu Hu) as [Hp Hc]. split; [exact Hp|].
    assert (Hs : s_ldict (set_thr st1 (lset (s_thr st1) t ts')) = s_ldict st1) by reflexivity.
    cbn [s_ldict set_thr]. destruct Hl as [Hl|[[Hl1 Hl2]|[Hl1 Hl2]]].
    + rewrite Hl. exact Hc.
    + rewrite Hl2. rewrite Hl1 in Hc. split; intro H.
      * apply Hc in H. discriminate.
      * inversion H. congruence.
    + rewrite Hl2. rewrite Hl1 in Hc. split; intro H.
      * apply Hc in H. inversion H. congruence.
      * discriminate.
Qed.

Definition evs_of (t : tid) (l : list event) : list (tid * dop * dret) := dict_events (map (fun e => (t, e)) l).

Ltac relnew Ht :=
  unfold dict_rel; cbn [s_ldict s_thr s_dict set_thr set_holder set_dict];
  rewrite ?(lset_same _ _ _ _ Ht); cbn [t_rem t_reg].

Lemma exec_dinv st a t :
  dinv st a ->
  dinv (fst (exec st t)) (fst (replay a (evs_of t (snd (exec st t))))) /\
  snd (replay a (evs_of t (snd (exec st t)))) = true.
Proof.
  intros [HP Hrel]. unfold exec.
  destruct (nth_error (s_thr st) t) as [ts|] eqn:Ht; [|cbn; split; [split; assumption|reflexivity]].
  destruct (HP t ts Ht) as [Hph Hcs].
  remember (t_rem ts) as rm eqn:Hrm. destruct Hph as [ops|s ops|s ops|s ops|s ops|ops].
  - (* between two calls *)
    destruct ops as [|[s|s] ops].
    + cbn. split; [split; assumption|reflexivity].
    + rewrite dprog_cons_ins. cbn [exec_step holder].
      destruct (s_ldict st) as [x|] eqn:Hl.
      * cbn. split; [split; assumption|reflexivity].
      * cbn [fst snd evs_of map dict_events replay]. split; [|reflexivity]. split.
        -- apply P1_step with (st := st) (ts := ts); [exact HP|exact Ht|reflexivity|cbn [t_rem]; constructor| |right; left; split; [exact Hl|reflexivity]].
           cbn. split; reflexivity.
        -- relnew Ht. unfold dict_rel in Hrel. rewrite Hl in Hrel. exact Hrel.
    + rewrite dprog_cons_rem. cbn [exec_step holder].
      destruct (s_ldict st) as [x|] eqn:Hl.
      * cbn. split; [split; assumption|reflexivity].
      * cbn [fst snd evs_of map dict_events replay]. split; [|reflexivity]. split.
        -- apply P1_step with (st := st) (ts := ts); [exact HP|exact Ht|reflexivity|cbn [t_rem]; constructor| |right; left; split; [exact Hl|reflexivity]].
           cbn. split; reflexivity.
        -- relnew Ht. unfold dict_rel in Hrel. rewrite Hl in Hrel. exact Hrel.
  - (* DictInsFind *)
    assert (Hl : s_ldict st = Some t) by (apply Hcs; reflexivity).
    unfold dict_rel in Hrel. rewrite Hl, Ht, <- Hrm in Hrel.
    cbn [exec_step]. cbn [fst snd evs_of map dict_events replay]. split; [|reflexivity]. rewrite Hrel.
    destruct (a s =? 0) eqn:Ha; cbn [negb]; split.
    + apply P1_step with (st := st) (ts := ts); [exact HP|exact Ht|reflexivity|cbn [t_rem]; constructor| |left; reflexivity].
      cbn. rewrite Hl. split; reflexivity.
    + relnew Ht. rewrite Hl. cbn [s_thr set_dict]. rewrite (lset_same _ _ _ _ Ht). cbn [t_rem t_reg]. rewrite Ha. split; reflexivity.
    + apply P1_step with (st := st) (ts := ts); [exact HP|exact Ht|reflexivity|cbn [t_rem]; constructor| |left; reflexivity].
      cbn. rewrite Hl. split; reflexivity.
    + relnew Ht. rewrite Hl. rewrite (lset_same _ _ _ _ Ht). cbn [t_rem t_reg]. rewrite Ha. split; [exact Hrel|reflexivity].
  - (* DictInsBump *)
    assert (Hl : s_ldict st = Some t) by (apply Hcs; reflexivity).
    unfold dict_rel in Hrel. rewrite Hl, Ht, <- Hrm in Hrel. destruct Hrel as [Hd Hreg].
    cbn [exec_step]. rewrite Hreg. cbn [flag fst snd evs_of map dict_events replay atomic_dop dret_eqb].
    rewrite beq_bytes_refl. split; [|reflexivity]. rewrite Hd.
    destruct (a s =? 0) eqn:Ha; cbn [negb]; split.
    + apply P1_step with (st := st) (ts := ts); [exact HP|exact Ht|reflexivity|cbn [t_rem]; constructor| |left; reflexivity].
      cbn. rewrite Hl. split; reflexivity.
    + relnew Ht. rewrite Hl. rewrite (lset_same _ _ _ _ Ht). cbn [t_rem]. rewrite Hd.
      apply N.eqb_eq in Ha. rewrite Ha. reflexivity.
    + apply P1_step with (st := st) (ts := ts); [exact HP|exact Ht|reflexivity|cbn [t_rem]; constructor| |left; reflexivity].
      cbn. rewrite Hl. split; reflexivity.
    + relnew Ht. rewrite Hl. cbn [s_thr set_dict]. rewrite (lset_same _ _ _ _ Ht). cbn [t_rem]. reflexivity.
  - (* DictRemFind *)
    assert (Hl : s_ldict st = Some t) by (apply Hcs; reflexivity).
    unfold dict_rel in Hrel. rewrite Hl, Ht, <- Hrm in Hrel.
    cbn [exec_step]. cbn [fst snd evs_of map dict_events replay]. split; [|reflexivity]. split.
    + apply P1_step with (st := st) (ts := ts); [exact HP|exact Ht|reflexivity|cbn [t_rem]; constructor| |left; reflexivity].
      cbn. rewrite Hl. split; reflexivity.
    + relnew Ht. rewrite Hl. rewrite (lset_same _ _ _ _ Ht). cbn [t_rem t_reg]. rewrite Hrel. split; reflexivity.
  - (* DictRemDec *)
    assert (Hl : s_ldict st = Some t) by (apply Hcs; reflexivity).
    unfold dict_rel in Hrel. rewrite Hl, Ht, <- Hrm in Hrel. destruct Hrel as [Hd Hreg].
    cbn [exec_step]. rewrite Hreg. cbn [flag].
    destruct (a s =? 0) eqn:Ha; cbn [negb fst snd evs_of map dict_events replay atomic_dop]; rewrite Ha;
      cbn [fst snd dret_eqb]; rewrite ?N.eqb_refl; (split; [|reflexivity]); split.
    + apply P1_step with (st := st) (ts := ts); [exact HP|exact Ht|reflexivity|cbn [t_rem]; constructor| |left; reflexivity].
      cbn. rewrite Hl. split; reflexivity.
    + relnew Ht. rewrite Hl. rewrite (lset_same _ _ _ _ Ht). cbn [t_rem]. exact Hd.
    + apply P1_step with (st := st) (ts := ts); [exact HP|exact Ht|reflexivity|cbn [t_rem]; constructor| |left; reflexivity].
      cbn. rewrite Hl. split; reflexivity.
    + relnew Ht. rewrite Hl. cbn [s_thr set_dict]. rewrite (lset_same _ _ _ _ Ht). cbn [t_rem]. rewrite Hd. reflexivity.
  - (* Release *)
    assert (Hl : s_ldict st = Some t) by (apply Hcs; reflexivity).
    unfold dict_rel in Hrel. rewrite Hl, Ht, <- Hrm in Hrel.
    cbn [exec_step]. unfold holds. cbn [holder]. rewrite Hl. rewrite Nat.eqb_refl.
    cbn [fst snd evs_of map dict_events replay]. split; [|reflexivity]. split.
    + apply P1_step with (st := st) (ts := ts); [exact HP|exact Ht|reflexivity|cbn [t_rem]; constructor| |right; right; split; [exact Hl|reflexivity]].
      cbn [t_rem]. rewrite in_cs_dprog. cbn. split; discriminate.
    + relnew Ht. exact Hrel.
Qed.

Lemma dict_events_app x y : dict_events (x ++ y) = dict_events x ++ dict_events y.
Proof.
  induction x as [|[t e] x IH]; [reflexivity|]. cbn [app dict_events]. destruct e; cbn; rewrite ?IH; reflexivity.
Qed.

Lemma replay_app d l1 l2 :
  replay d (l1 ++ l2) =
  (fst (replay (fst (replay d l1)) l2), snd (replay d l1) && snd (replay (fst (replay d l1)) l2)).
Proof.
  revert d; induction l1 as [|[[t o] r] l1 IH]; intro d; cbn [app replay fst snd].
  - destruct (replay d l2); reflexivity.
  - rewrite IH. cbn [fst snd]. rewrite andb_assoc. reflexivity.
Qed.

Lemma run_dinv sched : forall st a,
  dinv st a ->
  dinv (fst (run sched st)) (fst (replay a (dict_events (snd (run sched st))))) /\
  snd (replay a (dict_events (snd (run sched st)))) = true.
Proof.
  induction sched as [|t s IH]; intros st a Hinv; cbn [run fst snd].
  - cbn. auto.
  - destruct (exec_dinv st a t Hinv) as [H1 H2]. rewrite dict_events_app, replay_app. cbn [fst snd].
    fold (evs_of t (snd (exec st t))). destruct (IH _ _ H1) as [H3 H4]. split; [exact H3|].
    rewrite H2, H4. reflexivity.
Qed.

(* the calls of thread u among the completed ones, in order *)
Definition proj (u : tid) (l : list (tid * dop * dret)) : list dop :=
  map (fun x => snd (fst x)) (filter (fun x => Nat.eqb (fst (fst x)) u) l).

Lemma proj_app u x y : proj u (x ++ y) = proj u x ++ proj u y.
Proof. unfold proj. rewrite filter_app, map_app. reflexivity. Qed.

Lemma proj_other u t l : u <> t -> proj u (evs_of t l) = [].
Proof.
  intro Hne. unfold evs_of. induction l as [|e l IH]; [reflexivity|]. cbn [map dict_events].
  destruct e; cbn; try exact IH. unfold proj in *. cbn.
  destruct (Nat.eqb t u) eqn:E; [apply Nat.eqb_eq in E; congruence|]. exact IH.
Qed.

Definition skip_free (p : list step) : Prop := forall b n, ~ In (SkipIf b n) p.

Lemma dphase_skip_free p : dphase p -> skip_free p.
Proof.
  assert (Hd : forall ops, skip_free (dprog ops)).
  { induction ops as [|[s|s] ops IH]; intros b n Hin; [destruct Hin| |].
    - rewrite dprog_cons_ins in Hin. cbn in Hin. repeat (destruct Hin as [Hin|Hin]; [discriminate|]). apply (IH b n Hin).
    - rewrite dprog_cons_rem in Hin. cbn in Hin. repeat (destruct Hin as [Hin|Hin]; [discriminate|]). apply (IH b n Hin). }
  intros H b n Hin. destruct H; cbn in Hin; repeat (destruct Hin as [Hin|Hin]; [discriminate|]); apply (Hd _ b n Hin).
Qed.

Lemma thread_rem_upd st1 t ts' x :
  nth_error (s_thr st1) t = Some x -> thread_rem (set_thr st1 (lset (s_thr st1) t ts')) t = t_rem ts'.
Proof. intro H. unfold thread_rem. cbn [s_thr set_thr]. rewrite (lset_same _ _ _ _ H). reflexivity. Qed.

Lemma thread_rem_upd_other st1 st t u ts' :
  s_thr st1 = s_thr st -> u <> t -> thread_rem (set_thr st1 (lset (s_thr st1) t ts')) u = thread_rem st u.
Proof. intros H Hne. unfold thread_rem. cbn [s_thr set_thr]. rewrite lset_other by auto. rewrite H. reflexivity. Qed.

Lemma exec_ops st t u :
  (forall ts, nth_error (s_thr st) t = Some ts -> skip_free (t_rem ts)) ->
  proj u (evs_of t (snd (exec st t))) ++ ops_of (thread_rem (fst (exec st t)) u) = ops_of (thread_rem st u).
Proof.
  intro Hsf. unfold exec. destruct (nth_error (s_thr st) t) as [ts|] eqn:Ht; [|reflexivity].
  destruct (t_rem ts) as [|stp rest] eqn:Hrem; [reflexivity|].
  assert (Hns : forall b n, stp <> SkipIf b n).
  { intros b n ->. apply (Hsf ts eq_refl b n). rewrite Hrem. left; reflexivity. }
  destruct (Nat.eq_dec u t) as [->|Hne].
  - assert (Hold : ops_of (thread_rem st t) = ops_of (stp :: rest)) by (unfold thread_rem; rewrite Ht, Hrem; reflexivity).
    rewrite Hold.
    destruct stp; cbn [exec_step];
    try (match goal with |- context [if ?x then set_x _ _ _ _ _ else _] => destruct x end);
      try (destruct (holder st m) eqn:Hh); try (destruct (holds st t m));
      try (destruct (negb (s_dict st s =? 0))); try (destruct (flag (t_reg ts)));
      try (destruct (find_rec (s_erecs st) t 0));
      try (match goal with |- context [err_resize ?x1 ?x2 ?x3 ?x4] => destruct (err_resize x1 x2 x3 x4) as [[g sz] md] end);
      try (destruct (t_reg ts) as [|b0|[p0|]|b0]);
      try (destruct (nth_error (s_erecs st) (p_idx p0)));
      cbn [fst snd];
      try (exfalso; eapply Hns; reflexivity);
      try (rewrite Hold; reflexivity);
      try (erewrite thread_rem_upd; [unfold evs_of, proj; cbn; rewrite ?Nat.eqb_refl; reflexivity|
                                     cbn [s_thr set_dict set_err set_canon set_hash]; try (destruct m; cbn [s_thr set_holder]); exact Ht]).
  - rewrite (proj_other u t _ Hne). cbn [app]. f_equal.
    destruct stp; cbn [exec_step];
    try (match goal with |- context [if ?x then set_x _ _ _ _ _ else _] => destruct x end);
      try (destruct (holder st m) eqn:Hh); try (destruct (holds st t m));
      try (destruct (negb (s_dict st s =? 0))); try (destruct (flag (t_reg ts)));
      try (destruct (find_rec (s_erecs st) t 0));
      try (match goal with |- context [err_resize ?x1 ?x2 ?x3 ?x4] => destruct (err_resize x1 x2 x3 x4) as [[g sz] md] end);
      try (destruct (t_reg ts) as [|b0|[p0|]|b0]);
      try (destruct (nth_error (s_erecs st) (p_idx p0)));
      cbn [fst snd]; try reflexivity;
      try (apply thread_rem_upd_other; [try reflexivity; try apply s_thr_set_holder|exact Hne]).
Qed.

Lemma ops_of_dprog ops : ops_of (dprog ops) = ops.
Proof.
  induction ops as [|[s|s] ops IH]; [reflexivity| |].
  - rewrite dprog_cons_ins. cbn [ops_of]. rewrite IH. reflexivity.
  - rewrite dprog_cons_rem. cbn [ops_of]. rewrite IH. reflexivity.
Qed.

Lemma dinv_init d0 opss : dinv (init d0 (map dprog opss)) d0.
Proof.
  split.
  - intros t ts Ht. destruct (init_thread _ _ _ _ Ht) as [p [Hp ->]]. cbn [t_rem].
    rewrite nth_error_map in Hp. destruct (nth_error opss t) as [ops|]; [|discriminate]. inversion Hp; subst p.
    split; [constructor|]. rewrite in_cs_dprog. cbn. split; discriminate.
  - reflexivity.
Qed.

Lemma run_ops sched : forall st a,
  dinv st a -> forall u,
  proj u (dict_events (snd (run sched st))) ++ ops_of (thread_rem (fst (run sched st)) u) = ops_of (thread_rem st u).
Proof.
  induction sched as [|t s IH]; intros st a Hinv u; cbn [run fst snd]; [reflexivity|].
  rewrite dict_events_app, proj_app. fold (evs_of t (snd (exec st t))).
  destruct (exec_dinv st a t Hinv) as [H1 _]. rewrite <- app_assoc. rewrite (IH _ _ H1 u).
  apply exec_ops. intros ts Ht. apply dphase_skip_free. destruct Hinv as [HP _]. apply (HP t ts Ht).
Qed.

Theorem dict_linearizable d0 opss sched :
  let r := run sched (init d0 (map dprog opss)) in
  let lin := dict_events (snd r) in
  (forall t, proj t lin ++ ops_of (thread_rem (fst r) t) = nth t opss []) /\
  snd (replay d0 lin) = true /\
  (s_ldict (fst r) = None -> s_dict (fst r) = fst (replay d0 lin)).
Proof.
  intros r lin. pose proof (dinv_init d0 opss) as H0.
  destruct (run_dinv sched _ _ H0) as [[HP Hrel] Hok]. fold r in HP, Hrel, Hok. fold lin in Hrel, Hok.
  split; [|split; [exact Hok|]].
  - intro t. unfold lin, r. rewrite (run_ops sched _ _ H0 t).
    unfold thread_rem. cbn [init s_thr]. rewrite nth_error_map.
    destruct (nth_error (map dprog opss) t) as [p|] eqn:E; cbn.
    + rewrite nth_error_map in E. destruct (nth_error opss t) as [ops|] eqn:E2; [|discriminate]. inversion E; subst p.
      rewrite ops_of_dprog. symmetry. apply nth_error_nth. exact E2.
    + rewrite nth_error_map in E. destruct (nth_error opss t) as [ops|] eqn:E2; [discriminate|].
      apply nth_error_None in E2. rewrite nth_overflow by exact E2. reflexivity.
  - intro Hl. unfold dict_rel in Hrel. rewrite Hl in Hrel. exact Hrel.
Qed.

(* ---------------------------------------------------------------------------------------------------------------
   dictionary: reference counts of serial executions (order independent)
   --------------------------------------------------------------------------------------------------------------- *)
Definition expect (l : list (tid * dop)) : list (tid * dop * dret) :=
  map (fun x => (fst x, snd x, match snd x with DIns s => RStr s | DRem _ => RCode 0 end)) l.

Lemma take_tok_refs k own own' x :
  take_tok k own = Some own' ->
  held_refs own x = held_refs own' x + (if beq_bytes x (snd k) then 1 else 0).
Proof.
  revert own'; induction own as [|y own IH]; intros own' H; cbn in H; [discriminate|].
  destruct (tok_eqb y k) eqn:E.
  - inversion H; subst own'. unfold tok_eqb in E. apply andb_true_iff in E. destruct E as [_ E].
    apply beq_bytes_eq in E. unfold held_refs. cbn [filter]. rewrite E.
    destruct (beq_bytes (snd k) x) eqn:E2.
    + apply beq_bytes_eq in E2. subst x. rewrite beq_bytes_refl. cbn [length]. lia.
    + destruct (beq_bytes x (snd k)) eqn:E3; [apply beq_bytes_eq in E3; subst x; rewrite beq_bytes_refl in E2; discriminate|]. lia.
  - destruct (take_tok k own) as [r|] eqn:E2; [|discriminate]. inversion H; subst own'.
    specialize (IH r eq_refl). unfold held_refs in *. cbn [filter]. destruct (beq_bytes (snd y) x); cbn [length]; lia.
Qed.

Theorem dict_refs_balance : forall l (b d : dictT) own own',
  owned l own = Some own' -> (forall x, d x = b x + held_refs own x) ->
  snd (replay d (expect l)) = true /\ forall x, fst (replay d (expect l)) x = b x + held_refs own' x.
Proof.
  induction l as [|[t o] l IH]; intros b d own own' Ho Hd.
  - cbn in Ho. inversion Ho; subst own'. cbn. auto.
  - destruct o as [s|s]; cbn [owned] in Ho; cbn [expect map replay fst snd atomic_dop].
    + assert (Hd' : forall x, dupd d s (d s + 1) x = b x + held_refs ((t, s) :: own) x).
      { intro x. unfold dupd, held_refs. cbn [filter snd].
        destruct (beq_bytes x s) eqn:E.
        - apply beq_bytes_eq in E. subst x. rewrite beq_bytes_refl. cbn [length]. rewrite Hd. unfold held_refs. lia.
        - destruct (beq_bytes s x) eqn:E2; [apply beq_bytes_eq in E2; subst x; rewrite beq_bytes_refl in E; discriminate|].
          rewrite Hd. reflexivity. }
      destruct (IH b _ _ _ Ho Hd') as [H1 H2]. fold (expect l). cbn [dret_eqb]. rewrite beq_bytes_refl. cbn [andb].
      split; [exact H1|exact H2].
    + destruct (take_tok (t, s) own) as [own1|] eqn:Et; [|discriminate].
      pose proof (take_tok_refs _ _ _ s Et) as Hs. cbn [snd] in Hs. rewrite beq_bytes_refl in Hs.
      assert (Hpos : d s =? 0 = false). { apply N.eqb_neq. rewrite Hd. lia. }
      rewrite Hpos. cbn [fst snd dret_eqb]. rewrite N.eqb_refl. cbn [andb].
      assert (Hd' : forall x, dupd d s (d s - 1) x = b x + held_refs own1 x).
      { intro x. unfold dupd. pose proof (take_tok_refs _ _ _ x Et) as Hx. cbn [snd] in Hx.
        destruct (beq_bytes x s) eqn:E.
        - apply beq_bytes_eq in E. subst x. rewrite Hd. lia.
        - rewrite Hd. lia. }
      fold (expect l). apply (IH b _ _ _ Ho Hd').
Qed.

Lemma replay_fst_expect l : forall d, fst (replay d l) = fst (replay d (expect (map fst l))).
Proof.
  induction l as [|[[t o] r] l IH]; intro d; [reflexivity|]. cbn [map expect replay fst snd]. fold (expect (map fst l)).
  apply IH.
Qed.

Lemma dret_eqb_eq x y : dret_eqb x y = true -> x = y.
Proof.
  destruct x, y; cbn; intro H; try discriminate.
  - apply beq_bytes_eq in H. congruence.
  - apply N.eqb_eq in H. congruence.
Qed.

Lemma replay_rets_unique : forall l1 l2 d,
  map fst l1 = map fst l2 -> snd (replay d l1) = true -> snd (replay d l2) = true -> l1 = l2.
Proof.
  induction l1 as [|[[t1 o1] r1] l1 IH]; intros [|[[t2 o2] r2] l2] d Hm H1 H2; try discriminate; [reflexivity|].
  cbn [map fst] in Hm. inversion Hm as [[Ht Ho H0]]; subst. cbn [replay fst snd] in H1, H2.
  apply andb_true_iff in H1. destruct H1 as [Ha1 Hb1]. apply andb_true_iff in H2. destruct H2 as [Ha2 Hb2].
  apply dret_eqb_eq in Ha1. apply dret_eqb_eq in Ha2. subst r1 r2. f_equal. apply (IH l2 _ H0 Hb1 Hb2).
Qed.

Lemma expect_map_fst l : map fst (expect l) = l.
Proof. induction l as [|[t o] l IH]; [reflexivity|]. cbn. f_equal. exact IH. Qed.

(* every schedule of lock-bracketed calls in which each thread only gives back references it holds: every call
   succeeds and the final reference counts are the initial ones plus the references still held *)
Theorem dict_final_refcounts d0 opss sched own :
  let r := run sched (init d0 (map dprog opss)) in
  let lin := dict_events (snd r) in
  s_ldict (fst r) = None -> owned (map fst lin) [] = Some own ->
  lin = expect (map fst lin) /\ forall x, s_dict (fst r) x = d0 x + held_refs own x.
Proof.
  intros r lin Hl Ho. destruct (dict_linearizable d0 opss sched) as [_ [Hok Hfin]]. fold r in Hok, Hfin. fold lin in Hok, Hfin.
  destruct (dict_refs_balance (map fst lin) d0 d0 [] own Ho) as [H1 H2].
  { intro x. unfold held_refs. cbn. lia. }
  split.
  - apply (replay_rets_unique _ _ d0); [rewrite expect_map_fst; reflexivity|exact Hok|exact H1].
  - intro x. rewrite (Hfin Hl). rewrite replay_fst_expect. apply H2.
Qed.

(* ---------------------------------------------------------------------------------------------------------------
   logging options: thread-local overrides are invisible to other threads
   --------------------------------------------------------------------------------------------------------------- *)
Definition log_inv (g0 : N) (Z : tid -> bool) (st : state) : Prop :=
  s_logopts st = g0 /\
  forall t ts, nth_error (s_thr st) t = Some ts ->
    global_log_free (t_rem ts) = true /\
    (Z t = true -> s_temp st t = None /\ temp_log_free (t_rem ts) = true).

Definition log_good (g0 : N) (Z : tid -> bool) (t : tid) (e : event) : Prop :=
  forall v, e = EvLogOpts v -> Z t = true -> v = g0.

Lemma existsb_skipn {A} (f : A -> bool) n : forall p, existsb f (skipn n p) = true -> existsb f p = true.
Proof.
  induction n as [|n IH]; intros p H; [exact H|]. destruct p as [|x p]; [exact H|]. cbn [skipn] in H. cbn.
  rewrite (IH p H). apply orb_true_r.
Qed.

Lemma free_tl (f : step -> bool) s p : negb (existsb f (s :: p)) = true -> f s = false /\ negb (existsb f p) = true.
Proof. cbn. destruct (f s); cbn; [discriminate|auto]. Qed.

Lemma free_skipn (f : step -> bool) n p : negb (existsb f p) = true -> negb (existsb f (skipn n p)) = true.
Proof.
  intro H. destruct (existsb f (skipn n p)) eqn:E; [|reflexivity]. rewrite (existsb_skipn f n p E) in H. discriminate.
Qed.

Lemma log_inv_step g0 Z st st1 t ts ts' :
  log_inv g0 Z st -> nth_error (s_thr st) t = Some ts -> s_thr st1 = s_thr st -> s_logopts st1 = g0 ->
  (forall u, u <> t -> s_temp st1 u = s_temp st u) ->
  global_log_free (t_rem ts') = true ->
  (Z t = true -> s_temp st1 t = None /\ temp_log_free (t_rem ts') = true) ->
  log_inv g0 Z (set_thr st1 (lset (s_thr st1) t ts')).
Proof.
  intros [Hg Hall] Ht Hthr Hlog Hoth Hgf Hz. split; [exact Hlog|].
  intros u tsu Hu. cbn [s_thr set_thr s_temp] in *. rewrite Hthr in Hu. destruct (Nat.eq_dec t u) as [->|Hne].
  - rewrite (lset_same _ _ _ _ Ht) in Hu. inversion Hu; subst tsu. split; [exact Hgf|exact Hz].
  - rewrite lset_other in Hu by exact Hne. destruct (Hall u tsu Hu) as [H1 H2]. split; [exact H1|].
    intro Hzu. rewrite Hoth by auto. apply H2; exact Hzu.
Qed.

Lemma exec_log g0 Z st t :
  log_inv g0 Z st -> log_inv g0 Z (fst (exec st t)) /\ forall e, In e (snd (exec st t)) -> log_good g0 Z t e.
Proof.
  intro Hinv. unfold exec. destruct (nth_error (s_thr st) t) as [ts|] eqn:Ht; [|split; [exact Hinv|intros e []]].
  destruct (t_rem ts) as [|stp rest] eqn:Hrem; [split; [exact Hinv|intros e []]|].
  pose proof Hinv as [Hg Hall]. destruct (Hall t ts Ht) as [Hgf Hz]. rewrite Hrem in Hgf, Hz.
  destruct (free_tl _ _ _ Hgf) as [Hgs Hgr].
  assert (Hzr : Z t = true -> s_temp st t = None /\ is_temp_log stp = false /\ temp_log_free rest = true).
  { intro H. destruct (Hz H) as [H1 H2]. destruct (free_tl _ _ _ H2) as [H3 H4]. auto. }
  assert (Hgen : forall st1 r loc, s_thr st1 = s_thr st -> s_logopts st1 = s_logopts st -> s_temp st1 = s_temp st ->
            log_inv g0 Z (set_thr st1 (lset (s_thr st1) t (mkT rest r loc)))).
  { intros st1 r loc H1 H2 H3. apply log_inv_step with (st := st) (ts := ts); auto.
    - rewrite H2; exact Hg.
    - intros u _. rewrite H3; reflexivity.
    - intro H. destruct (Hzr H) as [Ha [_ Hc]]. rewrite H3. auto. }
  destruct stp; cbn [exec_step];
    try (match goal with |- context [if ?x then set_x _ _ _ _ _ else _] => destruct x end);
    try (destruct (holder st m) eqn:Hh); try (destruct (holds st t m));
    try (destruct (negb (s_dict st s =? 0)));
    try (match goal with |- context [skipn] => fail 1 | |- context [flag (t_reg ts)] => destruct (flag (t_reg ts)) end);
    try (match goal with |- context [find_rec (s_erecs st) t 0] => destruct (find_rec (s_erecs st) t 0) end);
    try (match goal with |- context [err_resize ?x1 ?x2 ?x3 ?x4] => destruct (err_resize x1 x2 x3 x4) as [[g sz] md] end);
    try (match goal with |- context [match t_reg ts with _ => _ end] => destruct (t_reg ts) as [|b0|[p0|]|b0] end);
    try (destruct (nth_error (s_erecs st) (p_idx p0)));
    cbn [fst snd];
    try (split; [first [exact Hinv | apply Hgen; try reflexivity; destruct m; reflexivity]
                | intros ev Hev; cbn [In] in Hev; repeat (destruct Hev as [<-|Hev]; [let HH := fresh "HH" in intros ? HH; discriminate HH|]); contradiction]);
    try discriminate.
  - (* SkipIf *)
    split; [|intros ev []]. apply log_inv_step with (st := st) (ts := ts); auto; cbn [t_rem].
    + destruct (Bool.eqb (flag (t_reg ts)) b); [apply free_skipn|]; exact Hgr.
    + intro H. destruct (Hzr H) as [Ha [_ Hc]]. split; [exact Ha|].
      destruct (Bool.eqb (flag (t_reg ts)) b); [apply free_skipn|]; exact Hc.
  - (* LogTempSet *)
    split; [|intros ev []]. apply log_inv_step with (st := st) (ts := ts); [exact Hinv|exact Ht|reflexivity|exact Hg| |exact Hgr| ]; cbn [t_rem s_temp set_log].
    + intros u Hu. unfold oupd. destruct (Nat.eqb u t) eqn:E; [apply Nat.eqb_eq in E; congruence|reflexivity].
    + intro H. destruct (Hzr H) as [_ [Hb _]]. cbn in Hb. discriminate.
  - (* LogTempClear *)
    split; [|intros ev []]. apply log_inv_step with (st := st) (ts := ts); [exact Hinv|exact Ht|reflexivity|exact Hg| |exact Hgr| ]; cbn [t_rem s_temp set_log].
    + intros u Hu. unfold oupd. destruct (Nat.eqb u t) eqn:E; [apply Nat.eqb_eq in E; congruence|reflexivity].
    + intro H. destruct (Hzr H) as [_ [Hb _]]. cbn in Hb. discriminate.
  - (* LogObserve *)
    split; [apply Hgen; reflexivity|]. intros ev [<-|[]] v Hv Hzt. inversion Hv; subst v.
    destruct (Hzr Hzt) as [Ha _]. rewrite Ha. exact Hg.
Qed.

Theorem log_temp_override_isolated g0 d0 progs sched t p :
  (forall q, In q progs -> global_log_free q = true) ->
  nth_error progs t = Some p -> temp_log_free p = true ->
  forall v, In (t, EvLogOpts v) (snd (run sched (init_log g0 d0 progs))) -> v = g0.
Proof.
  intros Hall Hp Hfree.
  pose (Z := fun u => match nth_error progs u with Some q => temp_log_free q | None => false end).
  assert (H0 : log_inv g0 Z (init_log g0 d0 progs)).
  { split; [reflexivity|]. intros u tsu Hu. cbn [init_log s_thr s_temp] in *. rewrite nth_error_map in Hu.
    destruct (nth_error progs u) as [q|] eqn:Hq; cbn in Hu; [|discriminate]. inversion Hu; subst tsu. cbn [t_rem]. split.
    - apply Hall. eapply nth_error_In; exact Hq.
    - intro Hz. unfold Z in Hz. rewrite Hq in Hz. auto. }
  destruct (run_invariant (log_inv g0 Z) (log_good g0 Z) (exec_log g0 Z) sched _ H0) as [_ HG].
  intros v Hin. apply (HG t _ Hin v eq_refl). unfold Z. rewrite Hp. exact Hfree.
Qed.

(* ---------------------------------------------------------------------------------------------------------------
   reference count of a shared compiled type: atomic increments / decrements never lose an update
   --------------------------------------------------------------------------------------------------------------- *)
Definition ref_inv (st : state) : Prop :=
  forall t ts, nth_error (s_thr st) t = Some ts -> plain_ref_free (t_rem ts) = true.

Lemma ref_sum_app x y : ref_sum (x ++ y) = (ref_sum x + ref_sum y)%Z.
Proof.
  induction x as [|[t e] x IH]; [reflexivity|]. cbn [app ref_sum]. destruct e; rewrite ?IH; try reflexivity. lia.
Qed.

Lemma ref_inv_step st st1 t ts ts' :
  ref_inv st -> nth_error (s_thr st) t = Some ts -> s_thr st1 = s_thr st -> plain_ref_free (t_rem ts') = true ->
  ref_inv (set_thr st1 (lset (s_thr st1) t ts')).
Proof.
  intros Hinv Ht Hthr Hf u tsu Hu. cbn [s_thr set_thr] in Hu. rewrite Hthr in Hu.
  destruct (Nat.eq_dec t u) as [->|Hne].
  - rewrite (lset_same _ _ _ _ Ht) in Hu. inversion Hu; subst tsu. exact Hf.
  - rewrite lset_other in Hu by exact Hne. apply (Hinv u tsu Hu).
Qed.

Lemma exec_ref st t :
  ref_inv st ->
  ref_inv (fst (exec st t)) /\
  s_tref (fst (exec st t)) = (s_tref st + ref_sum (map (fun e => (t, e)) (snd (exec st t))))%Z.
Proof.
  intro Hinv. unfold exec. destruct (nth_error (s_thr st) t) as [ts|] eqn:Ht; [|split; [exact Hinv|cbn; lia]].
  destruct (t_rem ts) as [|stp rest] eqn:Hrem; [split; [exact Hinv|cbn; lia]|].
  pose proof (Hinv t ts Ht) as Hf. rewrite Hrem in Hf. destruct (free_tl _ _ _ Hf) as [Hfs Hfr].
  assert (Hgen : forall st1 r loc, s_thr st1 = s_thr st ->
            ref_inv (set_thr st1 (lset (s_thr st1) t (mkT rest r loc)))).
  { intros st1 r loc H1. apply ref_inv_step with (st := st) (ts := ts); auto. }
  destruct stp; cbn [exec_step];
    try (match goal with |- context [if ?x then set_x _ _ _ _ _ else _] => destruct x end);
    try (destruct (holder st m) eqn:Hh); try (destruct (holds st t m));
    try (destruct (negb (s_dict st s =? 0)));
    try (match goal with |- context [skipn] => fail 1 | |- context [flag (t_reg ts)] => destruct (flag (t_reg ts)) end);
    try (match goal with |- context [find_rec (s_erecs st) t 0] => destruct (find_rec (s_erecs st) t 0) end);
    try (match goal with |- context [err_resize ?x1 ?x2 ?x3 ?x4] => destruct (err_resize x1 x2 x3 x4) as [[g sz] md] end);
    try (match goal with |- context [match t_reg ts with _ => _ end] => destruct (t_reg ts) as [|b0|[p0|]|b0] end);
    try (destruct (nth_error (s_erecs st) (p_idx p0)));
    cbn [fst snd]; try discriminate;
    try (split; [first [exact Hinv | apply Hgen; try reflexivity; destruct m; reflexivity]
                | cbn [map ref_sum s_tref set_thr set_dict set_err set_canon set_hash set_log set_ref set_x];
                  try (destruct m; cbn [s_tref set_holder]); lia]).
  - (* SkipIf *)
    split; [|cbn; lia]. apply ref_inv_step with (st := st) (ts := ts); auto. cbn [t_rem].
    destruct (Bool.eqb (flag (t_reg ts)) b); [apply free_skipn|]; exact Hfr.
Qed.

Lemma run_ref sched : forall st,
  ref_inv st ->
  ref_inv (fst (run sched st)) /\ s_tref (fst (run sched st)) = (s_tref st + ref_sum (snd (run sched st)))%Z.
Proof.
  induction sched as [|t s IH]; intros st Hinv; cbn [run fst snd]; [split; [exact Hinv|cbn; lia]|].
  destruct (exec_ref st t Hinv) as [H1 H2]. destruct (IH _ H1) as [H3 H4]. split; [exact H3|].
  rewrite ref_sum_app. rewrite H4, H2. lia.
Qed.

Theorem ref_atomic_no_lost_update c progs sched :
  (forall q, In q progs -> plain_ref_free q = true) ->
  s_tref (fst (run sched (init_ref c progs))) = (c + ref_sum (snd (run sched (init_ref c progs))))%Z.
Proof.
  intro Hall. assert (H0 : ref_inv (init_ref c progs)).
  { intros u tsu Hu. cbn [init_ref s_thr] in Hu. rewrite nth_error_map in Hu.
    destruct (nth_error progs u) as [q|] eqn:Hq; cbn in Hu; [|discriminate]. inversion Hu; subst tsu. cbn [t_rem].
    apply Hall. eapply nth_error_In; exact Hq. }
  destruct (run_ref sched _ H0) as [_ H]. exact H.
Qed.

(* ---------------------------------------------------------------------------------------------------------------
   scratch memory: thread-local buffers are interference-free
   --------------------------------------------------------------------------------------------------------------- *)
Definition scr_inv (st : state) : Prop :=
  forall t ts, nth_error (s_thr st) t = Some ts -> scr_unskipped (t_rem ts) = true.

Lemma scr_unskipped_tl s p : scr_unskipped (s :: p) = true -> scr_unskipped p = true.
Proof. destruct s; cbn; auto. intro H. apply andb_true_iff in H. tauto. Qed.

Lemma scr_unskipped_skipn n : forall p, scr_unskipped p = true -> scr_unskipped (skipn n p) = true.
Proof.
  induction n as [|n IH]; intros p H; [exact H|]. destruct p as [|s p]; [exact H|]. cbn [skipn].
  apply IH. apply (scr_unskipped_tl _ _ H).
Qed.

Lemma scr_reads_skipn n : forall p x,
  existsb is_local_scr (firstn n p) = false -> scr_reads (skipn n p) x = scr_reads p x.
Proof.
  induction n as [|n IH]; intros p x H; [reflexivity|]. destruct p as [|s p]; [reflexivity|].
  cbn [firstn existsb skipn] in *. apply orb_false_iff in H. destruct H as [H1 H2].
  rewrite (IH p x H2). destruct s; cbn in H1 |- *; try reflexivity; destruct g; try reflexivity; discriminate.
Qed.

Lemma local_reads_app u x y : local_reads u (x ++ y) = local_reads u x ++ local_reads u y.
Proof.
  induction x as [|[t e] x IH]; [reflexivity|]. cbn [app local_reads].
  destruct e; try exact IH. destruct g; [exact IH|]. destruct (Nat.eqb t u); [cbn; f_equal|]; exact IH.
Qed.

Lemma local_reads_other u t l : u <> t -> local_reads u (map (fun e => (t, e)) l) = [].
Proof.
  intro Hne. induction l as [|e l IH]; [reflexivity|]. cbn [map local_reads].
  destruct e; try exact IH. destruct g; [exact IH|].
  destruct (Nat.eqb t u) eqn:E; [apply Nat.eqb_eq in E; congruence|exact IH].
Qed.

Definition thread_lscr (st : state) (t : tid) : N := s_lscr st t.

Lemma exec_scr st t u :
  scr_inv st ->
  scr_inv (fst (exec st t)) /\
  local_reads u (map (fun e => (t, e)) (snd (exec st t))) ++
    scr_reads (thread_rem (fst (exec st t)) u) (s_lscr (fst (exec st t)) u)
  = scr_reads (thread_rem st u) (s_lscr st u).
Proof.
  intro Hinv. unfold exec. destruct (nth_error (s_thr st) t) as [ts|] eqn:Ht; [|split; [exact Hinv|reflexivity]].
  destruct (t_rem ts) as [|stp rest] eqn:Hrem; [split; [exact Hinv|reflexivity]|].
  pose proof (Hinv t ts Ht) as Hu. rewrite Hrem in Hu. pose proof (scr_unskipped_tl _ _ Hu) as Hu'.
  assert (Hgen : forall st1 r loc rem', s_thr st1 = s_thr st -> scr_unskipped rem' = true ->
            scr_inv (set_thr st1 (lset (s_thr st1) t (mkT rem' r loc)))).
  { intros st1 r loc rem' H1 H2 v tsv Hv. cbn [s_thr set_thr] in Hv. rewrite H1 in Hv.
    destruct (Nat.eq_dec t v) as [->|Hne].
    - rewrite (lset_same _ _ _ _ Ht) in Hv. inversion Hv; subst tsv. exact H2.
    - rewrite lset_other in Hv by exact Hne. apply (Hinv v tsv Hv). }
  assert (Hold : scr_reads (thread_rem st t) (s_lscr st t) = scr_reads (stp :: rest) (s_lscr st t))
    by (unfold thread_rem; rewrite Ht, Hrem; reflexivity).
  split.
  - (* invariant *)
    destruct stp; cbn [exec_step];
      try (match goal with |- context [if ?x then set_x _ _ _ _ _ else _] => destruct x end);
      try (destruct (holder st m) eqn:Hh); try (destruct (holds st t m));
      try (destruct (negb (s_dict st s =? 0)));
      try (match goal with |- context [skipn] => fail 1 | |- context [flag (t_reg ts)] => destruct (flag (t_reg ts)) end);
      try (match goal with |- context [find_rec (s_erecs st) t 0] => destruct (find_rec (s_erecs st) t 0) end);
      try (match goal with |- context [err_resize ?x1 ?x2 ?x3 ?x4] => destruct (err_resize x1 x2 x3 x4) as [[g0 sz] md] end);
      try (match goal with |- context [match t_reg ts with _ => _ end] => destruct (t_reg ts) as [|b0|[p0|]|b0] end);
      try (destruct (nth_error (s_erecs st) (p_idx p0)));
      cbn [fst]; try exact Hinv;
      try (apply Hgen; [try reflexivity; destruct m; reflexivity|exact Hu']).
    apply Hgen; [reflexivity|]. destruct (Bool.eqb (flag (t_reg ts)) b); [apply scr_unskipped_skipn|]; exact Hu'.
  - destruct (Nat.eq_dec u t) as [->|Hne].
    + rewrite Hold.
      destruct stp; cbn [exec_step];
        try (match goal with |- context [if ?x then set_x _ _ _ _ _ else _] => destruct x end);
        try (destruct (holder st m) eqn:Hh); try (destruct (holds st t m));
        try (destruct (negb (s_dict st s =? 0)));
        try (match goal with |- context [skipn] => fail 1 | |- context [flag (t_reg ts)] => destruct (flag (t_reg ts)) end);
        try (match goal with |- context [find_rec (s_erecs st) t 0] => destruct (find_rec (s_erecs st) t 0) end);
        try (match goal with |- context [err_resize ?x1 ?x2 ?x3 ?x4] => destruct (err_resize x1 x2 x3 x4) as [[g0 sz] md] end);
        try (match goal with |- context [match t_reg ts with _ => _ end] => destruct (t_reg ts) as [|b0|[p0|]|b0] end);
        try (destruct (nth_error (s_erecs st) (p_idx p0)));
        cbn [fst snd];
        try (rewrite Hold; reflexivity);
        try (erewrite thread_rem_upd;
             [cbn [map local_reads app scr_reads t_rem s_lscr set_thr set_dict set_err set_canon set_hash set_log set_ref set_x];
              try (destruct m; cbn [s_lscr set_holder]); unfold nupd; rewrite ?Nat.eqb_refl; try (destruct g); reflexivity
             |cbn [s_thr set_dict set_err set_canon set_hash set_log set_ref set_x]; try (destruct m; cbn [s_thr set_holder]); exact Ht]).
      (* SkipIf *)
      erewrite thread_rem_upd by exact Ht. cbn [map local_reads app t_rem s_lscr set_thr scr_reads].
      cbn [scr_unskipped] in Hu. apply andb_true_iff in Hu. destruct Hu as [Hu1 _].
      destruct (Bool.eqb (flag (t_reg ts)) b); [|reflexivity]. apply scr_reads_skipn.
      destruct (existsb is_local_scr (firstn n rest)); [discriminate|reflexivity].
    + rewrite (local_reads_other u t _ Hne). cbn [app].
      destruct stp; cbn [exec_step];
        try (match goal with |- context [if ?x then set_x _ _ _ _ _ else _] => destruct x end);
        try (destruct (holder st m) eqn:Hh); try (destruct (holds st t m));
        try (destruct (negb (s_dict st s =? 0)));
        try (match goal with |- context [flag (t_reg ts)] => destruct (flag (t_reg ts)) end);
        try (match goal with |- context [find_rec (s_erecs st) t 0] => destruct (find_rec (s_erecs st) t 0) end);
        try (match goal with |- context [err_resize ?x1 ?x2 ?x3 ?x4] => destruct (err_resize x1 x2 x3 x4) as [[g0 sz] md] end);
        try (match goal with |- context [match t_reg ts with _ => _ end] => destruct (t_reg ts) as [|b0|[p0|]|b0] end);
        try (destruct (nth_error (s_erecs st) (p_idx p0)));
        cbn [fst snd]; try reflexivity;
        try (erewrite thread_rem_upd_other;
             [cbn [s_lscr set_thr set_dict set_err set_canon set_hash set_log set_ref set_x];
              try (destruct m; cbn [s_lscr set_holder]); unfold nupd;
              try (destruct (Nat.eqb u t) eqn:E; [apply Nat.eqb_eq in E; congruence|]); reflexivity
             |try reflexivity; try apply s_thr_set_holder|exact Hne]).
Qed.

Lemma run_scr sched : forall st u,
  scr_inv st ->
  local_reads u (snd (run sched st)) ++
    scr_reads (thread_rem (fst (run sched st)) u) (s_lscr (fst (run sched st)) u)
  = scr_reads (thread_rem st u) (s_lscr st u).
Proof.
  induction sched as [|t s IH]; intros st u Hinv; cbn [run fst snd]; [reflexivity|].
  destruct (exec_scr st t u Hinv) as [H1 H2]. rewrite local_reads_app, <- app_assoc. rewrite (IH _ u H1). exact H2.
Qed.

(* the values a thread reads back from its thread-local scratch buffer, in any schedule and whatever the other threads do
   (including threads that use the process-wide buffer), are the values it reads running alone *)
Theorem scratch_local_interference_free d0 progs sched t p :
  (forall q, In q progs -> scr_unskipped q = true) -> nth_error progs t = Some p ->
  local_reads t (snd (run sched (init d0 progs))) ++
    scr_reads (thread_rem (fst (run sched (init d0 progs))) t) (s_lscr (fst (run sched (init d0 progs))) t)
  = scr_reads p 0.
Proof.
  intros Hall Hp.
  assert (H0 : scr_inv (init d0 progs)).
  { intros u tsu Hu. destruct (init_thread _ _ _ _ Hu) as [q [Hq ->]]. cbn [t_rem]. apply Hall. eapply nth_error_In; exact Hq. }
  rewrite (run_scr sched _ t H0). unfold thread_rem. cbn [init s_thr s_lscr]. rewrite nth_error_map, Hp. reflexivity.
Qed.

Lemma scr_api o q : scr_unskipped q = true -> scr_unskipped (p_api o ++ q) = true.
Proof. intro H. destruct o; cbn; rewrite ?H; reflexivity. Qed.

Lemma compile_scr_unskipped ops : scr_unskipped (compile ops) = true.
Proof.
  induction ops as [|o ops IH]; [reflexivity|]. unfold compile in *. cbn [map concat]. apply scr_api. exact IH.
Qed.

(* ---------------------------------------------------------------------------------------------------------------
   LYB hash cache: a thread that went through the locked fill itself always reads cached hashes
   --------------------------------------------------------------------------------------------------------------- *)
Definition hash_inv (st : state) : Prop :=
  forall t ts, nth_error (s_thr st) t = Some ts -> hchk (s_hash2 st) (t_rem ts) = true.

Definition hash_good (_ : tid) (e : event) : Prop := forall b, e = EvHashRead b -> b = true.

Lemma hchk_mono : forall p, hchk false p = true -> hchk true p = true.
Proof.
  induction p as [|s p IH]; intro H; [reflexivity|]. destruct s; cbn [hchk] in *; auto; try discriminate.
  apply andb_true_iff in H. destruct H as [H1 H2]. rewrite H1. cbn. auto.
Qed.

Lemma hchk_mono' k p : hchk k p = true -> hchk true p = true.
Proof. destruct k; [auto|apply hchk_mono]. Qed.

Lemma hchk_skipn n : forall p k,
  existsb is_hash_step (firstn n p) = false -> hchk k p = true -> hchk k (skipn n p) = true.
Proof.
  induction n as [|n IH]; intros p k H1 H2; [exact H2|]. destruct p as [|s p]; [exact H2|].
  cbn [firstn existsb skipn] in *. apply orb_false_iff in H1. destruct H1 as [Ha Hb]. apply IH; [exact Hb|].
  destruct s; cbn [hchk is_hash_step] in *; auto; try discriminate.
  apply andb_true_iff in H2. tauto.
Qed.

Lemma exec_hash st t :
  hash_inv st -> hash_inv (fst (exec st t)) /\ forall e, In e (snd (exec st t)) -> hash_good t e.
Proof.
  intro Hinv. unfold exec. destruct (nth_error (s_thr st) t) as [ts|] eqn:Ht; [|split; [exact Hinv|intros e []]].
  destruct (t_rem ts) as [|stp rest] eqn:Hrem; [split; [exact Hinv|intros e []]|].
  pose proof (Hinv t ts Ht) as Hc. rewrite Hrem in Hc.
  assert (Hgen : forall st1 r loc rem', s_thr st1 = s_thr st ->
            (s_hash2 st1 = s_hash2 st \/ s_hash2 st1 = true) -> hchk (s_hash2 st1) rem' = true ->
            hash_inv (set_thr st1 (lset (s_thr st1) t (mkT rem' r loc)))).
  { intros st1 r loc rem' H1 H2 H3 v tsv Hv. cbn [s_thr set_thr s_hash2] in *. rewrite H1 in Hv.
    destruct (Nat.eq_dec t v) as [->|Hne].
    - rewrite (lset_same _ _ _ _ Ht) in Hv. inversion Hv; subst tsv. exact H3.
    - rewrite lset_other in Hv by exact Hne. destruct H2 as [H2|H2]; rewrite H2.
      + apply (Hinv v tsv Hv).
      + apply (hchk_mono' _ _ (Hinv v tsv Hv)). }
  destruct stp; cbn [exec_step];
    try (match goal with |- context [if ?x then set_x _ _ _ _ _ else _] => destruct x end);
    try (destruct (holder st m) eqn:Hh); try (destruct (holds st t m));
    try (destruct (negb (s_dict st s =? 0)));
    try (match goal with |- context [skipn] => fail 1 | |- context [flag (t_reg ts)] => destruct (flag (t_reg ts)) end);
    try (match goal with |- context [find_rec (s_erecs st) t 0] => destruct (find_rec (s_erecs st) t 0) end);
    try (match goal with |- context [err_resize ?x1 ?x2 ?x3 ?x4] => destruct (err_resize x1 x2 x3 x4) as [[g0 sz] md] end);
    try (match goal with |- context [match t_reg ts with _ => _ end] => destruct (t_reg ts) as [|b0|[p0|]|b0] end);
    try (destruct (nth_error (s_erecs st) (p_idx p0)));
    cbn [fst snd];
    try (split; [first [exact Hinv
                       | apply Hgen; [try reflexivity; destruct m; reflexivity
                                     |left; try reflexivity; destruct m; reflexivity
                                     |cbn [hchk] in Hc; try (destruct m; cbn [s_hash2 set_holder]); exact Hc]]
                | intros ev Hev; cbn [In] in Hev;
                  repeat (destruct Hev as [<-|Hev]; [let HH := fresh "HH" in intros ? HH; discriminate HH|]); contradiction]).
  - (* SkipIf *)
    cbn [hchk] in Hc. apply andb_true_iff in Hc. destruct Hc as [Hc1 Hc2].
    split; [|intros ev []]. apply Hgen; [reflexivity|left; reflexivity|].
    destruct (Bool.eqb (flag (t_reg ts)) b); [|exact Hc2]. apply hchk_skipn; [|exact Hc2].
    destruct (existsb is_hash_step (firstn n rest)); [discriminate|reflexivity].
  - (* HashRead *)
    cbn [hchk] in Hc. apply andb_true_iff in Hc. destruct Hc as [Hc1 Hc2].
    split; [apply Hgen; [reflexivity|left; reflexivity|exact Hc2]|].
    intros ev [<-|[]] b Hb. inversion Hb; subst b. exact Hc1.
  - (* HashFillRest *)
    cbn [hchk] in Hc. split.
    + apply Hgen; [reflexivity|right; reflexivity|exact Hc].
    + intros ev Hev; cbn [In] in Hev; repeat (destruct Hev as [<-|Hev]; [intros ? HH; discriminate HH|]); contradiction.
Qed.

Theorem hash_read_after_own_fill d0 progs sched :
  (forall q, In q progs -> hchk false q = true) ->
  forall t b, In (t, EvHashRead b) (snd (run sched (init d0 progs))) -> b = true.
Proof.
  intro Hall. assert (H0 : hash_inv (init d0 progs)).
  { intros u tsu Hu. destruct (init_thread _ _ _ _ Hu) as [q [Hq ->]]. cbn [t_rem init s_hash2]. apply Hall.
    eapply nth_error_In; exact Hq. }
  destruct (run_invariant hash_inv hash_good exec_hash sched _ H0) as [_ HG].
  intros t b Hin. apply (HG t _ Hin b eq_refl).
Qed.

Lemma hchk_api o q k : hchk k q = true -> hchk k (p_api o ++ q) = true.
Proof.
  intro H. pose proof (hchk_mono' _ _ H) as H'. destruct o; cbn; rewrite ?H, ?H'; reflexivity.
Qed.

Lemma compile_hchk ops : hchk false (compile ops) = true.
Proof.
  induction ops as [|o ops IH]; [reflexivity|]. unfold compile in *. cbn [map concat]. apply hchk_api. exact IH.
Qed.

(* ---------------------------------------------------------------------------------------------------------------
   err_ht slot pointers: a slot read in the critical section of its lookup is never stale
   --------------------------------------------------------------------------------------------------------------- *)
Definition slot_inv (st : state) : Prop :=
  forall t ts, nth_error (s_thr st) t = Some ts -> schk (fresh st t) (t_rem ts) = true.

Definition slot_good (_ : tid) (e : event) : Prop := forall b, e = EvSlot b -> b = true.

Lemma schk_mono : forall p, schk false p = true -> schk true p = true.
Proof.
  induction p as [|s p IH]; intro H; [reflexivity|]. destruct s; cbn [schk] in *; auto; try discriminate.
  - destruct m; auto.
  - destruct m; auto.
  - apply andb_true_iff in H. destruct H as [H1 H2]. rewrite H1. cbn. auto.
Qed.

Lemma schk_mono' f g p : schk f p = true -> (f = g \/ f = false) -> schk g p = true.
Proof. intros H [-> | ->]; [exact H|]. destruct g; [apply schk_mono|]; exact H. Qed.

Lemma schk_skipn n : forall p f,
  existsb is_slot_step (firstn n p) = false -> schk f p = true -> schk f (skipn n p) = true.
Proof.
  induction n as [|n IH]; intros p f H1 H2; [exact H2|]. destruct p as [|s p]; [exact H2|].
  cbn [firstn existsb skipn] in *. apply orb_false_iff in H1. destruct H1 as [Ha Hb].
  assert (Hfalse : schk false p = true -> schk f (skipn n p) = true).
  { intro H. apply (schk_mono' false); [apply IH; [exact Hb|exact H]|right; reflexivity]. }
  destruct s; cbn [schk is_slot_step] in *; try discriminate; try (apply IH; [exact Hb|exact H2]); try (apply Hfalse; exact H2).
  - destruct m; [apply IH; [exact Hb|exact H2]|apply Hfalse; exact H2].
  - destruct m; [apply IH; [exact Hb|exact H2]|apply Hfalse; exact H2].
  - apply andb_true_iff in H2. destruct H2 as [_ H2]. apply IH; [exact Hb|exact H2].
Qed.

Lemma fresh_thr st l u : fresh (set_thr st l) u = fresh st u.
Proof. reflexivity. Qed.

Lemma exec_slot st t :
  disc_inv st -> slot_inv st ->
  slot_inv (fst (exec st t)) /\ forall e, In e (snd (exec st t)) -> slot_good t e.
Proof.
  intros Hdi Hs. unfold exec. destruct (nth_error (s_thr st) t) as [ts|] eqn:Ht; [|split; [exact Hs|intros e []]].
  destruct (t_rem ts) as [|stp rest] eqn:Hrem; [split; [exact Hs|intros e []]|].
  pose proof (Hs t ts Ht) as Hc. rewrite Hrem in Hc.
  pose proof (Hdi t ts Ht) as Hd. rewrite Hrem in Hd.
  assert (Hgen : forall st1 r loc rem', s_thr st1 = s_thr st ->
            (forall u, u <> t -> fresh st1 u = fresh st u \/ fresh st u = false) ->
            schk (fresh st1 t) rem' = true ->
            slot_inv (set_thr st1 (lset (s_thr st1) t (mkT rem' r loc)))).
  { intros st1 r loc rem' H1 H2 H3 v tsv Hv. rewrite fresh_thr. cbn [s_thr set_thr] in Hv. rewrite H1 in Hv.
    destruct (Nat.eq_dec t v) as [->|Hne].
    - rewrite (lset_same _ _ _ _ Ht) in Hv. inversion Hv; subst tsv. exact H3.
    - rewrite lset_other in Hv by exact Hne. apply (schk_mono' (fresh st v)); [apply (Hs v tsv Hv)|].
      destruct (H2 v (fun E => Hne (eq_sym E))) as [E|E]; [left; symmetry; exact E|right; exact E]. }
  assert (Hoth : forall u, u <> t -> holds st t LHash = true -> fresh st u = false).
  { intros u Hne Hh. unfold fresh, holds in *. cbn [holder] in *. destruct (s_lhash st) as [x|]; [|reflexivity].
    apply Nat.eqb_eq in Hh. subst x. destruct (Nat.eqb t u) eqn:E; [apply Nat.eqb_eq in E; congruence|reflexivity]. }
  destruct stp; cbn [exec_step];
    try (match goal with |- context [if ?x then set_x _ _ _ _ _ else _] => destruct x end);
    try (destruct (negb (s_dict st s =? 0)));
    try (match goal with |- context [skipn] => fail 1 | |- context [flag (t_reg ts)] => destruct (flag (t_reg ts)) end);
    try (match goal with |- context [match t_reg ts with _ => _ end] => destruct (t_reg ts) as [|b0|[p0|]|b0] end);
    try (destruct (nth_error (s_erecs st) (p_idx p0)));
    cbn [fst snd];
    try (split; [apply Hgen; [reflexivity|intros u Hu; left; reflexivity|cbn [schk] in Hc; exact Hc]
                | intros ev Hev; cbn [In] in Hev;
                  repeat (destruct Hev as [<-|Hev]; [let HH := fresh "HH" in intros ? HH; discriminate HH|]); contradiction]).
  - (* Acquire *)
    destruct (holder st m) as [x|] eqn:Hh; cbn [fst snd].
    + split; [exact Hs|]. intros ev [<-|[]] b Hb. discriminate Hb.
    + split; [|intros ev []]. destruct m.
      * apply Hgen; [reflexivity|intros u Hu; left; reflexivity|cbn [schk] in Hc; exact Hc].
      * cbn [holder] in Hh. apply Hgen; [reflexivity| |].
        -- intros u Hu. right. unfold fresh, holds. cbn [holder]. rewrite Hh. reflexivity.
        -- cbn [schk] in Hc. apply (schk_mono' false); [exact Hc|right; reflexivity].
  - (* Release *)
    destruct (holds st t m) eqn:Hh; cbn [fst snd]; (split; [|intros ev Hev; cbn [In] in Hev;
        repeat (destruct Hev as [<-|Hev]; [let HH := fresh "HH" in intros ? HH; discriminate HH|]); contradiction]).
    + destruct m.
      * apply Hgen; [reflexivity|intros u Hu; left; reflexivity|cbn [schk] in Hc; exact Hc].
      * apply Hgen; [reflexivity| |].
        -- intros u Hu. right. apply Hoth; [exact Hu|exact Hh].
        -- cbn [schk] in Hc. apply (schk_mono' false); [exact Hc|right; reflexivity].
    + destruct m.
      * apply Hgen; [reflexivity|intros u Hu; left; reflexivity|cbn [schk] in Hc; exact Hc].
      * apply Hgen; [reflexivity|intros u Hu; left; reflexivity|].
        cbn [schk] in Hc. apply (schk_mono' false); [exact Hc|right; reflexivity].
  - (* SkipIf *)
    cbn [schk] in Hc. apply andb_true_iff in Hc. destruct Hc as [Hc1 Hc2].
    split; [|intros ev []]. apply Hgen; [reflexivity|intros u Hu; left; reflexivity|].
    destruct (Bool.eqb (flag (t_reg ts)) b); [|exact Hc2]. apply schk_skipn; [|exact Hc2].
    destruct (existsb is_slot_step (firstn n rest)); [discriminate|reflexivity].
  - (* ErrInsert *)
    cbn [disc needs] in Hd. apply andb_true_iff in Hd. destruct Hd as [Hheld _]. rewrite hget_held_of in Hheld.
    cbn [schk] in Hc.
    destruct (find_rec (s_erecs st) t 0).
    + cbn [fst snd]. split; [|intros ev Hev; cbn [In] in Hev;
        repeat (destruct Hev as [<-|Hev]; [let HH := fresh "HH" in intros ? HH; discriminate HH|]); contradiction].
      apply Hgen; [reflexivity|intros u Hu; left; reflexivity|]. apply (schk_mono' false); [exact Hc|right; reflexivity].
    + destruct (err_resize (s_egen st) (s_esize st) (s_emode st) (N.of_nat (length (s_erecs st ++ [(t, [])])))) as [[g0 sz] md].
      cbn [fst snd]. split; [|intros ev Hev; cbn [In] in Hev;
        repeat (destruct Hev as [<-|Hev]; [let HH := fresh "HH" in intros ? HH; discriminate HH|]); contradiction].
      apply Hgen; [reflexivity| |].
      * intros u Hu. right. apply Hoth; [exact Hu|exact Hheld].
      * apply (schk_mono' false); [exact Hc|right; reflexivity].
  - (* ErrSlotFind *)
    cbn [disc needs] in Hd. apply andb_true_iff in Hd. destruct Hd as [Hheld _]. rewrite hget_held_of in Hheld.
    cbn [schk] in Hc.
    split; [|intros ev Hev; cbn [In] in Hev;
        repeat (destruct Hev as [<-|Hev]; [let HH := fresh "HH" in intros ? HH; discriminate HH|]); contradiction].
    apply Hgen; [reflexivity| |].
    + intros u Hu. right. apply Hoth; [exact Hu|exact Hheld].
    + assert (Hf : fresh (set_x st (supd (s_slot st) t (match find_rec (s_erecs st) t 0 with
                                       | Some i => Some (s_egen st, i) | None => None end))
                          (s_hash2 st) (s_gscr st) (s_lscr st)) t = true).
      { unfold fresh, slot_current. cbn [s_slot s_egen set_x]. unfold supd. rewrite Nat.eqb_refl.
        change (holds (set_x st _ (s_hash2 st) (s_gscr st) (s_lscr st)) t LHash) with (holds st t LHash) at 1.
        rewrite Hheld. destruct (find_rec (s_erecs st) t 0); [rewrite N.eqb_refl|]; reflexivity. }
      rewrite Hf. exact Hc.
  - (* ErrSlotRead *)
    cbn [schk] in Hc. apply andb_true_iff in Hc. destruct Hc as [Hc1 Hc2].
    split; [apply Hgen; [reflexivity|intros u Hu; left; reflexivity|exact Hc2]|].
    intros ev [<-|[<-|[]]] b Hb; [discriminate Hb|]. inversion Hb; subst b.
    unfold fresh in Hc1. apply andb_true_iff in Hc1. destruct Hc1 as [_ Hsc]. exact Hsc.
Qed.

Theorem slot_read_in_section_valid d0 progs sched :
  (forall q, In q progs -> disc (false, false) q = true /\ schk false q = true) ->
  forall t b, In (t, EvSlot b) (snd (run sched (init d0 progs))) -> b = true.
Proof.
  intro Hall.
  assert (H0 : disc_inv (init d0 progs) /\ slot_inv (init d0 progs)).
  { split; [apply disc_inv_init; intros q Hq; apply (Hall q Hq)|].
    intros u tsu Hu. destruct (init_thread _ _ _ _ Hu) as [q [Hq ->]]. cbn [t_rem].
    change (fresh (init d0 progs) u) with false. apply (Hall q). eapply nth_error_In; exact Hq. }
  destruct (run_invariant (fun st => disc_inv st /\ slot_inv st) slot_good
              (fun st u HI => conj (conj (proj1 (exec_disc st u (proj1 HI))) (proj1 (exec_slot st u (proj1 HI) (proj2 HI))))
                                   (proj2 (exec_slot st u (proj1 HI) (proj2 HI))))
              sched _ H0) as [_ HG].
  intros t b Hin. apply (HG t _ Hin b eq_refl).
Qed.

Lemma schk_api o q : schk false q = true -> schk false (p_api o ++ q) = true.
Proof. intro H. pose proof (schk_mono _ H) as H'. destruct o; cbn; rewrite ?H, ?H'; reflexivity. Qed.

Lemma compile_schk ops : schk false (compile ops) = true.
Proof.
  induction ops as [|o ops IH]; [reflexivity|]. unfold compile in *. cbn [map concat]. apply schk_api. exact IH.
Qed.
