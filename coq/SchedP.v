(* SchedP.v - proofs about the scheduler model Sched.v (slice conc, property C16). *)
From LY Require Import Base Sched.
From Coq Require Import ZifyBool ZifyNat ZifyN.
Local Open Scope N_scope.

(* ---------------------------------------------------------------------------------------------------------------
   lists, thread update
   --------------------------------------------------------------------------------------------------------------- *)
Lemma lset_length {A} (l : list A) i a : length (lset l i a) = length l.
Proof. revert i; induction l as [|x l IH]; intros [|i]; cbn; auto. Qed.

Lemma lset_same {A} (l : list A) i a x : nth_error l i = Some x -> nth_error (lset l i a) i = Some a.
Proof.
  revert i; induction l as [|y l IH]; intros [|i] H; cbn in *; try discriminate; auto.
Qed.

Lemma lset_other {A} (l : list A) i j a : i <> j -> nth_error (lset l i a) j = nth_error l j.
Proof.
  revert i j; induction l as [|y l IH]; intros [|i] [|j] H; cbn; auto; try congruence.
Qed.

Lemma lset_none {A} (l : list A) i a : nth_error l i = None -> lset l i a = l.
Proof.
  revert i; induction l as [|y l IH]; intros [|i] H; cbn in *; try discriminate; auto. f_equal; auto.
Qed.

Definition upd_thread (st : state) (t : tid) (ts : tstate) : state := set_thr st (lset (s_thr st) t ts).

Lemma run_app s1 s2 st :
  run (s1 ++ s2) st = (fst (run s2 (fst (run s1 st))), snd (run s1 st) ++ snd (run s2 (fst (run s1 st)))).
Proof.
  revert st; induction s1 as [|t s1 IH]; intro st; cbn [run app fst snd].
  - destruct (run s2 st); reflexivity.
  - rewrite IH. cbn [fst snd]. rewrite app_assoc. reflexivity.
Qed.

(* a property of states that every step preserves, and a property of events every step guarantees *)
Lemma run_invariant (I : state -> Prop) (G : tid -> event -> Prop) :
  (forall st t, I st -> I (fst (exec st t)) /\ forall e, In e (snd (exec st t)) -> G t e) ->
  forall sched st, I st -> I (fst (run sched st)) /\ forall t e, In (t, e) (snd (run sched st)) -> G t e.
Proof.
  intros Hstep sched; induction sched as [|t s IH]; intros st HI; cbn [run fst snd].
  - split; [exact HI|]. intros t e [].
  - destruct (Hstep st t HI) as [HI1 HG1]. destruct (IH _ HI1) as [HI2 HG2]. split; [exact HI2|].
    intros u e Hin. apply in_app_or in Hin. destruct Hin as [Hin|Hin].
    + apply in_map_iff in Hin. destruct Hin as [e' [Heq Hin]]. inversion Heq; subst. apply HG1; exact Hin.
    + apply HG2; exact Hin.
Qed.

(* ---------------------------------------------------------------------------------------------------------------
   lock discipline
   --------------------------------------------------------------------------------------------------------------- *)
Definition held_of (st : state) (t : tid) : held := (holds st t LDict, holds st t LHash).

Definition disc_inv (st : state) : Prop :=
  forall t ts, nth_error (s_thr st) t = Some ts -> disc (held_of st t) (t_rem ts) = true.

Lemma held_eqb_eq a b : held_eqb a b = true -> a = b.
Proof.
  destruct a as [a1 a2], b as [b1 b2]; unfold held_eqb; cbn. intro H. apply andb_true_iff in H. destruct H as [H1 H2].
  apply Bool.eqb_prop in H1. apply Bool.eqb_prop in H2. congruence.
Qed.

Lemma disc_skip : forall n p h h',
  disc_block h (firstn n p) = Some h' -> (n <= length p)%nat -> disc h p = true -> disc h' (skipn n p) = true.
Proof.
  induction n as [|n IH]; intros p h h' Hb Hn Hd.
  - cbn in Hb. inversion Hb; subst. exact Hd.
  - destruct p as [|s p]; [cbn in Hn; lia|]. cbn [firstn skipn] in *. cbn [length] in Hn.
    assert (Hn' : (n <= length p)%nat) by lia.
    destruct s; cbn [disc_block disc needs] in Hb, Hd;
      try (apply (IH p h h' Hb Hn' Hd));
      try discriminate.
    + destruct (hget h m); [discriminate|]. cbn in Hd. apply (IH p _ h' Hb Hn' Hd).
    + destruct (hget h m); [|discriminate]. cbn in Hd. apply (IH p _ h' Hb Hn' Hd).
    + destruct (hget h LDict); [|discriminate]. apply (IH p h h' Hb Hn' Hd).
    + destruct (hget h LDict); [|discriminate]. apply (IH p h h' Hb Hn' Hd).
    + destruct (hget h LDict); [|discriminate]. apply (IH p h h' Hb Hn' Hd).
    + destruct (hget h LDict); [|discriminate]. apply (IH p h h' Hb Hn' Hd).
    + destruct (hget h LHash); [|discriminate]. apply (IH p h h' Hb Hn' Hd).
    + destruct (hget h LHash); [|discriminate]. apply (IH p h h' Hb Hn' Hd).
    + destruct (hget h LHash); [|discriminate]. apply (IH p h h' Hb Hn' Hd).
Qed.

Lemma holds_set_holder st m h u m' :
  holds (set_holder st m h) u m' =
  if lockid_eqb m m' then match h with Some x => Nat.eqb x u | None => false end else holds st u m'.
Proof. destruct m, m'; reflexivity. Qed.

Lemma held_of_thr st l u : held_of (set_thr st l) u = held_of st u.
Proof. reflexivity. Qed.

(* the next step of thread t *)
Definition next_step (st : state) (t : tid) : option step :=
  match nth_error (s_thr st) t with
  | Some ts => match t_rem ts with s :: _ => Some s | [] => None end
  | None => None
  end.

Definition good_event (e : event) : Prop :=
  is_bad_access e = false /\ forall m, e <> EvBadUnlock m.

Lemma hget_held_of st t m : hget (held_of st t) m = holds st t m.
Proof. destruct m; reflexivity. Qed.

Lemma held_of_acquire st t m u :
  holder st m = None ->
  held_of (set_holder st m (Some t)) u = if Nat.eqb t u then hset (held_of st u) m true else held_of st u.
Proof.
  intro Hh. unfold held_of. rewrite !holds_set_holder.
  destruct m; cbn [lockid_eqb hset fst snd]; unfold holds at 1 2; cbn in Hh |- *.
  - unfold holds. cbn. rewrite Hh. destruct (Nat.eqb t u); reflexivity.
  - unfold holds. cbn. rewrite Hh. destruct (Nat.eqb t u); reflexivity.
Qed.

Lemma held_of_release st t m u :
  holds st t m = true ->
  held_of (set_holder st m None) u = if Nat.eqb t u then hset (held_of st u) m false else held_of st u.
Proof.
  intro Hh. unfold held_of. rewrite !holds_set_holder.
  unfold holds in *. destruct m; cbn in *.
  - destruct (s_ldict st) as [x|]; [|discriminate]. apply Nat.eqb_eq in Hh. subst x.
    destruct (Nat.eqb t u); reflexivity.
  - destruct (s_lhash st) as [x|]; [|discriminate]. apply Nat.eqb_eq in Hh. subst x.
    destruct (Nat.eqb t u); reflexivity.
Qed.

Lemma disc_inv_step st st1 t ts ts' :
  disc_inv st -> nth_error (s_thr st) t = Some ts -> s_thr st1 = s_thr st ->
  (forall u, u <> t -> held_of st1 u = held_of st u) ->
  disc (held_of st1 t) (t_rem ts') = true ->
  disc_inv (set_thr st1 (lset (s_thr st1) t ts')).
Proof.
  intros Hinv Ht Hthr Hoth Hd. unfold disc_inv. intros u tsu Hu. cbn [s_thr set_thr] in Hu. rewrite held_of_thr.
  rewrite Hthr in Hu. destruct (Nat.eq_dec t u) as [->|Hne].
  - rewrite (lset_same _ _ _ _ Ht) in Hu. inversion Hu; subst. exact Hd.
  - rewrite lset_other in Hu by exact Hne. rewrite Hoth by auto. apply Hinv; exact Hu.
Qed.

Lemma good_access r : good_event (EvAccess r true).
Proof. split; [reflexivity|]. intros m H; discriminate. Qed.

Ltac good_other := split; [reflexivity | intros ? ?; discriminate].
Ltac evs :=
  let ev := fresh "ev" in let Hev := fresh "Hev" in
  intros ev Hev; cbn [In snd] in Hev;
  repeat (destruct Hev as [<-|Hev]; [try apply good_access; try good_other|]); try contradiction.

Lemma s_thr_set_holder st m h : s_thr (set_holder st m h) = s_thr st.
Proof. destruct m; reflexivity. Qed.

Ltac dstep :=
  match goal with
  | Hinv : disc_inv ?st, Ht : nth_error (s_thr ?st) _ = Some ?ts |- _ =>
      apply disc_inv_step with (st := st) (ts := ts);
      [exact Hinv | exact Ht | try reflexivity; try apply s_thr_set_holder | try (intros ? ?; reflexivity) | try assumption]
  end.

Lemma exec_disc st t :
  disc_inv st -> disc_inv (fst (exec st t)) /\ forall e, In e (snd (exec st t)) -> good_event e.
Proof.
  intro Hinv. unfold exec. destruct (nth_error (s_thr st) t) as [ts|] eqn:Ht; [|split; [exact Hinv|evs]].
  destruct (t_rem ts) as [|stp rest] eqn:Hrem; [split; [exact Hinv|evs]|].
  pose proof (Hinv t ts Ht) as Hd. rewrite Hrem in Hd.
  destruct stp; cbn [exec_step]; cbn [disc needs] in Hd.
  - (* Acquire *)
    apply andb_true_iff in Hd. destruct Hd as [Hfree Hd].
    destruct (holder st m) as [x|] eqn:Hh.
    + split; [exact Hinv|]. evs.
    + split; [|evs]. cbn [fst].
      dstep.
      * intros u Hu. rewrite held_of_acquire by exact Hh. destruct (Nat.eqb t u) eqn:E; [apply Nat.eqb_eq in E; congruence|reflexivity].
      * cbn [t_rem]. rewrite held_of_acquire by exact Hh. rewrite Nat.eqb_refl. exact Hd.
  - (* Release *)
    apply andb_true_iff in Hd. destruct Hd as [Hheld Hd]. rewrite hget_held_of in Hheld. rewrite Hheld. cbn [fst snd].
    split; [|evs].
    dstep.
    + intros u Hu. rewrite (held_of_release st t m u Hheld). destruct (Nat.eqb t u) eqn:E; [apply Nat.eqb_eq in E; congruence|reflexivity].
    + cbn [t_rem]. rewrite (held_of_release st t m t Hheld). rewrite Nat.eqb_refl. exact Hd.
  - (* SkipIf *)
    apply andb_true_iff in Hd. destruct Hd as [Hd Hd3]. apply andb_true_iff in Hd. destruct Hd as [Hd1 Hd2].
    cbn [fst snd]. split; [|evs].
    dstep. cbn [t_rem].
    destruct (Bool.eqb (flag (t_reg ts)) b); [|exact Hd3].
    destruct (disc_block (held_of st t) (firstn n rest)) as [h'|] eqn:Hb; [|discriminate].
    apply held_eqb_eq in Hd2. subst h'. apply (disc_skip n rest _ _ Hb); [apply Nat.leb_le; exact Hd1|exact Hd3].
  - (* DictInsFind *)
    apply andb_true_iff in Hd. destruct Hd as [Hheld Hd]. rewrite hget_held_of in Hheld. rewrite Hheld. cbn [fst snd].
    split; [|evs].
    destruct (negb (s_dict st s =? 0)); dstep.
  - (* DictInsBump *)
    apply andb_true_iff in Hd. destruct Hd as [Hheld Hd]. rewrite hget_held_of in Hheld. rewrite Hheld. cbn [fst snd].
    split; [|evs].
    destruct (flag (t_reg ts)); dstep.
  - (* DictRemFind *)
    apply andb_true_iff in Hd. destruct Hd as [Hheld Hd]. rewrite hget_held_of in Hheld. rewrite Hheld. cbn [fst snd].
    split; [|evs].
    dstep.
  - (* DictRemDec *)
    apply andb_true_iff in Hd. destruct Hd as [Hheld Hd]. rewrite hget_held_of in Hheld. rewrite Hheld.
    destruct (flag (t_reg ts)); cbn [fst snd].
    + split; [|evs].
      dstep.
    + split; [|evs].
      dstep.
  - (* ErrFind *)
    apply andb_true_iff in Hd. destruct Hd as [Hheld Hd]. rewrite hget_held_of in Hheld. rewrite Hheld. cbn [fst snd].
    split; [|evs].
    dstep.
  - (* ErrInsert *)
    apply andb_true_iff in Hd. destruct Hd as [Hheld Hd]. rewrite hget_held_of in Hheld. rewrite Hheld.
    destruct (find_rec (s_erecs st) t 0).
    + cbn [fst snd]. split; [|evs].
      dstep.
    + destruct (err_resize (s_egen st) (s_esize st) (s_emode st) (N.of_nat (length (s_erecs st ++ [(t, [])])))) as [[g sz] md].
      cbn [fst snd]. split; [|evs].
      dstep.
  - (* ErrWrite *)
    destruct (t_reg ts) as [| |[p|]|]; try (cbn [fst snd]; split; [dstep|evs]).
    destruct (p_gen p =? s_egen st); [destruct (nth_error (s_erecs st) (p_idx p))|]; cbn [fst snd];
      (split; [dstep|]); evs.
  - (* ErrRead *)
    destruct (t_reg ts) as [| |[p|]|]; try (cbn [fst snd]; split; [dstep|evs]).
    destruct (p_gen p =? s_egen st); [destruct (nth_error (s_erecs st) (p_idx p))|]; cbn [fst snd];
      (split; [dstep|]); evs.
  - (* ErrClear *)
    destruct (t_reg ts) as [| |[p|]|]; try (cbn [fst snd]; split; [dstep|evs]).
    destruct (p_gen p =? s_egen st); [destruct (nth_error (s_erecs st) (p_idx p))|]; cbn [fst snd];
      (split; [dstep|]); evs.
  - cbn [fst snd]. split; [dstep|evs].
  - cbn [fst snd]. split; [dstep|evs].
  - cbn [fst snd]. split; [dstep|evs].
  - cbn [fst snd]. split; [dstep|evs].
  - (* HashFill *)
    apply andb_true_iff in Hd. destruct Hd as [Hheld Hd]. rewrite hget_held_of in Hheld. rewrite Hheld. cbn [fst snd].
    split; [|evs].
    dstep.
  - cbn [fst snd]. split; [dstep|evs].
  - cbn [fst snd]. split; [dstep|evs].
  - cbn [fst snd]. split; [dstep|evs].
Qed.

Lemma disc_inv_init d0 progs :
  (forall p, In p progs -> disc (false, false) p = true) -> disc_inv (init d0 progs).
Proof.
  intros H t ts Ht. cbn [init s_thr] in Ht. unfold held_of, holds. cbn.
  destruct (nth_error progs t) as [p|] eqn:Hp.
  - rewrite (map_nth_error _ _ _ Hp) in Ht. inversion Ht; subst. cbn. apply H. eapply nth_error_In; exact Hp.
  - apply nth_error_None in Hp. assert (Hn : nth_error (map (fun p => mkT p RNone 0) progs) t = None).
    { apply nth_error_None. rewrite map_length. exact Hp. }
    rewrite Hn in Ht. discriminate.
Qed.

Theorem lock_discipline d0 progs sched :
  (forall p, In p progs -> disc (false, false) p = true) ->
  forall t e, In (t, e) (snd (run sched (init d0 progs))) -> good_event e.
Proof.
  intros H.
  destruct (run_invariant disc_inv (fun _ e => good_event e) exec_disc sched (init d0 progs) (disc_inv_init d0 progs H))
    as [_ HG]. exact HG.
Qed.

Lemma disc_api o q : disc (false, false) q = true -> disc (false, false) (p_api o ++ q) = true.
Proof. intro H. destruct o; cbn; rewrite H; reflexivity. Qed.

Lemma compile_disc ops : disc (false, false) (compile ops) = true.
Proof.
  induction ops as [|o ops IH]; [reflexivity|]. unfold compile in *. cbn [map concat]. apply disc_api. exact IH.
Qed.

Lemma disc_dop o q : disc (false, false) q = true -> disc (false, false) (p_dop o ++ q) = true.
Proof. intro H. destruct o; cbn; rewrite H; reflexivity. Qed.

Lemma dprog_disc ops : disc (false, false) (dprog ops) = true.
Proof.
  induction ops as [|o ops IH]; [reflexivity|]. unfold dprog in *. cbn [map concat]. apply disc_dop. exact IH.
Qed.
