(* HashTableP.v - proofs about HashTable.v: representation invariant, abstraction to a finite
   multimap with per-bucket FIFO order, simulation of every operation (DESIGN Appendix C.3). *)
From LY Require Import Base HashTable.
From LY.Gen Require Import Consts.
From Coq Require Import ZifyBool ZifyNat ZifyN Permutation.
Local Open Scope N_scope.

(* ------------------------------------------------------------------------------------------ *)
(* lists, rd / wr                                                                             *)
(* ------------------------------------------------------------------------------------------ *)
Lemma upd_length {A} (l : list A) n x : length (upd l n x) = length l.
Proof. revert n; induction l as [|y l IH]; intros [|n]; cbn; auto. Qed.

Lemma nth_error_upd_eq {A} (l : list A) n x :
  (n < length l)%nat -> nth_error (upd l n x) n = Some x.
Proof.
  revert n; induction l as [|y l IH]; intros [|n] H; cbn in *; try lia; auto.
  apply IH; lia.
Qed.

Lemma nth_error_upd_neq {A} (l : list A) n m x :
  n <> m -> nth_error (upd l n x) m = nth_error l m.
Proof.
  revert n m; induction l as [|y l IH]; intros [|n] [|m] H; cbn; auto; try congruence.
Qed.

Lemma upd_map {A B} (f : A -> B) l n x : map f (upd l n x) = upd (map f l) n (f x).
Proof. revert n; induction l as [|y l IH]; intros [|n]; cbn; auto. now rewrite IH. Qed.

Lemma upd_same {A} (l : list A) n x : nth_error l n = Some x -> upd l n x = l.
Proof.
  revert n; induction l as [|y l IH]; intros [|n] H; cbn in *; try discriminate; auto.
  - congruence.
  - now rewrite IH.
Qed.

Lemma nth_upd_eq {A} (l : list A) n x d : (n < length l)%nat -> nth n (upd l n x) d = x.
Proof.
  intro H. apply nth_error_nth. now apply nth_error_upd_eq.
Qed.

Lemma nth_upd_neq {A} (l : list A) n m x d : n <> m -> nth m (upd l n x) d = nth m l d.
Proof.
  revert n m; induction l as [|y l IH]; intros [|n] [|m] H; cbn; auto; try congruence.
Qed.

Lemma nth_error_nth' {A} (l : list A) n x d : nth_error l n = Some x -> nth n l d = x.
Proof. apply nth_error_nth. Qed.

Lemma rd_Ok {A} (l : list A) i x : rd l i = Ok x <-> nth_error l (N.to_nat i) = Some x.
Proof.
  unfold rd. destruct (nth_error l (N.to_nat i)) as [y|]; split; intro H; try discriminate; congruence.
Qed.

Lemma rd_lt {A} (l : list A) i : (N.to_nat i < length l)%nat -> exists x, rd l i = Ok x.
Proof.
  intro H. unfold rd. destruct (nth_error l (N.to_nat i)) as [y|] eqn:E; [eauto|].
  apply nth_error_None in E. lia.
Qed.

Lemma wr_Ok {A} (l : list A) i x :
  (N.to_nat i < length l)%nat -> wr l i x = Ok (upd l (N.to_nat i) x).
Proof.
  intro H. unfold wr. destruct (N.to_nat i <? length l)%nat eqn:E; [reflexivity|].
  apply Nat.ltb_ge in E. lia.
Qed.

Lemma wr_inv {A} (l : list A) i x l' :
  wr l i x = Ok l' -> (N.to_nat i < length l)%nat /\ l' = upd l (N.to_nat i) x.
Proof.
  unfold wr. destruct (N.to_nat i <? length l)%nat eqn:E; [|discriminate].
  apply Nat.ltb_lt in E. intro H. inversion H. auto.
Qed.

Lemma concat_upd_perm {A} (cs : list (list A)) b l x :
  nth_error cs b = Some l -> Permutation (concat (upd cs b (l ++ [x]))) (x :: concat cs).
Proof.
  revert b; induction cs as [|c cs IH]; intros [|b] H; cbn in *; try discriminate.
  - inversion H; subst. rewrite <- app_assoc. cbn.
    apply Permutation_sym. apply Permutation_middle.
  - specialize (IH _ H). rewrite IH. apply Permutation_sym, Permutation_middle.
Qed.

Lemma concat_upd_remove_perm {A} (cs : list (list A)) b l1 x l2 :
  nth_error cs b = Some (l1 ++ x :: l2) ->
  Permutation (x :: concat (upd cs b (l1 ++ l2))) (concat cs).
Proof.
  revert b; induction cs as [|c cs IH]; intros [|b] H; cbn in *; try discriminate.
  - inversion H; subst. rewrite <- !app_assoc. cbn. apply Permutation_middle.
  - specialize (IH _ H). rewrite <- IH. apply Permutation_middle.
Qed.

Lemma In_concat_nth {A} (cs : list (list A)) b l i :
  nth_error cs b = Some l -> In i l -> In i (concat cs).
Proof.
  intros H Hi. apply in_concat. exists l. split; [|exact Hi]. eapply nth_error_In; eauto.
Qed.

Lemma find_split {A} (f : A -> bool) l x :
  find f l = Some x -> exists l1 l2, l = l1 ++ x :: l2 /\ f x = true /\ forallb (fun y => negb (f y)) l1 = true.
Proof.
  induction l as [|y l IH]; cbn; [discriminate|].
  destruct (f y) eqn:E; intro H.
  - inversion H; subst. exists [], l. auto.
  - destruct (IH H) as (l1 & l2 & -> & Hx & Hl). exists (y :: l1), l2. cbn. rewrite E. auto.
Qed.

Lemma NoDup_app_l {A} (l1 l2 : list A) : NoDup (l1 ++ l2) -> NoDup l1.
Proof.
  induction l1 as [|x l1 IH]; cbn; intro H; [constructor|]. inversion H; subst.
  constructor; [|auto]. intro Hx. apply H2. apply in_or_app. now left.
Qed.

Lemma NoDup_app_r {A} (l1 l2 : list A) : NoDup (l1 ++ l2) -> NoDup l2.
Proof. induction l1 as [|x l1 IH]; cbn; intro H; [exact H|]. inversion H; auto. Qed.

Lemma NoDup_app_disj {A} (l1 l2 : list A) x : NoDup (l1 ++ l2) -> In x l1 -> In x l2 -> False.
Proof.
  induction l1 as [|y l1 IH]; cbn; intros H H1 H2; [contradiction|]. inversion H; subst.
  destruct H1 as [->|H1]; [|eauto]. apply H4. apply in_or_app. now right.
Qed.

Lemma last_cons_default {A} (l : list A) x d d' : last (x :: l) d = last (x :: l) d'.
Proof. revert x; induction l as [|y l IH]; intro x; [reflexivity|]. cbn [last] in *. apply IH. Qed.

Lemma find_none_existsb {A} (f : A -> bool) l : find f l = None <-> existsb f l = false.
Proof.
  induction l as [|y l IH]; cbn; [tauto|]. destruct (f y); cbn; [split; discriminate|exact IH].
Qed.

Lemma find_some_existsb {A} (f : A -> bool) l x : find f l = Some x -> existsb f l = true.
Proof.
  intro H. destruct (existsb f l) eqn:E; [reflexivity|]. apply find_none_existsb in E. congruence.
Qed.

(* ------------------------------------------------------------------------------------------ *)
(* chains of records                                                                           *)
(* ------------------------------------------------------------------------------------------ *)
Section P.
Variable V : Type.
Variable vdef : V.
Variable veq : bool -> V -> V -> bool.
Notation ht := (ht V).
Notation hrec := (hrec V).

Definition nxt (recs : list hrec) (i : N) : option N :=
  option_map r_next (nth_error recs (N.to_nat i)).
Definition ent (recs : list hrec) (i : N) : N * V :=
  match nth_error recs (N.to_nat i) with Some r => (r_hash r, r_val r) | None => (0, vdef) end.
Definition ematch (eq : V -> bool) (h : N) (e : N * V) : bool := (fst e =? h) && eq (snd e).

(* [is_chain recs a l z]: following next from index a visits exactly the indices l and ends in z *)
Fixpoint is_chain (recs : list hrec) (a : N) (l : list N) (z : N) : Prop :=
  match l with
  | [] => a = z
  | i :: l' => a = i /\ exists n, nxt recs i = Some n /\ is_chain recs n l' z
  end.

Lemma rd_nxt recs i r : rd recs i = Ok r -> nxt recs i = Some (r_next r).
Proof. intro H. apply rd_Ok in H. unfold nxt. now rewrite H. Qed.

Lemma rd_ent recs i r : rd recs i = Ok r -> ent recs i = (r_hash r, r_val r).
Proof. intro H. apply rd_Ok in H. unfold ent. now rewrite H. Qed.

Lemma nxt_rd recs i n : nxt recs i = Some n -> exists r, rd recs i = Ok r /\ r_next r = n.
Proof.
  unfold nxt, rd. destruct (nth_error recs (N.to_nat i)) as [r|]; cbn; [|discriminate].
  intro H. inversion H. eauto.
Qed.

Lemma nxt_lt recs i n : nxt recs i = Some n -> (N.to_nat i < length recs)%nat.
Proof.
  unfold nxt. destruct (nth_error recs (N.to_nat i)) eqn:E; cbn; [|discriminate].
  intros _. apply nth_error_Some. congruence.
Qed.

Lemma nxt_upd_neq recs i j x : i <> j -> nxt (upd recs (N.to_nat j) x) i = nxt recs i.
Proof. intro H. unfold nxt. rewrite nth_error_upd_neq; [reflexivity|lia]. Qed.

Lemma nxt_upd_eq recs j x :
  (N.to_nat j < length recs)%nat -> nxt (upd recs (N.to_nat j) x) j = Some (r_next x).
Proof. intro H. unfold nxt. now rewrite nth_error_upd_eq. Qed.

Lemma ent_upd_neq recs i j x : i <> j -> ent (upd recs (N.to_nat j) x) i = ent recs i.
Proof. intro H. unfold ent. rewrite nth_error_upd_neq; [reflexivity|lia]. Qed.

Lemma ent_upd_eq recs j x :
  (N.to_nat j < length recs)%nat -> ent (upd recs (N.to_nat j) x) j = (r_hash x, r_val x).
Proof. intro H. unfold ent. now rewrite nth_error_upd_eq. Qed.

Lemma is_chain_app recs a l1 l2 z :
  is_chain recs a (l1 ++ l2) z <-> exists m, is_chain recs a l1 m /\ is_chain recs m l2 z.
Proof.
  revert a; induction l1 as [|i l1 IH]; intro a; cbn.
  - split; [intro H; exists a; auto|intros (m & -> & H); exact H].
  - split.
    + intros (-> & n & Hn & H). apply IH in H. destruct H as (m & H1 & H2).
      exists m. split; [|exact H2]. split; [reflexivity|]. exists n. auto.
    + intros (m & (-> & n & Hn & H1) & H2). split; [reflexivity|]. exists n. split; [exact Hn|].
      apply IH. exists m. auto.
Qed.

Lemma is_chain_ext recs recs' a l z :
  (forall i, In i l -> nxt recs' i = nxt recs i) -> is_chain recs a l z -> is_chain recs' a l z.
Proof.
  revert a; induction l as [|i l IH]; intros a Hx; cbn; [auto|].
  intros (-> & n & Hn & H). split; [reflexivity|]. exists n. split.
  - rewrite Hx; [exact Hn|now left].
  - apply IH; [|exact H]. intros j Hj. apply Hx. now right.
Qed.

Lemma is_chain_head_ne recs a l z : is_chain recs a l z -> a <> z -> exists i l', l = i :: l' /\ a = i.
Proof.
  destruct l as [|i l']; cbn; [congruence|]. intros (-> & _) _. eauto.
Qed.

Lemma is_chain_bound recs a l z : is_chain recs a l z -> Forall (fun i => (N.to_nat i < length recs)%nat) l.
Proof.
  revert a; induction l as [|i l IH]; intros a; cbn; [constructor|].
  intros (-> & n & Hn & H). constructor; [eapply nxt_lt; eauto|eapply IH; eauto].
Qed.

(* ---- the loops of the C code along a chain ---- *)
Lemma find_loop_chain recs eq h : forall l fuel a,
  is_chain recs a l NOREC -> Forall (fun i => i <> NOREC) l -> (length l < fuel)%nat ->
  find_loop fuel recs eq h a = Ok (find (fun i => ematch eq h (ent recs i)) l).
Proof.
  induction l as [|i l IH]; intros fuel a Hc Hn Hf; destruct fuel as [|f]; cbn in Hf; try lia; cbn in Hc.
  - subst a. cbn. reflexivity.
  - destruct Hc as (-> & n & Hnx & Hc). inversion Hn as [|? ? Hi Hn']; subst.
    cbn [find_loop find]. apply N.eqb_neq in Hi. rewrite Hi.
    destruct (nxt_rd _ _ _ Hnx) as (r & Hr & Hrn). rewrite Hr. cbn [bind].
    rewrite (rd_ent _ _ _ Hr). unfold ematch at 1. cbn [fst snd].
    destruct ((r_hash r =? h) && eq (r_val r)); [reflexivity|].
    rewrite Hrn. apply IH; auto. lia.
Qed.

Lemma collect_chain_chain recs : forall l fuel a,
  is_chain recs a l NOREC -> Forall (fun i => i <> NOREC) l -> (length l < fuel)%nat ->
  collect_chain fuel recs a = Ok (map (ent recs) l).
Proof.
  induction l as [|i l IH]; intros fuel a Hc Hn Hf; destruct fuel as [|f]; cbn in Hf; try lia; cbn in Hc.
  - subst a. reflexivity.
  - destruct Hc as (-> & n & Hnx & Hc). inversion Hn as [|? ? Hi Hn']; subst.
    cbn [collect_chain map]. apply N.eqb_neq in Hi. rewrite Hi.
    destruct (nxt_rd _ _ _ Hnx) as (r & Hr & Hrn). rewrite Hr. cbn [bind].
    rewrite Hrn, (IH f n Hc Hn') by lia. cbn [bind]. now rewrite (rd_ent _ _ _ Hr).
Qed.

Definition next_result (o : option (N * V)) : N * option V :=
  match o with Some e => (LY_ERR_SUCCESS, Some (snd e)) | None => (LY_ERR_ENOTFOUND, None) end.

Lemma next_loop_chain recs eq h : forall l fuel a,
  is_chain recs a l NOREC -> Forall (fun i => i <> NOREC) l -> (length l < fuel)%nat ->
  next_loop fuel recs eq h a = Ok (next_result (find (ematch eq h) (map (ent recs) l))).
Proof.
  induction l as [|i l IH]; intros fuel a Hc Hn Hf; destruct fuel as [|f]; cbn in Hf; try lia; cbn in Hc.
  - subst a. reflexivity.
  - destruct Hc as (-> & n & Hnx & Hc). inversion Hn as [|? ? Hi Hn']; subst.
    cbn [next_loop map find]. apply N.eqb_neq in Hi. rewrite Hi.
    destruct (nxt_rd _ _ _ Hnx) as (r & Hr & Hrn). rewrite Hr. cbn [bind].
    rewrite (rd_ent _ _ _ Hr). unfold ematch at 1. cbn [fst snd].
    rewrite Hrn.
    destruct (r_hash r =? h); cbn [negb andb].
    + destruct (eq (r_val r)); [reflexivity|]. apply IH; auto. lia.
    + apply IH; auto. lia.
Qed.

Lemma prev_loop_chain recs x : forall l1 l2 fuel a p0,
  is_chain recs a (l1 ++ x :: l2) NOREC -> ~ In x l1 -> x <> NOREC ->
  Forall (fun i => i <> NOREC) l1 -> (length l1 < fuel)%nat ->
  prev_loop fuel recs a x p0 = Ok (last l1 p0).
Proof.
  induction l1 as [|i l1 IH]; intros l2 fuel a p0 Hc Hx Hxn Hn Hf; destruct fuel as [|f]; cbn in Hf; try lia.
  - cbn in Hc. destruct Hc as (-> & _). cbn [prev_loop app last].
    apply N.eqb_neq in Hxn. rewrite Hxn, N.eqb_refl. reflexivity.
  - cbn in Hc. destruct Hc as (-> & n & Hnx & Hc). inversion Hn as [|? ? Hi Hn']; subst.
    cbn [prev_loop]. apply N.eqb_neq in Hi. rewrite Hi.
    assert (Hix : i <> x) by (intro; subst; apply Hx; now left).
    apply N.eqb_neq in Hix. rewrite Hix.
    destruct (nxt_rd _ _ _ Hnx) as (r & Hr & Hrn). rewrite Hr. cbn [bind]. rewrite Hrn.
    rewrite (IH l2 f n i Hc); auto; try lia.
    + destruct l1 as [|j l1]; [reflexivity|]. f_equal.
      change (last (i :: j :: l1) p0) with (last (j :: l1) p0). apply last_cons_default.
    + intro H. apply Hx. now right.
Qed.

(* ------------------------------------------------------------------------------------------ *)
(* representation invariant (DESIGN C.3) with explicit witnesses: cs = the chains of the       *)
(* buckets in bucket order, fl = the free list                                                 *)
(* ------------------------------------------------------------------------------------------ *)
Definition bucket_ok (t : ht) (b : nat) (hl : hlist) (l : list N) : Prop :=
  is_chain (ht_recs t) (hl_first hl) l NOREC /\ hl_last hl = last l NOREC /\
  Forall (fun i => N.land (fst (ent (ht_recs t) i)) (ht_size t - 1) = N.of_nat b) l.

Record Rep (t : ht) (cs : list (list N)) (fl : list N) : Prop := mkRep {
  rep_pow : exists k, k <= 31 /\ ht_size t = 2 ^ k;
  rep_min : LYHT_MIN_SIZE <= ht_size t;
  rep_lr : length (ht_recs t) = N.to_nat (ht_size t);
  rep_lh : length (ht_hl t) = N.to_nat (ht_size t);
  rep_lc : length cs = N.to_nat (ht_size t);
  rep_nodup : NoDup (concat cs ++ fl);
  rep_lt : Forall (fun i => i < ht_size t) (concat cs ++ fl);
  rep_all : length (concat cs ++ fl) = N.to_nat (ht_size t);
  rep_bk : forall b hl l, nth_error (ht_hl t) b = Some hl -> nth_error cs b = Some l ->
                          bucket_ok t b hl l;
  rep_fl : is_chain (ht_recs t) (ht_ff t) fl (ht_size t);
  rep_used : ht_used t = N.of_nat (length (concat cs))
}.

Lemma pow2_le_31 k : k <= 31 -> 2 ^ k <= 2147483648.
Proof. intro H. change 2147483648 with (2 ^ 31). apply N.pow_le_mono_r; lia. Qed.

Lemma Rep_size_bounds t cs fl : Rep t cs fl -> 1 <= ht_size t <= 2147483648.
Proof.
  intros R. destruct (rep_pow _ _ _ R) as (k & Hk & Hs). rewrite Hs. split.
  - assert (2 ^ k <> 0) by (apply N.pow_nonzero; lia). lia.
  - now apply pow2_le_31.
Qed.

Lemma land_mask_lt h k : N.land h (2 ^ k - 1) < 2 ^ k.
Proof.
  rewrite N.sub_1_r, <- N.ones_equiv, N.land_ones. apply N.mod_lt. apply N.pow_nonzero. lia.
Qed.

Lemma Rep_bucket t cs fl h : Rep t cs fl ->
  bucket t h = N.land h (ht_size t - 1) /\ bucket t h < ht_size t.
Proof.
  intro R. pose proof (Rep_size_bounds _ _ _ R) as Hb.
  destruct (rep_pow _ _ _ R) as (k & Hk & Hs).
  unfold bucket. replace ((ht_size t + U32 - 1) mod U32) with (ht_size t - 1).
  - split; [reflexivity|]. rewrite Hs. apply land_mask_lt.
  - unfold U32 in *. replace (ht_size t + 4294967296 - 1) with (ht_size t - 1 + 1 * 4294967296) by lia.
    rewrite N.mod_add by lia. symmetry. apply N.mod_small. lia.
Qed.

Lemma Rep_nth t cs fl b : Rep t cs fl -> (b < N.to_nat (ht_size t))%nat ->
  exists hl l, nth_error (ht_hl t) b = Some hl /\ nth_error cs b = Some l /\ bucket_ok t b hl l.
Proof.
  intros R Hb.
  destruct (nth_error (ht_hl t) b) as [hl|] eqn:E1.
  2:{ apply nth_error_None in E1. rewrite (rep_lh _ _ _ R) in E1. lia. }
  destruct (nth_error cs b) as [l|] eqn:E2.
  2:{ apply nth_error_None in E2. rewrite (rep_lc _ _ _ R) in E2. lia. }
  exists hl, l. repeat split; auto; eapply rep_bk; eauto.
Qed.

Lemma Rep_in_cs_lt t cs fl i : Rep t cs fl -> In i (concat cs) -> i < ht_size t.
Proof.
  intros R Hi. pose proof (rep_lt _ _ _ R) as H. rewrite Forall_forall in H. apply H.
  apply in_or_app. now left.
Qed.

Lemma Rep_in_fl_lt t cs fl i : Rep t cs fl -> In i fl -> i < ht_size t.
Proof.
  intros R Hi. pose proof (rep_lt _ _ _ R) as H. rewrite Forall_forall in H. apply H.
  apply in_or_app. now right.
Qed.

Lemma Rep_chain_ne t cs fl b l : Rep t cs fl -> nth_error cs b = Some l ->
  Forall (fun i => i <> NOREC) l /\ (length l < S (length (ht_recs t)))%nat /\ NoDup l /\
  Forall (fun i => i < ht_size t) l.
Proof.
  intros R Hl. pose proof (Rep_size_bounds _ _ _ R) as Hb.
  assert (Hlt : Forall (fun i => i < ht_size t) l).
  { apply Forall_forall. intros i Hi. eapply Rep_in_cs_lt; eauto. eapply In_concat_nth; eauto. }
  assert (Hnd : NoDup l).
  { pose proof (rep_nodup _ _ _ R) as H. apply NoDup_app_l in H.
    clear - H Hl. revert b Hl H. induction cs as [|c cs IH]; intros [|b] Hl H; cbn in *; try discriminate.
    - inversion Hl; subst. now apply NoDup_app_l in H.
    - apply NoDup_app_r in H. eauto. }
  repeat split; auto.
  - eapply Forall_impl; [|exact Hlt]. cbn. intros i Hi. unfold NOREC. lia.
  - apply NoDup_incl_length with (l' := map N.of_nat (seq 0 (length (ht_recs t)))) in Hnd.
    + rewrite map_length, seq_length in Hnd. lia.
    + intros i Hi. rewrite Forall_forall in Hlt. specialize (Hlt _ Hi).
      apply in_map_iff. exists (N.to_nat i). split; [lia|]. apply in_seq.
      rewrite (rep_lr _ _ _ R). lia.
Qed.

(* ------------------------------------------------------------------------------------------ *)
(* the abstract table: resize state + the buckets as lists of (hash, value) in chain order     *)
(* ------------------------------------------------------------------------------------------ *)
Record amm := mkamm { a_rz : N; a_bk : list (list (N * V)) }.
Definition a_size (m : amm) : N := N.of_nat (length (a_bk m)).
Definition a_used (m : amm) : N := N.of_nat (length (concat (a_bk m))).
Definition a_bucket (m : amm) (h : N) : nat := N.to_nat (N.land h (a_size m - 1)).
Definition a_row (m : amm) (h : N) : list (N * V) := nth (a_bucket m h) (a_bk m) [].
Definition a_pct (used size : N) : N := ((used * LYHT_HUNDRED_PERCENTAGE) mod U32) / size.

Definition abs (t : ht) (cs : list (list N)) : amm :=
  mkamm (ht_resize t) (map (map (ent (ht_recs t))) cs).

(* suffix after the first element satisfying f *)
Fixpoint after_first {A} (f : A -> bool) (l : list A) : option (list A) :=
  match l with
  | [] => None
  | x :: l' => if f x then Some l' else after_first f l'
  end.

Fixpoint remove_first {A} (f : A -> bool) (l : list A) : list A :=
  match l with
  | [] => []
  | x :: l' => if f x then l' else x :: remove_first f l'
  end.

Definition a_find (m : amm) (eq : V -> bool) (h : N) : option (N * V) := find (ematch eq h) (a_row m h).

Definition a_lyht_find (m : amm) (h : N) (v : V) : N * option V :=
  match a_find m (veq false v) h with
  | None => (LY_ERR_ENOTFOUND, None)
  | Some e => (LY_ERR_SUCCESS, Some (snd e))
  end.

Definition a_find_next (m : amm) (cb : option (bool -> V -> V -> bool)) (h : N) (v : V) : N * option V :=
  let eq := match cb with Some c => c | None => veq end in
  match after_first (ematch (eq true v) h) (a_row m h) with
  | None => (LY_EINT, None)
  | Some l2 => next_result (find (ematch (eq false v) h) l2)
  end.

Definition a_insert_with (agrow : amm -> bool -> res amm) (m : amm) (check wm : bool) (h : N) (v : V)
  : res (N * amm) :=
  if check && existsb (ematch (veq true v) h) (a_row m h) then Ok (LY_ERR_EEXIST, m)
  else if negb (a_used m <? a_size m) then Err E_ABORT
  else
    let bk1 := upd (a_bk m) (a_bucket m h) (a_row m h ++ [(h, v)]) in
    if a_rz m =? 0 then Ok (LY_ERR_SUCCESS, mkamm (a_rz m) bk1)
    else
      let r := a_pct (a_used m + 1) (a_size m) in
      let rz := if (a_rz m =? 1) && (LYHT_FIRST_SHRINK_PERCENTAGE <=? r) then 2 else a_rz m in
      if (rz =? 2) && (LYHT_ENLARGE_PERCENTAGE <=? r) then
        bind (agrow (mkamm rz bk1) check) (fun m3 =>
          if wm && negb (existsb (ematch (veq false v) h) (a_row m3 h)) then Err E_ABORT
          else Ok (LY_ERR_SUCCESS, m3))
      else Ok (LY_ERR_SUCCESS, mkamm rz bk1).

Fixpoint a_reinsert (ins : amm -> N -> V -> res (N * amm)) (m : amm) (es : list (N * V)) : res amm :=
  match es with
  | [] => Ok m
  | e :: es' =>
      bind (ins m (fst e) (snd e)) (fun x =>
        if fst x =? LY_ERR_SUCCESS then a_reinsert ins (snd x) es' else Err E_ABORT)
  end.

Definition a_insert_inner (m : amm) (check : bool) (h : N) (v : V) : res (N * amm) :=
  a_insert_with (fun _ _ => Err E_FUEL) m check false h v.

Definition a_resize (m : amm) (op : rop) (check : bool) : res amm :=
  a_reinsert (fun m' => a_insert_inner m' check)
             (mkamm (a_rz m) (repeat [] (N.to_nat (new_size (a_size m) op)))) (concat (a_bk m)).

Definition a_insert (m : amm) (check wm : bool) (h : N) (v : V) : res (N * amm) :=
  a_insert_with (fun m' c => a_resize m' Enlarge c) m check wm h v.

Definition a_remove (m : amm) (h : N) (v : V) : res (N * amm) :=
  if negb (existsb (ematch (veq true v) h) (a_row m h)) then Ok (LY_ERR_ENOTFOUND, m)
  else
    let bk1 := upd (a_bk m) (a_bucket m h) (remove_first (ematch (veq true v) h) (a_row m h)) in
    let m1 := mkamm (a_rz m) bk1 in
    if (a_rz m =? 2) && (a_pct (a_used m - 1) (a_size m) <? LYHT_SHRINK_PERCENTAGE)
       && (LYHT_MIN_SIZE <? a_size m)
    then bind (a_resize m1 Shrink true) (fun m2 => Ok (LY_ERR_SUCCESS, m2))
    else Ok (LY_ERR_SUCCESS, m1).

(* ---- facts relating a table with its abstraction ---- *)
Lemma abs_size t cs fl : Rep t cs fl -> a_size (abs t cs) = ht_size t.
Proof. intro R. unfold a_size, abs. cbn. rewrite map_length, (rep_lc _ _ _ R). lia. Qed.

Lemma concat_map_map {A B} (f : A -> B) (cs : list (list A)) :
  concat (map (map f) cs) = map f (concat cs).
Proof. induction cs as [|c cs IH]; cbn; [reflexivity|]. now rewrite map_app, IH. Qed.

Lemma abs_used t cs fl : Rep t cs fl -> a_used (abs t cs) = ht_used t.
Proof.
  intro R. unfold a_used, abs. cbn. rewrite concat_map_map, map_length. symmetry. apply (rep_used _ _ _ R).
Qed.

Lemma abs_bucket t cs fl h : Rep t cs fl -> a_bucket (abs t cs) h = N.to_nat (bucket t h).
Proof.
  intro R. unfold a_bucket. rewrite (abs_size _ _ _ R). destruct (Rep_bucket _ _ _ h R) as [-> _]. reflexivity.
Qed.

Lemma abs_row t cs fl h : Rep t cs fl ->
  exists hl l, nth_error (ht_hl t) (N.to_nat (bucket t h)) = Some hl /\
               nth_error cs (N.to_nat (bucket t h)) = Some l /\
               bucket_ok t (N.to_nat (bucket t h)) hl l /\
               a_row (abs t cs) h = map (ent (ht_recs t)) l.
Proof.
  intro R. destruct (Rep_bucket _ _ _ h R) as [_ Hlt].
  destruct (Rep_nth _ _ _ (N.to_nat (bucket t h)) R) as (hl & l & H1 & H2 & H3); [lia|].
  exists hl, l. split; [exact H1|]. split; [exact H2|]. split; [exact H3|].
  unfold a_row. rewrite (abs_bucket _ _ _ _ R). unfold abs. cbn.
  apply nth_error_nth. rewrite nth_error_map, H2. reflexivity.
Qed.

Lemma find_map {A B} (f : A -> B) (p : B -> bool) l :
  find p (map f l) = option_map f (find (fun x => p (f x)) l).
Proof. induction l as [|x l IH]; cbn; [reflexivity|]. destruct (p (f x)); auto. Qed.

Lemma existsb_map {A B} (f : A -> B) (p : B -> bool) l : existsb p (map f l) = existsb (fun x => p (f x)) l.
Proof. induction l as [|x l IH]; cbn; [reflexivity|]. now rewrite IH. Qed.

(* lyht_find_rec() returns the first index of the bucket's chain whose record matches *)
Lemma find_rec_sim t cs fl eq h : Rep t cs fl ->
  exists hl l, nth_error (ht_hl t) (N.to_nat (bucket t h)) = Some hl /\
               nth_error cs (N.to_nat (bucket t h)) = Some l /\
               bucket_ok t (N.to_nat (bucket t h)) hl l /\
               a_row (abs t cs) h = map (ent (ht_recs t)) l /\
               find_rec t eq h = Ok (find (fun i => ematch eq h (ent (ht_recs t) i)) l).
Proof.
  intro R. destruct (abs_row _ _ _ h R) as (hl & l & H1 & H2 & H3 & H4).
  exists hl, l. split; [exact H1|]. split; [exact H2|]. split; [exact H3|]. split; [exact H4|].
  unfold find_rec. apply rd_Ok in H1. rewrite H1. cbn [bind].
  destruct H3 as (Hc & _ & _).
  destruct (Rep_chain_ne _ _ _ _ _ R H2) as (Hne & Hlen & _).
  apply find_loop_chain; auto.
Qed.

Theorem lyht_find_sim t cs fl h v : Rep t cs fl ->
  lyht_find veq t h v = Ok (a_lyht_find (abs t cs) h v).
Proof.
  intro R. destruct (find_rec_sim _ _ _ (veq false v) h R) as (hl & l & H1 & H2 & H3 & H4 & H5).
  unfold lyht_find, a_lyht_find, a_find. rewrite H5, H4, find_map. cbn [bind].
  destruct (find _ l) as [i|] eqn:E; cbn [option_map]; [|reflexivity].
  apply find_some in E. destruct E as [Hi _].
  destruct H3 as (Hc & _ & _). pose proof (is_chain_bound _ _ _ _ Hc) as Hb.
  rewrite Forall_forall in Hb. specialize (Hb _ Hi).
  destruct (rd_lt _ _ Hb) as (r & Hr). rewrite Hr. cbn [bind]. rewrite (rd_ent _ _ _ Hr). reflexivity.
Qed.
End P.
