(* HashTableP.v - proofs about HashTable.v (DESIGN Appendix C.3).
   Section P : representation invariant [Rep] with ghost witnesses (chains of the buckets, free list),
               abstraction [abs] to per-bucket lists, the functional versions (names a_...) of the operations, and
               for every operation a simulation theorem concrete result = abstract result + Rep preserved
               (lyht_find_sim, lyht_find_next_sim, insert_sim, lyht_remove_sim, lyht_resize_sim).
   Section A : facts about the abstract functions alone: shapes of their results, the only error is
               E_ABORT and why (a_insert_shape, a_remove_shape, a_resize_shape); sub-section AK: when the
               callback decides equality of a key and no two records share (hash, key) nothing fails
               (a_insert_keyed, a_remove_keyed) and the content changes as a finite set does.
   Then      : Rep_partition, operation sequences on the instance run by impl/t_ht.c (nht_run_sim,
               a_nrun_checked_total, a_nrun_lf, the nht_new_ theorems), lyht_dup_sim, pct_exact,
               set_val_sim (in-place update used by the dictionary). *)
From LY Require Import Base HashTable.
From LY.Gen Require Import Consts.
From Coq Require Import ZifyBool ZifyNat ZifyN Permutation.
Local Open Scope N_scope.

(* ------------------------------------------------------------------------------------------ *)
(* lists, rd / wr                                                                             *)
(* ------------------------------------------------------------------------------------------ *)
Lemma upd_length {A} (l : list A) n x : length (upd l n x) = length l.
Proof. revert n; induction l as [|y l IH]; intros [|n]; cbn; auto. Qed.

Lemma nth_error_upd_eq {A} (l : list A) n x :
  (n < length l)%nat -> nth_error (upd l n x) n = Some x.
Proof.
  revert n; induction l as [|y l IH]; intros [|n] H; cbn in *; try lia; auto.
  apply IH; lia.
Qed.

Lemma nth_error_upd_neq {A} (l : list A) n m x :
  n <> m -> nth_error (upd l n x) m = nth_error l m.
Proof.
  revert n m; induction l as [|y l IH]; intros [|n] [|m] H; cbn; auto; try congruence.
Qed.

Lemma upd_map {A B} (f : A -> B) l n x : map f (upd l n x) = upd (map f l) n (f x).
Proof. revert n; induction l as [|y l IH]; intros [|n]; cbn; auto. now rewrite IH. Qed.

Lemma upd_same {A} (l : list A) n x : nth_error l n = Some x -> upd l n x = l.
Proof.
  revert n; induction l as [|y l IH]; intros [|n] H; cbn in *; try discriminate; auto.
  - congruence.
  - now rewrite IH.
Qed.

Lemma nth_upd_eq {A} (l : list A) n x d : (n < length l)%nat -> nth n (upd l n x) d = x.
Proof.
  intro H. apply nth_error_nth. now apply nth_error_upd_eq.
Qed.

Lemma nth_upd_neq {A} (l : list A) n m x d : n <> m -> nth m (upd l n x) d = nth m l d.
Proof.
  revert n m; induction l as [|y l IH]; intros [|n] [|m] H; cbn; auto; try congruence.
Qed.

Lemma nth_error_nth' {A} (l : list A) n x d : nth_error l n = Some x -> nth n l d = x.
Proof. apply nth_error_nth. Qed.

Lemma rd_Ok {A} (l : list A) i x : rd l i = Ok x <-> nth_error l (N.to_nat i) = Some x.
Proof.
  unfold rd. destruct (nth_error l (N.to_nat i)) as [y|]; split; intro H; try discriminate; congruence.
Qed.

Lemma rd_lt {A} (l : list A) i : (N.to_nat i < length l)%nat -> exists x, rd l i = Ok x.
Proof.
  intro H. unfold rd. destruct (nth_error l (N.to_nat i)) as [y|] eqn:E; [eauto|].
  apply nth_error_None in E. lia.
Qed.

Lemma wr_Ok {A} (l : list A) i x :
  (N.to_nat i < length l)%nat -> wr l i x = Ok (upd l (N.to_nat i) x).
Proof.
  intro H. unfold wr. destruct (N.to_nat i <? length l)%nat eqn:E; [reflexivity|].
  apply Nat.ltb_ge in E. lia.
Qed.

Lemma wr_inv {A} (l : list A) i x l' :
  wr l i x = Ok l' -> (N.to_nat i < length l)%nat /\ l' = upd l (N.to_nat i) x.
Proof.
  unfold wr. destruct (N.to_nat i <? length l)%nat eqn:E; [|discriminate].
  apply Nat.ltb_lt in E. intro H. inversion H. auto.
Qed.

Lemma concat_upd_perm {A} (cs : list (list A)) b l x :
  nth_error cs b = Some l -> Permutation (concat (upd cs b (l ++ [x]))) (x :: concat cs).
Proof.
  revert b; induction cs as [|c cs IH]; intros [|b] H; cbn in *; try discriminate.
  - inversion H; subst. rewrite <- app_assoc. cbn.
    apply Permutation_sym. apply Permutation_middle.
  - specialize (IH _ H). rewrite IH. apply Permutation_sym, Permutation_middle.
Qed.

Lemma concat_upd_remove_perm {A} (cs : list (list A)) b l1 x l2 :
  nth_error cs b = Some (l1 ++ x :: l2) ->
  Permutation (x :: concat (upd cs b (l1 ++ l2))) (concat cs).
Proof.
  revert b; induction cs as [|c cs IH]; intros [|b] H; cbn in *; try discriminate.
  - inversion H; subst. rewrite <- !app_assoc. cbn. apply Permutation_middle.
  - specialize (IH _ H). rewrite <- IH. apply Permutation_middle.
Qed.

Lemma In_concat_nth {A} (cs : list (list A)) b l i :
  nth_error cs b = Some l -> In i l -> In i (concat cs).
Proof.
  intros H Hi. apply in_concat. exists l. split; [|exact Hi]. eapply nth_error_In; eauto.
Qed.

Lemma find_split {A} (f : A -> bool) l x :
  find f l = Some x -> exists l1 l2, l = l1 ++ x :: l2 /\ f x = true /\ forallb (fun y => negb (f y)) l1 = true.
Proof.
  induction l as [|y l IH]; cbn; [discriminate|].
  destruct (f y) eqn:E; intro H.
  - inversion H; subst. exists [], l. auto.
  - destruct (IH H) as (l1 & l2 & -> & Hx & Hl). exists (y :: l1), l2. cbn. rewrite E. auto.
Qed.

Lemma NoDup_app_l {A} (l1 l2 : list A) : NoDup (l1 ++ l2) -> NoDup l1.
Proof.
  induction l1 as [|x l1 IH]; cbn; intro H; [constructor|]. inversion H; subst.
  constructor; [|auto]. intro Hx. apply H2. apply in_or_app. now left.
Qed.

Lemma NoDup_app_r {A} (l1 l2 : list A) : NoDup (l1 ++ l2) -> NoDup l2.
Proof. induction l1 as [|x l1 IH]; cbn; intro H; [exact H|]. inversion H; auto. Qed.

Lemma NoDup_app_disj {A} (l1 l2 : list A) x : NoDup (l1 ++ l2) -> In x l1 -> In x l2 -> False.
Proof.
  induction l1 as [|y l1 IH]; cbn; intros H H1 H2; [contradiction|]. inversion H; subst.
  destruct H1 as [->|H1]; [|eauto]. apply H4. apply in_or_app. now right.
Qed.

Lemma last_cons_default {A} (l : list A) x d d' : last (x :: l) d = last (x :: l) d'.
Proof. revert x; induction l as [|y l IH]; intro x; [reflexivity|]. cbn [last] in *. apply IH. Qed.

Lemma find_none_existsb {A} (f : A -> bool) l : find f l = None <-> existsb f l = false.
Proof.
  induction l as [|y l IH]; cbn; [tauto|]. destruct (f y); cbn; [split; discriminate|exact IH].
Qed.

Lemma find_some_existsb {A} (f : A -> bool) l x : find f l = Some x -> existsb f l = true.
Proof.
  intro H. destruct (existsb f l) eqn:E; [reflexivity|]. apply find_none_existsb in E. congruence.
Qed.

(* suffix after the first element satisfying f *)
Fixpoint after_first {A} (f : A -> bool) (l : list A) : option (list A) :=
  match l with
  | [] => None
  | x :: l' => if f x then Some l' else after_first f l'
  end.

Fixpoint remove_first {A} (f : A -> bool) (l : list A) : list A :=
  match l with
  | [] => []
  | x :: l' => if f x then l' else x :: remove_first f l'
  end.

Definition size_ok (sz : N) : Prop := (exists k, k <= 31 /\ sz = 2 ^ k) /\ LYHT_MIN_SIZE <= sz.

Lemma pow2_le_31 k : k <= 31 -> 2 ^ k <= 2147483648.
Proof. intro H. change 2147483648 with (2 ^ 31). apply N.pow_le_mono_r; lia. Qed.

Lemma land_mask_lt h k : N.land h (2 ^ k - 1) < 2 ^ k.
Proof.
  rewrite N.sub_1_r, <- N.ones_equiv, N.land_ones. apply N.mod_lt. apply N.pow_nonzero. lia.
Qed.

Lemma concat_map_map {A B} (f : A -> B) (cs : list (list A)) :
  concat (map (map f) cs) = map f (concat cs).
Proof. induction cs as [|c cs IH]; cbn; [reflexivity|]. now rewrite map_app, IH. Qed.

Lemma find_map {A B} (f : A -> B) (p : B -> bool) l :
  find p (map f l) = option_map f (find (fun x => p (f x)) l).
Proof. induction l as [|x l IH]; cbn; [reflexivity|]. destruct (p (f x)); auto. Qed.

Lemma existsb_map {A B} (f : A -> B) (p : B -> bool) l : existsb p (map f l) = existsb (fun x => p (f x)) l.
Proof. induction l as [|x l IH]; cbn; [reflexivity|]. now rewrite IH. Qed.

Lemma after_first_map {A B} (f : A -> B) (p : B -> bool) l :
  after_first p (map f l) = option_map (map f) (after_first (fun x => p (f x)) l).
Proof. induction l as [|x l IH]; cbn; [reflexivity|]. destruct (p (f x)); auto. Qed.

Lemma find_after_first {A} (p : A -> bool) l :
  match find p l with
  | Some x => exists l1 l2, l = l1 ++ x :: l2 /\ after_first p l = Some l2
  | None => after_first p l = None
  end.
Proof.
  induction l as [|y l IH]; cbn; [reflexivity|]. destruct (p y) eqn:E.
  - exists [], l. auto.
  - destruct (find p l) as [x|]; [|exact IH].
    destruct IH as (l1 & l2 & -> & H). exists (y :: l1), l2. auto.
Qed.

Lemma Forall_app_r {A} (P : A -> Prop) l1 l2 : Forall P (l1 ++ l2) -> Forall P l2.
Proof. intro H. apply Forall_app in H. tauto. Qed.

Lemma Forall_app_l {A} (P : A -> Prop) l1 l2 : Forall P (l1 ++ l2) -> Forall P l1.
Proof. intro H. apply Forall_app in H. tauto. Qed.

Lemma concat_nodup_disj {A} (cs : list (list A)) b b' l l' j :
  NoDup (concat cs) -> nth_error cs b = Some l -> nth_error cs b' = Some l' -> b <> b' ->
  In j l -> In j l' -> False.
Proof.
  revert b b'; induction cs as [|c cs IH]; intros [|b] [|b'] Hn H1 H2 Hb Hj Hj'; cbn in *;
    try discriminate; try congruence.
  - inversion H1; subst. eapply NoDup_app_disj; [exact Hn|exact Hj|]. eapply In_concat_nth; eauto.
  - inversion H2; subst. eapply NoDup_app_disj; [exact Hn|exact Hj'|]. eapply In_concat_nth; eauto.
  - apply NoDup_app_r in Hn. eapply (IH b b'); eauto.
Qed.

Lemma nth_error_upd_eq' {A} (l : list A) n x y : nth_error l n = Some y -> nth_error (upd l n x) n = Some x.
Proof. intro H. apply nth_error_upd_eq. apply nth_error_Some. congruence. Qed.

Lemma Forall_perm {A} (P : A -> Prop) l l' : Permutation l l' -> Forall P l -> Forall P l'.
Proof.
  intros Hp H. rewrite Forall_forall in *. intros x Hx. apply H. eapply Permutation_in; [|exact Hx].
  now apply Permutation_sym.
Qed.

Lemma map_map_ext_in {A B} (f g : A -> B) (cs : list (list A)) :
  (forall j, In j (concat cs) -> f j = g j) -> map (map f) cs = map (map g) cs.
Proof.
  intro H. apply map_ext_in. intros c Hc. apply map_ext_in. intros j Hj. apply H.
  apply in_concat. eauto.
Qed.

Lemma list_snoc_case {A} (l : list A) : l = [] \/ exists l' x, l = l' ++ [x].
Proof.
  destruct l as [|y l]; [now left|right].
  destruct (@exists_last _ (y :: l)) as (l' & x & E); [discriminate|]. eauto.
Qed.

Lemma concat_repeat_nil {A} n : concat (repeat (@nil A) n) = [].
Proof. induction n; cbn; auto. Qed.

Lemma nth_error_repeat {A} (x y : A) n b : nth_error (repeat x n) b = Some y -> y = x.
Proof. intro H. apply nth_error_In in H. now apply repeat_spec in H. Qed.

Lemma remove_first_map_split {A B} (f : A -> B) (p : B -> bool) l1 x l2 :
  forallb (fun y => negb (p (f y))) l1 = true -> p (f x) = true ->
  remove_first p (map f (l1 ++ x :: l2)) = map f (l1 ++ l2).
Proof.
  induction l1 as [|y l1 IH]; cbn; intros H Hx.
  - now rewrite Hx.
  - apply andb_true_iff in H. destruct H as [Hy H]. apply negb_true_iff in Hy. rewrite Hy.
    f_equal. auto.
Qed.

Lemma last_cons_ne {A} (x : A) l d : l <> [] -> last (x :: l) d = last l d.
Proof. destruct l; [congruence|reflexivity]. Qed.

Lemma size_ok_double sz : size_ok sz -> sz <= 1073741824 -> size_ok (new_size sz Enlarge).
Proof.
  intros [(k & Hk & ->) Hm] Hle. unfold new_size, U32.
  assert (Hk30 : k <= 30).
  { destruct (N.le_gt_cases k 30) as [H|H]; [exact H|]. exfalso.
    assert (2 ^ 31 <= 2 ^ k) by (apply N.pow_le_mono_r; lia). change (2 ^ 31) with 2147483648 in H0. lia. }
  assert (2 ^ k * 2 = 2 ^ (k + 1)) by (rewrite N.pow_add_r; reflexivity).
  rewrite N.mod_small by lia. split; [|lia]. exists (k + 1). split; [lia|exact H].
Qed.

Lemma size_ok_half sz : size_ok sz -> LYHT_MIN_SIZE < sz -> size_ok (new_size sz Shrink).
Proof.
  intros [(k & Hk & ->) Hm] Hlt. unfold new_size, LYHT_MIN_SIZE in *.
  assert (Hk4 : 4 <= k).
  { destruct (N.le_gt_cases 4 k) as [H|H]; [exact H|]. exfalso.
    assert (2 ^ k <= 2 ^ 3) by (apply N.pow_le_mono_r; lia). change (2 ^ 3) with 8 in H0. lia. }
  replace k with (N.succ (k - 1)) by lia. rewrite N.pow_succ_r'.
  rewrite N.mul_comm, N.div_mul by lia. split.
  - exists (k - 1). split; [lia|reflexivity].
  - unfold LYHT_MIN_SIZE. change 8 with (2 ^ 3). apply N.pow_le_mono_r; lia.
Qed.

(* ------------------------------------------------------------------------------------------ *)
(* chains of records                                                                           *)
(* ------------------------------------------------------------------------------------------ *)
Section P.
Set Default Proof Using "All".
Variable V : Type.
Variable vdef : V.
Variable veq : bool -> V -> V -> bool.
Notation ht := (ht V).
Notation hrec := (hrec V).

Definition nxt (recs : list hrec) (i : N) : option N :=
  option_map r_next (nth_error recs (N.to_nat i)).
Definition ent (recs : list hrec) (i : N) : N * V :=
  match nth_error recs (N.to_nat i) with Some r => (r_hash r, r_val r) | None => (0, vdef) end.
Definition ematch (eq : V -> bool) (h : N) (e : N * V) : bool := (fst e =? h) && eq (snd e).

(* [is_chain recs a l z]: following next from index a visits exactly the indices l and ends in z *)
Fixpoint is_chain (recs : list hrec) (a : N) (l : list N) (z : N) : Prop :=
  match l with
  | [] => a = z
  | i :: l' => a = i /\ exists n, nxt recs i = Some n /\ is_chain recs n l' z
  end.

Lemma rd_nxt recs i r : rd recs i = Ok r -> nxt recs i = Some (r_next r).
Proof. intro H. apply rd_Ok in H. unfold nxt. now rewrite H. Qed.

Lemma rd_ent recs i r : rd recs i = Ok r -> ent recs i = (r_hash r, r_val r).
Proof. intro H. apply rd_Ok in H. unfold ent. now rewrite H. Qed.

Lemma nxt_rd recs i n : nxt recs i = Some n -> exists r, rd recs i = Ok r /\ r_next r = n.
Proof.
  unfold nxt, rd. destruct (nth_error recs (N.to_nat i)) as [r|]; cbn; [|discriminate].
  intro H. inversion H. eauto.
Qed.

Lemma nxt_lt recs i n : nxt recs i = Some n -> (N.to_nat i < length recs)%nat.
Proof.
  unfold nxt. destruct (nth_error recs (N.to_nat i)) eqn:E; cbn; [|discriminate].
  intros _. apply nth_error_Some. congruence.
Qed.

Lemma nxt_upd_neq recs i j x : i <> j -> nxt (upd recs (N.to_nat j) x) i = nxt recs i.
Proof. intro H. unfold nxt. rewrite nth_error_upd_neq; [reflexivity|lia]. Qed.

Lemma nxt_upd_eq recs j x :
  (N.to_nat j < length recs)%nat -> nxt (upd recs (N.to_nat j) x) j = Some (r_next x).
Proof. intro H. unfold nxt. now rewrite nth_error_upd_eq. Qed.

Lemma ent_upd_neq recs i j x : i <> j -> ent (upd recs (N.to_nat j) x) i = ent recs i.
Proof. intro H. unfold ent. rewrite nth_error_upd_neq; [reflexivity|lia]. Qed.

Lemma ent_upd_eq recs j x :
  (N.to_nat j < length recs)%nat -> ent (upd recs (N.to_nat j) x) j = (r_hash x, r_val x).
Proof. intro H. unfold ent. now rewrite nth_error_upd_eq. Qed.

Lemma is_chain_app recs a l1 l2 z :
  is_chain recs a (l1 ++ l2) z <-> exists m, is_chain recs a l1 m /\ is_chain recs m l2 z.
Proof.
  revert a; induction l1 as [|i l1 IH]; intro a; cbn.
  - split; [intro H; exists a; auto|intros (m & -> & H); exact H].
  - split.
    + intros (-> & n & Hn & H). apply IH in H. destruct H as (m & H1 & H2).
      exists m. split; [|exact H2]. split; [reflexivity|]. exists n. auto.
    + intros (m & (-> & n & Hn & H1) & H2). split; [reflexivity|]. exists n. split; [exact Hn|].
      apply IH. exists m. auto.
Qed.

Lemma is_chain_ext recs recs' a l z :
  (forall i, In i l -> nxt recs' i = nxt recs i) -> is_chain recs a l z -> is_chain recs' a l z.
Proof.
  revert a; induction l as [|i l IH]; intros a Hx; cbn; [auto|].
  intros (-> & n & Hn & H). split; [reflexivity|]. exists n. split.
  - rewrite Hx; [exact Hn|now left].
  - apply IH; [|exact H]. intros j Hj. apply Hx. now right.
Qed.

Lemma is_chain_head_ne recs a l z : is_chain recs a l z -> a <> z -> exists i l', l = i :: l' /\ a = i.
Proof.
  destruct l as [|i l']; cbn; [congruence|]. intros (-> & _) _. eauto.
Qed.

Lemma is_chain_bound recs a l z : is_chain recs a l z -> Forall (fun i => (N.to_nat i < length recs)%nat) l.
Proof.
  revert a; induction l as [|i l IH]; intros a; cbn; [constructor|].
  intros (-> & n & Hn & H). constructor; [eapply nxt_lt; eauto|eapply IH; eauto].
Qed.

(* ---- the loops of the C code along a chain ---- *)
Lemma find_loop_chain recs eq h : forall l fuel a,
  is_chain recs a l NOREC -> Forall (fun i => i <> NOREC) l -> (length l < fuel)%nat ->
  find_loop fuel recs eq h a = Ok (find (fun i => ematch eq h (ent recs i)) l).
Proof.
  induction l as [|i l IH]; intros fuel a Hc Hn Hf; destruct fuel as [|f]; cbn in Hf; try lia; cbn in Hc.
  - subst a. cbn. reflexivity.
  - destruct Hc as (-> & n & Hnx & Hc). inversion Hn as [|? ? Hi Hn']; subst.
    cbn [find_loop find]. apply N.eqb_neq in Hi. rewrite Hi.
    destruct (nxt_rd _ _ _ Hnx) as (r & Hr & Hrn). rewrite Hr. cbn [bind].
    rewrite (rd_ent _ _ _ Hr). unfold ematch at 1. cbn [fst snd].
    destruct ((r_hash r =? h) && eq (r_val r)); [reflexivity|].
    rewrite Hrn. apply IH; auto. lia.
Qed.

Lemma collect_chain_chain recs : forall l fuel a,
  is_chain recs a l NOREC -> Forall (fun i => i <> NOREC) l -> (length l < fuel)%nat ->
  collect_chain fuel recs a = Ok (map (ent recs) l).
Proof.
  induction l as [|i l IH]; intros fuel a Hc Hn Hf; destruct fuel as [|f]; cbn in Hf; try lia; cbn in Hc.
  - subst a. reflexivity.
  - destruct Hc as (-> & n & Hnx & Hc). inversion Hn as [|? ? Hi Hn']; subst.
    cbn [collect_chain map]. apply N.eqb_neq in Hi. rewrite Hi.
    destruct (nxt_rd _ _ _ Hnx) as (r & Hr & Hrn). rewrite Hr. cbn [bind].
    rewrite Hrn, (IH f n Hc Hn') by lia. cbn [bind]. now rewrite (rd_ent _ _ _ Hr).
Qed.

Definition next_result (o : option (N * V)) : N * option V :=
  match o with Some e => (LY_ERR_SUCCESS, Some (snd e)) | None => (LY_ERR_ENOTFOUND, None) end.

Lemma next_loop_chain recs eq h : forall l fuel a,
  is_chain recs a l NOREC -> Forall (fun i => i <> NOREC) l -> (length l < fuel)%nat ->
  next_loop fuel recs eq h a = Ok (next_result (find (ematch eq h) (map (ent recs) l))).
Proof.
  induction l as [|i l IH]; intros fuel a Hc Hn Hf; destruct fuel as [|f]; cbn in Hf; try lia; cbn in Hc.
  - subst a. reflexivity.
  - destruct Hc as (-> & n & Hnx & Hc). inversion Hn as [|? ? Hi Hn']; subst.
    cbn [next_loop map find]. apply N.eqb_neq in Hi. rewrite Hi.
    destruct (nxt_rd _ _ _ Hnx) as (r & Hr & Hrn). rewrite Hr. cbn [bind].
    rewrite (rd_ent _ _ _ Hr). unfold ematch at 1. cbn [fst snd].
    rewrite Hrn.
    destruct (r_hash r =? h); cbn [negb andb].
    + destruct (eq (r_val r)); [reflexivity|]. apply IH; auto. lia.
    + apply IH; auto. lia.
Qed.

Lemma prev_loop_chain recs x : forall l1 l2 fuel a p0,
  is_chain recs a (l1 ++ x :: l2) NOREC -> ~ In x l1 -> x <> NOREC ->
  Forall (fun i => i <> NOREC) l1 -> (length l1 < fuel)%nat ->
  prev_loop fuel recs a x p0 = Ok (last l1 p0).
Proof.
  induction l1 as [|i l1 IH]; intros l2 fuel a p0 Hc Hx Hxn Hn Hf; destruct fuel as [|f]; cbn in Hf; try lia.
  - cbn in Hc. destruct Hc as (-> & _). cbn [prev_loop app last].
    apply N.eqb_neq in Hxn. rewrite Hxn, N.eqb_refl. reflexivity.
  - cbn in Hc. destruct Hc as (-> & n & Hnx & Hc). inversion Hn as [|? ? Hi Hn']; subst.
    cbn [prev_loop]. apply N.eqb_neq in Hi. rewrite Hi.
    assert (Hix : i <> x) by (intro; subst; apply Hx; now left).
    apply N.eqb_neq in Hix. rewrite Hix.
    destruct (nxt_rd _ _ _ Hnx) as (r & Hr & Hrn). rewrite Hr. cbn [bind]. rewrite Hrn.
    rewrite (IH l2 f n i Hc); auto; try lia.
    + destruct l1 as [|j l1]; [reflexivity|]. f_equal.
      change (last (i :: j :: l1) p0) with (last (j :: l1) p0). apply last_cons_default.
    + intro H. apply Hx. now right.
Qed.

(* ------------------------------------------------------------------------------------------ *)
(* representation invariant (DESIGN C.3) with explicit witnesses: cs = the chains of the       *)
(* buckets in bucket order, fl = the free list                                                 *)
(* ------------------------------------------------------------------------------------------ *)
Definition bucket_ok (t : ht) (b : nat) (hl : hlist) (l : list N) : Prop :=
  is_chain (ht_recs t) (hl_first hl) l NOREC /\ hl_last hl = last l NOREC /\
  Forall (fun i => N.land (fst (ent (ht_recs t) i)) (ht_size t - 1) = N.of_nat b) l.

Record Rep (t : ht) (cs : list (list N)) (fl : list N) : Prop := mkRep {
  rep_pow : exists k, k <= 31 /\ ht_size t = 2 ^ k;
  rep_min : LYHT_MIN_SIZE <= ht_size t;
  rep_lr : length (ht_recs t) = N.to_nat (ht_size t);
  rep_lh : length (ht_hl t) = N.to_nat (ht_size t);
  rep_lc : length cs = N.to_nat (ht_size t);
  rep_nodup : NoDup (concat cs ++ fl);
  rep_lt : Forall (fun i => i < ht_size t) (concat cs ++ fl);
  rep_all : length (concat cs ++ fl) = N.to_nat (ht_size t);
  rep_bk : forall b hl l, nth_error (ht_hl t) b = Some hl -> nth_error cs b = Some l ->
                          bucket_ok t b hl l;
  rep_fl : is_chain (ht_recs t) (ht_ff t) fl (ht_size t);
  rep_used : ht_used t = N.of_nat (length (concat cs))
}.


Lemma Rep_size_bounds t cs fl : Rep t cs fl -> 1 <= ht_size t <= 2147483648.
Proof.
  intros R. destruct (rep_pow _ _ _ R) as (k & Hk & Hs). rewrite Hs. split.
  - assert (2 ^ k <> 0) by (apply N.pow_nonzero; lia). lia.
  - now apply pow2_le_31.
Qed.


Lemma Rep_bucket t cs fl h : Rep t cs fl ->
  bucket t h = N.land h (ht_size t - 1) /\ bucket t h < ht_size t.
Proof.
  intro R. pose proof (Rep_size_bounds _ _ _ R) as Hb.
  destruct (rep_pow _ _ _ R) as (k & Hk & Hs).
  unfold bucket. replace ((ht_size t + U32 - 1) mod U32) with (ht_size t - 1).
  - split; [reflexivity|]. rewrite Hs. apply land_mask_lt.
  - unfold U32 in *. replace (ht_size t + 4294967296 - 1) with (ht_size t - 1 + 1 * 4294967296) by lia.
    rewrite N.mod_add by lia. symmetry. apply N.mod_small. lia.
Qed.

Lemma Rep_nth t cs fl b : Rep t cs fl -> (b < N.to_nat (ht_size t))%nat ->
  exists hl l, nth_error (ht_hl t) b = Some hl /\ nth_error cs b = Some l /\ bucket_ok t b hl l.
Proof.
  intros R Hb.
  destruct (nth_error (ht_hl t) b) as [hl|] eqn:E1.
  2:{ apply nth_error_None in E1. rewrite (rep_lh _ _ _ R) in E1. lia. }
  destruct (nth_error cs b) as [l|] eqn:E2.
  2:{ apply nth_error_None in E2. rewrite (rep_lc _ _ _ R) in E2. lia. }
  exists hl, l. repeat split; auto; eapply rep_bk; eauto.
Qed.

Lemma Rep_in_cs_lt t cs fl i : Rep t cs fl -> In i (concat cs) -> i < ht_size t.
Proof.
  intros R Hi. pose proof (rep_lt _ _ _ R) as H. rewrite Forall_forall in H. apply H.
  apply in_or_app. now left.
Qed.

Lemma Rep_in_fl_lt t cs fl i : Rep t cs fl -> In i fl -> i < ht_size t.
Proof.
  intros R Hi. pose proof (rep_lt _ _ _ R) as H. rewrite Forall_forall in H. apply H.
  apply in_or_app. now right.
Qed.

Lemma Rep_chain_ne t cs fl b l : Rep t cs fl -> nth_error cs b = Some l ->
  Forall (fun i => i <> NOREC) l /\ (length l < S (length (ht_recs t)))%nat /\ NoDup l /\
  Forall (fun i => i < ht_size t) l.
Proof.
  intros R Hl. pose proof (Rep_size_bounds _ _ _ R) as Hb.
  assert (Hlt : Forall (fun i => i < ht_size t) l).
  { apply Forall_forall. intros i Hi. eapply Rep_in_cs_lt; eauto. eapply In_concat_nth; eauto. }
  assert (Hnd : NoDup l).
  { pose proof (rep_nodup _ _ _ R) as H. apply NoDup_app_l in H.
    clear - H Hl. revert b Hl H. induction cs as [|c cs IH]; intros [|b] Hl H; cbn in *; try discriminate.
    - inversion Hl; subst. now apply NoDup_app_l in H.
    - apply NoDup_app_r in H. eauto. }
  repeat split; auto.
  - eapply Forall_impl; [|exact Hlt]. cbn. intros i Hi. unfold NOREC. lia.
  - apply NoDup_incl_length with (l' := map N.of_nat (seq 0 (length (ht_recs t)))) in Hnd.
    + rewrite map_length, seq_length in Hnd. lia.
    + intros i Hi. rewrite Forall_forall in Hlt. specialize (Hlt _ Hi).
      apply in_map_iff. exists (N.to_nat i). split; [lia|]. apply in_seq.
      rewrite (rep_lr _ _ _ R). lia.
Qed.

(* ------------------------------------------------------------------------------------------ *)
(* the abstract table: resize state + the buckets as lists of (hash, value) in chain order     *)
(* ------------------------------------------------------------------------------------------ *)
Record amm := mkamm { a_rz : N; a_bk : list (list (N * V)) }.
Definition a_size (m : amm) : N := N.of_nat (length (a_bk m)).
Definition a_used (m : amm) : N := N.of_nat (length (concat (a_bk m))).
Definition a_bucket (m : amm) (h : N) : nat := N.to_nat (N.land h (a_size m - 1)).
Definition a_row (m : amm) (h : N) : list (N * V) := nth (a_bucket m h) (a_bk m) [].
Definition a_pct (used size : N) : N := (used * LYHT_HUNDRED_PERCENTAGE) / size.

Definition abs (t : ht) (cs : list (list N)) : amm :=
  mkamm (ht_resize t) (map (map (ent (ht_recs t))) cs).


Definition a_find (m : amm) (eq : V -> bool) (h : N) : option (N * V) := find (ematch eq h) (a_row m h).

Definition a_lyht_find (m : amm) (h : N) (v : V) : N * option V :=
  match a_find m (veq false v) h with
  | None => (LY_ERR_ENOTFOUND, None)
  | Some e => (LY_ERR_SUCCESS, Some (snd e))
  end.

Definition a_find_next (m : amm) (cb : option (bool -> V -> V -> bool)) (h : N) (v : V) : N * option V :=
  let eq := match cb with Some c => c | None => veq end in
  match after_first (ematch (eq true v) h) (a_row m h) with
  | None => (LY_EINT, None)
  | Some l2 => next_result (find (ematch (eq false v) h) l2)
  end.

Definition a_insert_with (agrow : amm -> bool -> res amm) (m : amm) (check wm : bool) (h : N) (v : V)
  : res (N * V * amm) :=
  match (if check then find (ematch (veq true v) h) (a_row m h) else None) with
  | Some e => Ok (LY_ERR_EEXIST, snd e, m)
  | None =>
    if negb (a_used m <? a_size m) then Err E_ABORT
    else
      let bk1 := upd (a_bk m) (a_bucket m h) (a_row m h ++ [(h, v)]) in
      if a_rz m =? 0 then Ok (LY_ERR_SUCCESS, v, mkamm (a_rz m) bk1)
      else
        let r := a_pct (a_used m + 1) (a_size m) in
        let rz := if (a_rz m =? 1) && (LYHT_FIRST_SHRINK_PERCENTAGE <=? r) then 2 else a_rz m in
        if (rz =? 2) && (LYHT_ENLARGE_PERCENTAGE <=? r) then
          bind (agrow (mkamm rz bk1) check) (fun m3 =>
            if wm then
              match find (ematch (veq false v) h) (a_row m3 h) with
              | Some e => Ok (LY_ERR_SUCCESS, snd e, m3)
              | None => Err E_ABORT
              end
            else Ok (LY_ERR_SUCCESS, v, m3))
        else Ok (LY_ERR_SUCCESS, v, mkamm rz bk1)
  end.

Fixpoint a_reinsert (ins : amm -> N -> V -> res (N * V * amm)) (m : amm) (es : list (N * V)) : res amm :=
  match es with
  | [] => Ok m
  | e :: es' =>
      bind (ins m (fst e) (snd e)) (fun x =>
        if fst (fst x) =? LY_ERR_SUCCESS then a_reinsert ins (snd x) es' else Err E_ABORT)
  end.

Definition a_insert_inner (m : amm) (check : bool) (h : N) (v : V) : res (N * V * amm) :=
  a_insert_with (fun _ _ => Err E_FUEL) m check false h v.

Definition a_resize (m : amm) (op : rop) (check : bool) : res amm :=
  a_reinsert (fun m' => a_insert_inner m' check)
             (mkamm (a_rz m) (repeat [] (N.to_nat (new_size (a_size m) op)))) (concat (a_bk m)).

Definition a_insert (m : amm) (check wm : bool) (h : N) (v : V) : res (N * V * amm) :=
  a_insert_with (fun m' c => a_resize m' Enlarge c) m check wm h v.

Definition a_remove (m : amm) (h : N) (v : V) : res (N * amm) :=
  if negb (existsb (ematch (veq true v) h) (a_row m h)) then Ok (LY_ERR_ENOTFOUND, m)
  else
    let bk1 := upd (a_bk m) (a_bucket m h) (remove_first (ematch (veq true v) h) (a_row m h)) in
    let m1 := mkamm (a_rz m) bk1 in
    if (a_rz m =? 2) && (a_pct (a_used m - 1) (a_size m) <? LYHT_SHRINK_PERCENTAGE)
       && (LYHT_MIN_SIZE <? a_size m)
    then bind (a_resize m1 Shrink true) (fun m2 => Ok (LY_ERR_SUCCESS, m2))
    else Ok (LY_ERR_SUCCESS, m1).

(* ---- facts relating a table with its abstraction ---- *)
Lemma abs_size t cs fl : Rep t cs fl -> a_size (abs t cs) = ht_size t.
Proof. intro R. unfold a_size, abs. cbn. rewrite map_length, (rep_lc _ _ _ R). lia. Qed.


Lemma abs_used t cs fl : Rep t cs fl -> a_used (abs t cs) = ht_used t.
Proof.
  intro R. unfold a_used, abs. cbn. rewrite concat_map_map, map_length. symmetry. apply (rep_used _ _ _ R).
Qed.

Lemma abs_bucket t cs fl h : Rep t cs fl -> a_bucket (abs t cs) h = N.to_nat (bucket t h).
Proof.
  intro R. unfold a_bucket. rewrite (abs_size _ _ _ R). destruct (Rep_bucket _ _ _ h R) as [-> _]. reflexivity.
Qed.

Lemma abs_row t cs fl h : Rep t cs fl ->
  exists hl l, nth_error (ht_hl t) (N.to_nat (bucket t h)) = Some hl /\
               nth_error cs (N.to_nat (bucket t h)) = Some l /\
               bucket_ok t (N.to_nat (bucket t h)) hl l /\
               a_row (abs t cs) h = map (ent (ht_recs t)) l.
Proof.
  intro R. destruct (Rep_bucket _ _ _ h R) as [_ Hlt].
  destruct (Rep_nth _ _ _ (N.to_nat (bucket t h)) R) as (hl & l & H1 & H2 & H3); [lia|].
  exists hl, l. split; [exact H1|]. split; [exact H2|]. split; [exact H3|].
  unfold a_row. rewrite (abs_bucket _ _ _ _ R). unfold abs. cbn.
  apply nth_error_nth. rewrite nth_error_map, H2. reflexivity.
Qed.


(* lyht_find_rec() returns the first index of the bucket's chain whose record matches *)
Lemma find_rec_sim t cs fl eq h : Rep t cs fl ->
  exists hl l, nth_error (ht_hl t) (N.to_nat (bucket t h)) = Some hl /\
               nth_error cs (N.to_nat (bucket t h)) = Some l /\
               bucket_ok t (N.to_nat (bucket t h)) hl l /\
               a_row (abs t cs) h = map (ent (ht_recs t)) l /\
               find_rec t eq h = Ok (find (fun i => ematch eq h (ent (ht_recs t) i)) l).
Proof.
  intro R. destruct (abs_row _ _ _ h R) as (hl & l & H1 & H2 & H3 & H4).
  exists hl, l. split; [exact H1|]. split; [exact H2|]. split; [exact H3|]. split; [exact H4|].
  unfold find_rec. apply rd_Ok in H1. rewrite H1. cbn [bind].
  destruct H3 as (Hc & _ & _).
  destruct (Rep_chain_ne _ _ _ _ _ R H2) as (Hne & Hlen & _).
  apply find_loop_chain; auto.
Qed.

Theorem lyht_find_sim t cs fl h v : Rep t cs fl ->
  lyht_find veq t h v = Ok (a_lyht_find (abs t cs) h v).
Proof.
  intro R. destruct (find_rec_sim _ _ _ (veq false v) h R) as (hl & l & H1 & H2 & H3 & H4 & H5).
  unfold lyht_find, a_lyht_find, a_find. rewrite H5, H4, find_map. cbn [bind].
  destruct (find _ l) as [i|] eqn:E; cbn [option_map]; [|reflexivity].
  apply find_some in E. destruct E as [Hi _].
  destruct H3 as (Hc & _ & _). pose proof (is_chain_bound _ _ _ _ Hc) as Hb.
  rewrite Forall_forall in Hb. specialize (Hb _ Hi).
  destruct (rd_lt _ _ Hb) as (r & Hr). rewrite Hr. cbn [bind]. rewrite (rd_ent _ _ _ Hr). reflexivity.
Qed.

(* ------------------------------------------------------------------------------------------ *)
(* lyht_find_next / lyht_find_next_with_collision_cb                                           *)
(* ------------------------------------------------------------------------------------------ *)


Lemma is_chain_mid recs a l1 x l2 z :
  is_chain recs a (l1 ++ x :: l2) z -> exists n, nxt recs x = Some n /\ is_chain recs n l2 z.
Proof.
  intro H. apply is_chain_app in H. destruct H as (m & _ & H). cbn in H.
  destruct H as (_ & n & Hn & H). eauto.
Qed.


Theorem lyht_find_next_sim t cs fl cb h v : Rep t cs fl ->
  lyht_find_next veq t cb h v = Ok (a_find_next (abs t cs) cb h v).
Proof.
  intro R. unfold lyht_find_next, a_find_next.
  set (eq := match cb with Some c => c | None => veq end).
  destruct (find_rec_sim _ _ _ (eq true v) h R) as (hl & l & H1 & H2 & H3 & H4 & H5).
  rewrite H5, H4, after_first_map. cbn [bind].
  pose proof (find_after_first (fun i => ematch (eq true v) h (ent (ht_recs t) i)) l) as Hf.
  destruct (find _ l) as [i|] eqn:E.
  - destruct Hf as (l1 & l2 & -> & Ha). rewrite Ha. cbn [option_map].
    destruct H3 as (Hc & _ & _).
    destruct (is_chain_mid _ _ _ _ _ _ Hc) as (n & Hn & Hc2).
    destruct (nxt_rd _ _ _ Hn) as (r & Hr & Hrn). rewrite Hr. cbn [bind]. rewrite Hrn.
    destruct (Rep_chain_ne _ _ _ _ _ R H2) as (Hne & Hlen & _).
    apply next_loop_chain; auto.
    + apply Forall_app_r in Hne. now inversion Hne.
    + rewrite app_length in Hlen. cbn in Hlen. lia.
  - rewrite Hf. reflexivity.
Qed.

(* ------------------------------------------------------------------------------------------ *)
(* frame lemmas                                                                                *)
(* ------------------------------------------------------------------------------------------ *)
Lemma bucket_ok_frame t t' b hl l :
  bucket_ok t b hl l -> ht_size t' = ht_size t ->
  (forall j, In j l -> nxt (ht_recs t') j = nxt (ht_recs t) j /\ ent (ht_recs t') j = ent (ht_recs t) j) ->
  bucket_ok t' b hl l.
Proof.
  intros (Hc & Hl & Hh) Hs Hx. split; [|split]; auto.
  - eapply is_chain_ext; [|exact Hc]. intros j Hj. apply Hx, Hj.
  - rewrite Forall_forall in *. intros j Hj. rewrite Hs. destruct (Hx j Hj) as [_ ->]. auto.
Qed.

Lemma is_chain_redirect recs recs' a l x z z' :
  is_chain recs a (l ++ [x]) z ->
  (forall j, In j l -> nxt recs' j = nxt recs j) -> nxt recs' x = Some z' ->
  is_chain recs' a (l ++ [x]) z'.
Proof.
  intros H Hx Hn. apply is_chain_app in H. destruct H as (m & H1 & H2). cbn in H2. destruct H2 as (-> & _).
  apply is_chain_app. exists x. split.
  - eapply is_chain_ext; [|exact H1]. exact Hx.
  - cbn. split; [reflexivity|]. exists z'. auto.
Qed.


(* ------------------------------------------------------------------------------------------ *)
(* insertion of a record (no resize)                                                           *)
(* ------------------------------------------------------------------------------------------ *)
Lemma Rep_insert t cs fl h v ri fl' l hl n first' recs2 :
  Rep t cs fl -> fl = ri :: fl' ->
  nth_error cs (N.to_nat (bucket t h)) = Some l ->
  nth_error (ht_hl t) (N.to_nat (bucket t h)) = Some hl ->
  nxt (ht_recs t) ri = Some n ->
  length recs2 = length (ht_recs t) ->
  (forall j, In j (concat cs ++ fl') -> ~ In j l -> nxt recs2 j = nxt (ht_recs t) j) ->
  (forall j, In j (concat cs) -> ent recs2 j = ent (ht_recs t) j) ->
  is_chain recs2 first' (l ++ [ri]) NOREC -> ent recs2 ri = (h, v) ->
  let t1 := mkht ((ht_used t + 1) mod U32) (ht_size t) (ht_resize t) n
                 (upd (ht_hl t) (N.to_nat (bucket t h)) (mkhl first' ri)) recs2 in
  let cs1 := upd cs (N.to_nat (bucket t h)) (l ++ [ri]) in
  Rep t1 cs1 fl' /\
  abs t1 cs1 = mkamm (ht_resize t)
                 (upd (a_bk (abs t cs)) (a_bucket (abs t cs) h) (a_row (abs t cs) h ++ [(h, v)])).
Proof.
  intros R -> Hl Hhl Hn Hlen Hnx Hent Hch Hri t1 cs1. subst t1.
  set (b := N.to_nat (bucket t h)) in *.
  pose proof (Rep_size_bounds _ _ _ R) as Hsz.
  destruct (Rep_bucket _ _ _ h R) as [Hbk Hblt].
  assert (Hperm : Permutation (concat cs1 ++ fl') (concat cs ++ ri :: fl')).
  { unfold cs1. rewrite (concat_upd_perm cs b l ri Hl). cbn. apply Permutation_middle. }
  pose proof (rep_nodup _ _ _ R) as Hnd.
  assert (Hri_cs : ~ In ri (concat cs)).
  { intro H. eapply NoDup_app_disj; [exact Hnd|exact H|now left]. }
  assert (Hfl_sub : forall j, In j fl' -> In j (concat cs ++ fl')) by (intros; apply in_or_app; now right).
  assert (Hcs_sub : forall j, In j (concat cs) -> In j (concat cs ++ fl')) by (intros; apply in_or_app; now left).
  assert (Hl_cs : forall j, In j l -> In j (concat cs)) by (intros j Hj; eapply In_concat_nth; eauto).
  assert (Hfl_l : forall j, In j fl' -> ~ In j l).
  { intros j Hj Hj'. eapply NoDup_app_disj; [exact Hnd|apply Hl_cs, Hj'|now right]. }
  split.
  - constructor; cbn [ht_size ht_recs ht_hl ht_used ht_ff].
    + apply (rep_pow _ _ _ R).
    + apply (rep_min _ _ _ R).
    + rewrite Hlen. apply (rep_lr _ _ _ R).
    + rewrite upd_length. apply (rep_lh _ _ _ R).
    + unfold cs1. rewrite upd_length. apply (rep_lc _ _ _ R).
    + eapply Permutation_NoDup; [apply Permutation_sym, Hperm|exact Hnd].
    + eapply Forall_perm; [apply Permutation_sym, Hperm|apply (rep_lt _ _ _ R)].
    + rewrite (Permutation_length Hperm). apply (rep_all _ _ _ R).
    + intros b0 hl0 l0 H0 H0'. destruct (Nat.eq_dec b0 b) as [->|Hne].
      * rewrite (nth_error_upd_eq' _ _ _ _ Hhl) in H0. unfold cs1 in H0'.
        rewrite (nth_error_upd_eq' _ _ _ _ Hl) in H0'. inversion H0; inversion H0'; subst.
        split; [exact Hch|]. split; [cbn; now rewrite last_last|].
        apply Forall_app. split.
        -- destruct (rep_bk _ _ _ R _ _ _ Hhl Hl) as (_ & _ & Hh). rewrite Forall_forall in *.
           intros j Hj. cbn [ht_size ht_recs]. rewrite Hent by auto. auto.
        -- constructor; [|constructor]. cbn [ht_size ht_recs]. rewrite Hri. cbn [fst].
           rewrite <- Hbk. unfold b. lia.
      * rewrite nth_error_upd_neq in H0 by auto. unfold cs1 in H0'. rewrite nth_error_upd_neq in H0' by auto.
        pose proof (rep_bk _ _ _ R _ _ _ H0 H0') as Hok.
        eapply bucket_ok_frame; [exact Hok|reflexivity|]. cbn [ht_recs]. intros j Hj.
        assert (Hjc : In j (concat cs)) by (eapply In_concat_nth; eauto).
        split; [|auto]. apply Hnx; auto. intro Hjl.
        eapply (concat_nodup_disj cs b0 b); eauto. eapply NoDup_app_l; eauto.
    + pose proof (rep_fl _ _ _ R) as Hf. cbn in Hf. destruct Hf as (_ & n' & Hn' & Hf).
      assert (n' = n) by congruence. subst n'.
      eapply is_chain_ext; [|exact Hf]. intros j Hj. apply Hnx; auto.
    + unfold cs1. rewrite (Permutation_length (concat_upd_perm cs b l ri Hl)). cbn [length].
      pose proof (rep_used _ _ _ R) as Hu. pose proof (rep_all _ _ _ R) as Ha.
      rewrite app_length in Ha. cbn in Ha. rewrite Hu. unfold U32 in *.
      rewrite N.mod_small; lia.
  - destruct (abs_row _ _ _ h R) as (hl' & l' & E1 & E2 & _ & E4).
    fold b in E1, E2. assert (l' = l) by congruence. subst l'.
    rewrite (abs_bucket _ _ _ _ R). fold b. rewrite E4. unfold abs. cbn [ht_resize ht_recs a_bk]. f_equal.
    unfold cs1. rewrite upd_map. rewrite map_app. cbn [map]. rewrite Hri.
    rewrite (map_map_ext_in (ent recs2) (ent (ht_recs t)) cs) by exact Hent.
    f_equal. f_equal. apply map_ext_in. intros j Hj. auto.
Qed.


Lemma is_chain_head_in recs a l z : l <> [] -> is_chain recs a l z -> In a l.
Proof. destruct l as [|i l]; [congruence|]. cbn. intros _ (-> & _). now left. Qed.

Lemma is_chain_single recs x z : nxt recs x = Some z -> is_chain recs x [x] z.
Proof. intro H. cbn. split; [reflexivity|]. exists z. auto. Qed.

Lemma insert_core_ok t cs fl h v : Rep t cs fl -> ht_ff t < ht_size t ->
  exists r hl recs1 recs2 hl2 l fl',
    rd (ht_recs t) (ht_ff t) = Ok r /\
    rd (ht_hl t) (bucket t h) = Ok hl /\
    (if hl_first hl =? NOREC then Ok (ht_recs t)
     else bind (rd (ht_recs t) (hl_last hl))
            (fun p => wr (ht_recs t) (hl_last hl) (set_next p (ht_ff t)))) = Ok recs1 /\
    wr recs1 (ht_ff t) (mkrec h NOREC v) = Ok recs2 /\
    wr (ht_hl t) (bucket t h)
       (mkhl (if hl_first hl =? NOREC then ht_ff t else hl_first hl) (ht_ff t)) = Ok hl2 /\
    fl = ht_ff t :: fl' /\ nth_error cs (N.to_nat (bucket t h)) = Some l /\
    let t1 := mkht ((ht_used t + 1) mod U32) (ht_size t) (ht_resize t) (r_next r) hl2 recs2 in
    let cs1 := upd cs (N.to_nat (bucket t h)) (l ++ [ht_ff t]) in
    Rep t1 cs1 fl' /\
    abs t1 cs1 = mkamm (ht_resize t)
                   (upd (a_bk (abs t cs)) (a_bucket (abs t cs) h) (a_row (abs t cs) h ++ [(h, v)])) /\
    ent recs2 (ht_ff t) = (h, v) /\ In (ht_ff t) (concat cs1).
Proof.
  intros R Hff.
  pose proof (Rep_size_bounds _ _ _ R) as Hsz.
  pose proof (rep_fl _ _ _ R) as Hfl.
  destruct fl as [|x fl']; [cbn in Hfl; lia|].
  cbn in Hfl. destruct Hfl as (Hx & n & Hn & Hfl'). subst x.
  set (ri := ht_ff t) in *.
  destruct (nxt_rd _ _ _ Hn) as (r & Hr & Hrn).
  destruct (abs_row _ _ _ h R) as (hl & l & H1 & H2 & H3 & H4).
  set (b := N.to_nat (bucket t h)) in *.
  assert (Hrilt : (N.to_nat ri < length (ht_recs t))%nat) by (eapply nxt_lt; eauto).
  pose proof (rep_nodup _ _ _ R) as Hnd.
  assert (Hri_cs : ~ In ri (concat cs)).
  { intro H. eapply NoDup_app_disj; [exact Hnd|exact H|now left]. }
  assert (Hri_fl : ~ In ri fl').
  { apply NoDup_app_r in Hnd. now inversion Hnd. }
  assert (Hne_all : forall j, In j (concat cs ++ fl') -> j <> ri).
  { intros j Hj ->. apply in_app_or in Hj. tauto. }
  assert (Hl_cs : forall j, In j l -> In j (concat cs)) by (intros j Hj; eapply In_concat_nth; eauto).
  destruct H3 as (Hc & Hlast & Hh).
  destruct (Rep_chain_ne _ _ _ _ _ R H2) as (Hne & _ & Hndl & Hltl).
  assert (Hblt : (b < length (ht_hl t))%nat) by (apply nth_error_Some; congruence).
  assert (Hin1 : forall cs1, Permutation (concat cs1) (ri :: concat cs) -> In ri (concat cs1)).
  { intros cs1 Hp. eapply Permutation_in; [apply Permutation_sym, Hp|now left]. }
  destruct (list_snoc_case l) as [->|(l' & p & ->)].
  - (* empty chain *)
    cbn in Hc. cbn in Hlast.
    exists r, hl, (ht_recs t), (upd (ht_recs t) (N.to_nat ri) (mkrec h NOREC v)),
      (upd (ht_hl t) b (mkhl ri ri)), [], fl'.
    rewrite Hc, N.eqb_refl.
    split; [exact Hr|]. split; [now apply rd_Ok|]. split; [reflexivity|].
    split; [now apply wr_Ok|]. split; [apply wr_Ok; exact Hblt|]. split; [reflexivity|]. split; [exact H2|].
    rewrite Hrn.
    destruct (Rep_insert t cs (ri :: fl') h v ri fl' [] hl n ri
                (upd (ht_recs t) (N.to_nat ri) (mkrec h NOREC v)) R eq_refl H2 H1 Hn) as [Ra Rb].
    + apply upd_length.
    + intros j Hj _. apply nxt_upd_neq. now apply Hne_all.
    + intros j Hj. apply ent_upd_neq. intros ->. tauto.
    + cbn [app]. apply is_chain_single. now rewrite nxt_upd_eq.
    + now rewrite ent_upd_eq.
    + fold b in Ra, Rb. split; [exact Ra|]. split; [exact Rb|]. split; [now rewrite ent_upd_eq|].
      apply Hin1. apply (concat_upd_perm cs b [] ri H2).
  - (* append after the last record p *)
    assert (Hp_in : In p (l' ++ [p])) by (apply in_or_app; right; now left).
    assert (Hp_ri : p <> ri) by (intros ->; apply Hri_cs; auto).
    assert (Hfirst : hl_first hl <> NOREC).
    { assert (Hi : In (hl_first hl) (l' ++ [p])).
      { eapply is_chain_head_in; [|exact Hc]. destruct l'; discriminate. }
      rewrite Forall_forall in Hne. now apply Hne. }
    rewrite last_last in Hlast.
    pose proof (is_chain_bound _ _ _ _ Hc) as Hbd. rewrite Forall_forall in Hbd.
    pose proof (Hbd _ Hp_in) as Hplt.
    destruct (rd_lt _ _ Hplt) as (pr & Hpr).
    set (recs1 := upd (ht_recs t) (N.to_nat p) (set_next pr ri)).
    set (recs2 := upd recs1 (N.to_nat ri) (mkrec h NOREC v)).
    assert (Hl1 : length recs1 = length (ht_recs t)) by apply upd_length.
    exists r, hl, recs1, recs2, (upd (ht_hl t) b (mkhl (hl_first hl) ri)), (l' ++ [p]), fl'.
    apply N.eqb_neq in Hfirst. rewrite Hfirst, Hlast, Hpr. cbn [bind].
    split; [exact Hr|]. split; [now apply rd_Ok|]. split; [now apply wr_Ok|].
    split; [apply wr_Ok; now rewrite Hl1|]. split; [apply wr_Ok; exact Hblt|]. split; [reflexivity|].
    split; [exact H2|].
    rewrite Hrn.
    assert (Hri2 : ent recs2 ri = (h, v)).
    { unfold recs2. rewrite ent_upd_eq by now rewrite Hl1. reflexivity. }
    destruct (Rep_insert t cs (ri :: fl') h v ri fl' (l' ++ [p]) hl n (hl_first hl) recs2 R eq_refl H2 H1 Hn)
      as [Ra Rb].
    + unfold recs2. now rewrite upd_length.
    + intros j Hj Hjl. unfold recs2, recs1. rewrite nxt_upd_neq by now apply Hne_all.
      apply nxt_upd_neq. intros ->. tauto.
    + intros j Hj. unfold recs2. rewrite ent_upd_neq by (intros ->; tauto).
      unfold recs1. destruct (N.eq_dec j p) as [->|Hjp].
      * rewrite ent_upd_eq by exact Hplt. cbn. symmetry. now apply rd_ent.
      * now apply ent_upd_neq.
    + apply is_chain_app. exists ri. split.
      * eapply is_chain_redirect; [exact Hc| |].
        -- intros j Hj. unfold recs2, recs1.
           assert (Hjl : In j (l' ++ [p])) by (apply in_or_app; now left).
           rewrite nxt_upd_neq by (intros ->; apply Hri_cs; auto).
           apply nxt_upd_neq. intros ->.
           eapply NoDup_app_disj; [exact Hndl|exact Hj|now left].
        -- unfold recs2. rewrite nxt_upd_neq by exact Hp_ri. unfold recs1.
           now rewrite nxt_upd_eq.
      * apply is_chain_single. unfold recs2. rewrite nxt_upd_eq by now rewrite Hl1. reflexivity.
    + exact Hri2.
    + fold b in Ra, Rb. split; [exact Ra|]. split; [exact Rb|]. split; [exact Hri2|].
      apply Hin1. apply (concat_upd_perm cs b (l' ++ [p]) ri H2).
Qed.

(* ------------------------------------------------------------------------------------------ *)
(* simulation relations: concrete result vs result of the abstract function                    *)
(* ------------------------------------------------------------------------------------------ *)
Definition rsim (r : res ht) (a : res amm) : Prop :=
  match a with
  | Ok m => exists t' cs' fl', r = Ok t' /\ Rep t' cs' fl' /\ abs t' cs' = m
  | Err e => r = Err e
  end.

(* insert: code, table, and (when match_p is given) the record index returned through *match_p
   is a live record holding the value the abstract function names *)
Definition isim (wm : bool) (r : res (N * N * ht)) (a : res (N * V * amm)) : Prop :=
  match a with
  | Ok (c, mv, m) =>
      exists i t' cs' fl', r = Ok (c, i, t') /\ Rep t' cs' fl' /\ abs t' cs' = m /\
        (wm = true -> In i (concat cs') /\ snd (ent (ht_recs t') i) = mv)
  | Err e => r = Err e
  end.

Definition msim (r : res (N * ht)) (a : res (N * amm)) : Prop :=
  match a with
  | Ok (c, m) => exists t' cs' fl', r = Ok (c, t') /\ Rep t' cs' fl' /\ abs t' cs' = m
  | Err e => r = Err e
  end.

(* the C assertion [first_free_rec < size] is the statement [used < size] *)
Lemma Rep_ff_lt t cs fl : Rep t cs fl -> (ht_ff t <? ht_size t) = (ht_used t <? ht_size t).
Proof.
  intro R. pose proof (rep_fl _ _ _ R) as Hfl. pose proof (rep_all _ _ _ R) as Ha.
  pose proof (rep_used _ _ _ R) as Hu. rewrite app_length in Ha.
  destruct fl as [|x fl']; cbn in Hfl, Ha.
  - rewrite Hfl. assert (ht_used t = ht_size t) by lia. rewrite H. now rewrite N.ltb_irrefl.
  - destruct Hfl as (-> & _). assert (x < ht_size t) by (eapply Rep_in_fl_lt; [exact R|now left]).
    assert (ht_used t < ht_size t) by lia. apply N.ltb_lt in H, H0. now rewrite H, H0.
Qed.

Lemma Rep_used_le t cs fl : Rep t cs fl -> ht_used t <= ht_size t.
Proof.
  intro R. pose proof (rep_all _ _ _ R) as Ha. pose proof (rep_used _ _ _ R) as Hu.
  rewrite app_length in Ha. lia.
Qed.

Lemma Rep_set_resize t cs fl z : Rep t cs fl ->
  Rep (set_resize t z) cs fl /\ abs (set_resize t z) cs = mkamm z (a_bk (abs t cs)).
Proof.
  intro R. split; [|reflexivity]. destruct R. constructor; auto.
Qed.

Lemma find_rec_abs t cs fl eq h : Rep t cs fl ->
  exists l, nth_error cs (N.to_nat (bucket t h)) = Some l /\
    find_rec t eq h = Ok (find (fun i => ematch eq h (ent (ht_recs t) i)) l) /\
    find (ematch eq h) (a_row (abs t cs) h) =
      option_map (ent (ht_recs t)) (find (fun i => ematch eq h (ent (ht_recs t) i)) l).
Proof.
  intro R. destruct (find_rec_sim _ _ _ eq h R) as (hl & l & H1 & H2 & H3 & H4 & H5).
  exists l. split; [exact H2|]. split; [exact H5|]. rewrite H4. apply find_map.
Qed.

Lemma isim_ok wm c mv m i t' cs' fl' r :
  r = Ok (c, i, t') -> Rep t' cs' fl' -> abs t' cs' = m ->
  (wm = true -> In i (concat cs') /\ snd (ent (ht_recs t') i) = mv) -> isim wm r (Ok (c, mv, m)).
Proof. intros. exists i, t', cs', fl'. auto. Qed.

Lemma insert_with_sim grow agrow t cs fl check wm h v :
  Rep t cs fl ->
  (forall t1 cs1 fl1 c, Rep t1 cs1 fl1 -> ht_size t1 = ht_size t ->
                        rsim (grow t1 c) (agrow (abs t1 cs1) c)) ->
  isim wm (insert_with veq grow t check wm h v) (a_insert_with agrow (abs t cs) check wm h v).
Proof.
  intros R Hg. unfold insert_with, a_insert_with.
  destruct (find_rec_abs _ _ _ (veq true v) h R) as (l & Hl & Hf & Hfa).
  assert (Hchk : exists o,
     (if check then find_rec t (veq true v) h else Ok None) = Ok o /\
     (if check then find (ematch (veq true v) h) (a_row (abs t cs) h) else None) =
       option_map (ent (ht_recs t)) o /\ (forall i, o = Some i -> In i (concat cs))).
  { destruct check.
    - eexists. split; [exact Hf|]. split; [exact Hfa|]. intros i Hi. apply find_some in Hi.
      eapply In_concat_nth; [exact Hl|tauto].
    - exists None. repeat split; auto. discriminate. }
  destruct Hchk as (o & -> & -> & Ho). cbn [bind].
  destruct o as [i|]; cbn [option_map].
  { eapply isim_ok; [reflexivity|exact R|reflexivity|]. intros _. split; [now apply Ho|reflexivity]. }
  rewrite (abs_used _ _ _ R), (abs_size _ _ _ R), <- (Rep_ff_lt _ _ _ R).
  destruct (ht_ff t <? ht_size t) eqn:Hff; cbn [negb]; [|reflexivity].
  apply N.ltb_lt in Hff.
  destruct (insert_core_ok t cs fl h v R Hff)
    as (r & hl & recs1 & recs2 & hl2 & l1 & fl' & E1 & E2 & E3 & E4 & E5 & Efl & El1 & R1 & A1 & Eri & Iri).
  rewrite E1. cbn [bind]. rewrite E2. cbn [bind]. rewrite E3. cbn [bind]. rewrite E4. cbn [bind].
  rewrite E5. cbn [bind].
  set (t1 := mkht ((ht_used t + 1) mod U32) (ht_size t) (ht_resize t) (r_next r) hl2 recs2) in *.
  set (cs1 := upd cs (N.to_nat (bucket t h)) (l1 ++ [ht_ff t])) in *.
  cbn zeta in R1, A1, Iri. change recs2 with (ht_recs t1) in Eri.
  change (a_rz (abs t cs)) with (ht_resize t).
  destruct (ht_resize t =? 0) eqn:Hrz0.
  { eapply isim_ok; [reflexivity|exact R1|exact A1|]. intros _. split; [exact Iri|now rewrite Eri]. }
  assert (Hpct : pct t1 = a_pct (ht_used t + 1) (ht_size t)).
  { unfold pct, a_pct, t1. cbn [ht_used ht_size]. pose proof (Rep_used_le _ _ _ R) as Hu.
    pose proof (Rep_size_bounds _ _ _ R) as Hs. pose proof (rep_used _ _ _ R1) as Hu1.
    pose proof (Rep_used_le _ _ _ R1) as Hu1'. cbn [ht_used ht_size t1] in Hu1'.
    rewrite (N.mod_small (ht_used t + 1)); [reflexivity|].
    apply N.ltb_lt in Hff. rewrite (Rep_ff_lt _ _ _ R) in Hff. apply N.ltb_lt in Hff. unfold U32. lia. }
  rewrite Hpct. set (pc := a_pct (ht_used t + 1) (ht_size t)).
  set (rz := if (ht_resize t =? 1) && (LYHT_FIRST_SHRINK_PERCENTAGE <=? pc) then 2 else ht_resize t).
  destruct (Rep_set_resize t1 cs1 fl' rz R1) as [R2 A2]. rewrite A1 in A2. cbn [a_bk] in A2.
  destruct ((rz =? 2) && (LYHT_ENLARGE_PERCENTAGE <=? pc)).
  2:{ eapply isim_ok; [reflexivity|exact R2|exact A2|]. intros _. split; [exact Iri|].
      change (ht_recs (set_resize t1 rz)) with (ht_recs t1). now rewrite Eri. }
  specialize (Hg (set_resize t1 rz) cs1 fl' check R2 eq_refl). rewrite A2 in Hg.
  destruct (agrow _ check) as [m3|e]; cbn [rsim bind] in *.
  2:{ rewrite Hg. reflexivity. }
  destruct Hg as (t3 & cs3 & fl3 & -> & R3 & A3). cbn [bind].
  destruct wm.
  2:{ eapply isim_ok; [reflexivity|exact R3|exact A3|]. discriminate. }
  destruct (find_rec_abs _ _ _ (veq false v) h R3) as (l3 & Hl3 & Hf3 & Hfa3).
  rewrite Hf3. cbn [bind]. rewrite <- A3, Hfa3.
  destruct (find _ l3) as [j|] eqn:Ej; cbn [option_map]; [|reflexivity].
  eapply isim_ok; [reflexivity|exact R3|reflexivity|]. intros _. split; [|reflexivity].
  apply find_some in Ej. eapply In_concat_nth; [exact Hl3|tauto].
Qed.

(* ------------------------------------------------------------------------------------------ *)
(* lyht_resize: traversal of the old arrays, the fresh table, the re-insertion                 *)
(* ------------------------------------------------------------------------------------------ *)
Lemma collect_all_chains recs : forall hls cs,
  length hls = length cs ->
  (forall b hl l, nth_error hls b = Some hl -> nth_error cs b = Some l ->
     is_chain recs (hl_first hl) l NOREC /\ Forall (fun i => i <> NOREC) l /\
     (length l < S (length recs))%nat) ->
  collect_all recs hls = Ok (concat (map (map (ent recs)) cs)).
Proof.
  induction hls as [|hl hls IH]; intros [|c cs] Hlen H; cbn in Hlen; try lia; [reflexivity|].
  cbn [collect_all map concat].
  destruct (H 0%nat hl c eq_refl eq_refl) as (Hc & Hn & Hl).
  rewrite (collect_chain_chain recs c _ _ Hc Hn Hl). cbn [bind].
  rewrite (IH cs); [reflexivity|lia|]. intros b hl' l' H1 H2. apply (H (S b)); auto.
Qed.

Lemma collect_all_sim t cs fl : Rep t cs fl ->
  collect_all (ht_recs t) (ht_hl t) = Ok (concat (a_bk (abs t cs))).
Proof.
  intro R. unfold abs. cbn [a_bk]. apply collect_all_chains.
  - rewrite (rep_lh _ _ _ R), (rep_lc _ _ _ R). reflexivity.
  - intros b hl l H1 H2. destruct (rep_bk _ _ _ R _ _ _ H1 H2) as (Hc & _ & _).
    destruct (Rep_chain_ne _ _ _ _ _ R H2) as (Hne & Hlen & _). auto.
Qed.


Lemma init_recs_nxt sz k : (k < N.to_nat sz)%nat ->
  nxt (init_recs vdef sz) (N.of_nat k) = Some (N.of_nat (S k)).
Proof.
  intro H. unfold nxt, init_recs. rewrite Nat2N.id, nth_error_map.
  rewrite (List.nth_error_nth' _ 0%nat) by now rewrite seq_length. rewrite seq_nth by exact H.
  cbn. f_equal. lia.
Qed.

Lemma init_recs_chain sz : forall m k, (k + m <= N.to_nat sz)%nat ->
  is_chain (init_recs vdef sz) (N.of_nat k) (map N.of_nat (seq k m)) (N.of_nat (k + m)).
Proof.
  induction m as [|m IH]; intros k H; cbn [seq map is_chain].
  - f_equal. lia.
  - split; [reflexivity|]. exists (N.of_nat (S k)). split; [apply init_recs_nxt; lia|].
    replace (k + S m)%nat with (S k + m)%nat by lia. apply IH. lia.
Qed.


Lemma init_tab_Rep sz rz : size_ok sz ->
  Rep (init_tab vdef sz rz) (repeat [] (N.to_nat sz)) (map N.of_nat (seq 0 (N.to_nat sz))) /\
  abs (init_tab vdef sz rz) (repeat [] (N.to_nat sz)) = mkamm rz (repeat [] (N.to_nat sz)).
Proof.
  intros [Hp Hm]. split.
  - constructor; cbn [init_tab ht_size ht_recs ht_hl ht_used ht_ff]; auto.
    + unfold init_recs. now rewrite map_length, seq_length.
    + unfold init_hl. now rewrite repeat_length.
    + now rewrite repeat_length.
    + rewrite concat_repeat_nil. cbn [app]. apply FinFun.Injective_map_NoDup; [|apply seq_NoDup].
      intros x y Hxy. lia.
    + rewrite concat_repeat_nil. cbn [app]. apply Forall_forall. intros i Hi.
      apply in_map_iff in Hi. destruct Hi as (k & <- & Hk). apply in_seq in Hk. lia.
    + rewrite concat_repeat_nil. cbn [app]. now rewrite map_length, seq_length.
    + intros b hl l H1 H2. apply nth_error_repeat in H1, H2. subst. repeat split; constructor.
    + pose proof (init_recs_chain sz (N.to_nat sz) 0 ltac:(lia)) as H. cbn [Nat.add] in H.
      rewrite N2Nat.id in H. exact H.
    + now rewrite concat_repeat_nil.
  - unfold abs. cbn [init_tab ht_resize]. f_equal.
    generalize (ent (ht_recs (init_tab vdef sz rz))). intro f.
    induction (N.to_nat sz) as [|n IH]; cbn; [reflexivity|]. now rewrite IH.
Qed.

Lemma reinsert_sim check : forall es t cs fl, Rep t cs fl ->
  rsim (reinsert (fun t' => insert_inner veq t' check) t es)
       (a_reinsert (fun m => a_insert_inner m check) (abs t cs) es).
Proof.
  induction es as [|e es IH]; intros t cs fl R; cbn [reinsert a_reinsert].
  - exists t, cs, fl. auto.
  - pose proof (insert_with_sim (fun _ _ => Err E_FUEL) (fun _ _ => Err E_FUEL) t cs fl check false
                  (fst e) (snd e) R) as Hs.
    fold (insert_inner veq t check (fst e) (snd e)) in Hs.
    fold (a_insert_inner (abs t cs) check (fst e) (snd e)) in Hs.
    specialize (Hs ltac:(intros; reflexivity)).
    destruct (a_insert_inner (abs t cs) check (fst e) (snd e)) as [[[c mv] m]|er]; cbn [isim bind] in *.
    + destruct Hs as (i & t' & cs' & fl' & -> & R' & A' & _). cbn [bind fst snd].
      destruct (c =? LY_ERR_SUCCESS); [|reflexivity]. rewrite <- A'. exact (IH t' cs' fl' R').
    + rewrite Hs. reflexivity.
Qed.

Theorem lyht_resize_sim t cs fl op check : Rep t cs fl -> size_ok (new_size (ht_size t) op) ->
  rsim (lyht_resize vdef veq t op check) (a_resize (abs t cs) op check).
Proof.
  intros R Hs. unfold lyht_resize, resize_with, a_resize.
  rewrite (collect_all_sim _ _ _ R). cbn [bind]. rewrite (abs_size _ _ _ R).
  destruct (init_tab_Rep (new_size (ht_size t) op) (ht_resize t) Hs) as [R0 A0].
  change (a_rz (abs t cs)) with (ht_resize t). rewrite <- A0. exact (reinsert_sim check _ _ _ _ R0).
Qed.


Lemma Rep_size_ok t cs fl : Rep t cs fl -> size_ok (ht_size t).
Proof. intro R. split; [apply (rep_pow _ _ _ R)|apply (rep_min _ _ _ R)]. Qed.

(* lyht_insert / lyht_insert_no_check *)
Theorem insert_sim t cs fl check wm h v : Rep t cs fl -> ht_size t <= 1073741824 ->
  isim wm (insert vdef veq t check wm h v) (a_insert (abs t cs) check wm h v).
Proof.
  intros R Hle. unfold insert, a_insert. apply (insert_with_sim _ _ t cs fl); [exact R|].
  intros t1 cs1 fl1 c R1 Hs. apply (lyht_resize_sim t1 cs1 fl1); [exact R1|]. rewrite Hs.
  apply size_ok_double; [now apply (Rep_size_ok _ _ _ R)|exact Hle].
Qed.

(* ------------------------------------------------------------------------------------------ *)
(* lyht_remove                                                                                 *)
(* ------------------------------------------------------------------------------------------ *)


Lemma is_chain_norec_nil recs a l : is_chain recs a l NOREC -> Forall (fun i => i <> NOREC) l ->
  (a = NOREC <-> l = []).
Proof.
  destruct l as [|i l]; cbn; intros H Hn.
  - tauto.
  - destruct H as (-> & _). inversion Hn; subst. split; [tauto|discriminate].
Qed.

Lemma Rep_remove t cs fl h l1 ri l2 hl first' last' recs2 :
  Rep t cs fl ->
  nth_error cs (N.to_nat (bucket t h)) = Some (l1 ++ ri :: l2) ->
  nth_error (ht_hl t) (N.to_nat (bucket t h)) = Some hl ->
  length recs2 = length (ht_recs t) ->
  (forall j, In j (concat cs ++ fl) -> ~ In j (l1 ++ ri :: l2) -> nxt recs2 j = nxt (ht_recs t) j) ->
  (forall j, In j (concat cs) -> j <> ri -> ent recs2 j = ent (ht_recs t) j) ->
  is_chain recs2 first' (l1 ++ l2) NOREC -> last' = last (l1 ++ l2) NOREC ->
  nxt recs2 ri = Some (ht_ff t) ->
  let t1 := mkht ((ht_used t + U32 - 1) mod U32) (ht_size t) (ht_resize t) ri
                 (upd (ht_hl t) (N.to_nat (bucket t h)) (mkhl first' last')) recs2 in
  let cs1 := upd cs (N.to_nat (bucket t h)) (l1 ++ l2) in
  Rep t1 cs1 (ri :: fl) /\
  abs t1 cs1 = mkamm (ht_resize t)
                 (upd (a_bk (abs t cs)) (a_bucket (abs t cs) h) (map (ent (ht_recs t)) (l1 ++ l2))) /\
  ht_used t1 = ht_used t - 1 /\ 1 <= ht_used t.
Proof.
  intros R Hl Hhl Hlen Hnx Hent Hch Hlast Hri t1 cs1. subst t1.
  set (b := N.to_nat (bucket t h)) in *. set (l := l1 ++ ri :: l2) in *.
  pose proof (Rep_size_bounds _ _ _ R) as Hsz.
  pose proof (rep_nodup _ _ _ R) as Hnd.
  assert (Hp0 : Permutation (ri :: concat cs1) (concat cs)).
  { unfold cs1. apply (concat_upd_remove_perm cs b l1 ri l2 Hl). }
  assert (Hperm : Permutation (concat cs1 ++ ri :: fl) (concat cs ++ fl)).
  { rewrite <- Hp0. cbn. apply Permutation_sym, Permutation_middle. }
  assert (Hl_cs : forall j, In j l -> In j (concat cs)) by (intros j Hj; eapply In_concat_nth; eauto).
  destruct (Rep_chain_ne _ _ _ _ _ R Hl) as (Hne & _ & Hndl & Hltl).
  assert (Hri_l : In ri l) by (apply in_or_app; right; now left).
  assert (Hsub : forall j, In j (l1 ++ l2) -> In j l /\ j <> ri).
  { intros j Hj. split.
    - apply in_app_or in Hj. apply in_or_app. destruct Hj; [now left|right; now right].
    - intros ->. unfold l in Hndl. apply NoDup_remove_2 in Hndl. auto. }
  assert (Hfl_l : forall j, In j fl -> ~ In j l).
  { intros j Hj Hj'. eapply NoDup_app_disj; [exact Hnd|apply Hl_cs, Hj'|exact Hj]. }
  assert (Hlen1 : length (concat cs) = S (length (concat cs1))).
  { rewrite <- (Permutation_length Hp0). reflexivity. }
  pose proof (rep_used _ _ _ R) as Hu. pose proof (rep_all _ _ _ R) as Ha. rewrite app_length in Ha.
  assert (Hu1 : (ht_used t + U32 - 1) mod U32 = ht_used t - 1).
  { unfold U32 in *. replace (ht_used t + 4294967296 - 1) with (ht_used t - 1 + 1 * 4294967296) by lia.
    rewrite N.mod_add by lia. apply N.mod_small. lia. }
  split; [|split; [|split; [exact Hu1|lia]]].
  - constructor; cbn [ht_size ht_recs ht_hl ht_used ht_ff].
    + apply (rep_pow _ _ _ R).
    + apply (rep_min _ _ _ R).
    + rewrite Hlen. apply (rep_lr _ _ _ R).
    + rewrite upd_length. apply (rep_lh _ _ _ R).
    + unfold cs1. rewrite upd_length. apply (rep_lc _ _ _ R).
    + eapply Permutation_NoDup; [apply Permutation_sym, Hperm|exact Hnd].
    + eapply Forall_perm; [apply Permutation_sym, Hperm|apply (rep_lt _ _ _ R)].
    + rewrite (Permutation_length Hperm). apply (rep_all _ _ _ R).
    + intros b0 hl0 l0 H0 H0'. destruct (Nat.eq_dec b0 b) as [->|Hneb].
      * rewrite (nth_error_upd_eq' _ _ _ _ Hhl) in H0. unfold cs1 in H0'.
        rewrite (nth_error_upd_eq' _ _ _ _ Hl) in H0'. inversion H0; inversion H0'; subst.
        split; [exact Hch|]. split; [reflexivity|].
        destruct (rep_bk _ _ _ R _ _ _ Hhl Hl) as (_ & _ & Hh). rewrite Forall_forall in *.
        intros j Hj. destruct (Hsub j Hj) as [Hjl Hjr]. cbn [ht_size ht_recs]. rewrite Hent by auto. auto.
      * rewrite nth_error_upd_neq in H0 by auto. unfold cs1 in H0'. rewrite nth_error_upd_neq in H0' by auto.
        pose proof (rep_bk _ _ _ R _ _ _ H0 H0') as Hok.
        eapply bucket_ok_frame; [exact Hok|reflexivity|]. cbn [ht_recs]. intros j Hj.
        assert (Hjc : In j (concat cs)) by (eapply In_concat_nth; eauto).
        assert (Hjl : ~ In j l).
        { intro Hjl. eapply (concat_nodup_disj cs b0 b); eauto. eapply NoDup_app_l; eauto. }
        split.
        -- apply Hnx; auto. apply in_or_app. now left.
        -- apply Hent; auto. intros ->. auto.
    + cbn [is_chain]. split; [reflexivity|]. exists (ht_ff t). split; [exact Hri|].
      eapply is_chain_ext; [|apply (rep_fl _ _ _ R)]. intros j Hj. apply Hnx; auto.
      apply in_or_app. now right.
    + rewrite Hu1, Hu, Hlen1. lia.
  - destruct (abs_row _ _ _ h R) as (hl' & l' & E1 & E2 & _ & E4).
    rewrite (abs_bucket _ _ _ _ R). fold b. unfold abs. cbn [ht_resize ht_recs a_bk]. f_equal.
    unfold cs1. rewrite upd_map.
    assert (Hagree : forall j, In j (concat cs1) -> ent recs2 j = ent (ht_recs t) j).
    { intros j Hj. assert (Hj' : In j (ri :: concat cs1)) by now right.
      apply (Permutation_in _ Hp0) in Hj'. apply Hent; auto. intros ->.
      pose proof (Permutation_NoDup (Permutation_sym Hp0) (NoDup_app_l _ _ Hnd)) as Hn1.
      inversion Hn1; auto. }
    transitivity (map (map (ent (ht_recs t))) (upd cs b (l1 ++ l2))).
    + rewrite <- upd_map. apply map_map_ext_in. exact Hagree.
    + now rewrite upd_map.
Qed.

Lemma msim_ok c m t' cs' fl' r :
  r = Ok (c, t') -> Rep t' cs' fl' -> abs t' cs' = m -> msim r (Ok (c, m)).
Proof. intros. exists t', cs', fl'. auto. Qed.

Theorem lyht_remove_sim t cs fl h v : Rep t cs fl ->
  msim (lyht_remove vdef veq t h v) (a_remove (abs t cs) h v).
Proof.
  intro R. unfold lyht_remove, a_remove.
  pose proof (Rep_size_bounds _ _ _ R) as Hsz.
  destruct (find_rec_sim _ _ _ (veq true v) h R) as (hl & l & Hhl & Hl & Hok & Hrow & Hf).
  rewrite Hf, Hrow, existsb_map. cbn [bind].
  destruct (find _ l) as [ri|] eqn:Efind.
  2:{ apply find_none_existsb in Efind. rewrite Efind. cbn [negb].
      eapply msim_ok; [reflexivity|exact R|reflexivity]. }
  rewrite (find_some_existsb _ _ _ Efind). cbn [negb].
  destruct (find_split _ _ _ Efind) as (l1 & l2 & -> & Hpri & Hl1).
  set (b := N.to_nat (bucket t h)) in *.
  destruct Hok as (Hc & Hlast & Hh).
  destruct (Rep_chain_ne _ _ _ _ _ R Hl) as (Hne & Hlenl & Hndl & Hltl).
  pose proof (rep_nodup _ _ _ R) as Hnd.
  assert (Hl_cs : forall j, In j (l1 ++ ri :: l2) -> In j (concat cs)) by (intros j Hj; eapply In_concat_nth; eauto).
  assert (Hri_l : In ri (l1 ++ ri :: l2)) by (apply in_or_app; right; now left).
  assert (Hri_l1 : ~ In ri l1) by (apply NoDup_remove_2 in Hndl; intro; apply Hndl, in_or_app; now left).
  assert (Hri_l2 : ~ In ri l2) by (apply NoDup_remove_2 in Hndl; intro; apply Hndl, in_or_app; now right).
  assert (Hri_ne : ri <> NOREC) by (rewrite Forall_forall in Hne; now apply Hne).
  apply rd_Ok in Hhl as Hhl'. rewrite Hhl'. cbn [bind].
  rewrite (prev_loop_chain (ht_recs t) ri l1 l2 _ _ NOREC Hc Hri_l1 Hri_ne).
  2:{ now apply Forall_app_l in Hne. }
  2:{ rewrite app_length in Hlenl. cbn in Hlenl. lia. }
  cbn [bind].
  destruct (is_chain_mid _ _ _ _ _ _ Hc) as (nx & Hnx & Hc2).
  destruct (nxt_rd _ _ _ Hnx) as (r & Hr & Hrn). rewrite Hr. cbn [bind]. rewrite Hrn.
  assert (Hrilt : (N.to_nat ri < length (ht_recs t))%nat) by (eapply nxt_lt; eauto).
  assert (Hne2 : Forall (fun i => i <> NOREC) l2).
  { apply Forall_app_r in Hne. now inversion Hne. }
  pose proof (is_chain_norec_nil _ _ _ Hc2 Hne2) as Hnx_nil.
  assert (Hblt : (b < length (ht_hl t))%nat) by (apply nth_error_Some; congruence).
  assert (Hne_l : forall j, In j (concat cs ++ fl) -> ~ In j (l1 ++ ri :: l2) -> j <> ri).
  { intros j _ Hj ->. auto. }
  (* the rest of the function once the new arrays are known *)
  assert (Hfin : forall first' last' recs2,
    length recs2 = length (ht_recs t) ->
    (forall j, In j (concat cs ++ fl) -> ~ In j (l1 ++ ri :: l2) -> nxt recs2 j = nxt (ht_recs t) j) ->
    (forall j, In j (concat cs) -> j <> ri -> ent recs2 j = ent (ht_recs t) j) ->
    is_chain recs2 first' (l1 ++ l2) NOREC -> last' = last (l1 ++ l2) NOREC ->
    nxt recs2 ri = Some (ht_ff t) ->
    msim
      (let t1 := mkht ((ht_used t + U32 - 1) mod U32) (ht_size t) (ht_resize t) ri
                      (upd (ht_hl t) b (mkhl first' last')) recs2 in
       if (ht_resize t =? 2) && (pct t1 <? LYHT_SHRINK_PERCENTAGE) && (LYHT_MIN_SIZE <? ht_size t)
       then bind (lyht_resize vdef veq t1 Shrink true) (fun t2 => Ok (LY_ERR_SUCCESS, t2))
       else Ok (LY_ERR_SUCCESS, t1))
      (let bk1 := upd (a_bk (abs t cs)) (a_bucket (abs t cs) h)
                    (remove_first (ematch (veq true v) h) (map (ent (ht_recs t)) (l1 ++ ri :: l2))) in
       let m1 := mkamm (a_rz (abs t cs)) bk1 in
       if (a_rz (abs t cs) =? 2) && (a_pct (a_used (abs t cs) - 1) (a_size (abs t cs)) <? LYHT_SHRINK_PERCENTAGE)
          && (LYHT_MIN_SIZE <? a_size (abs t cs))
       then bind (a_resize m1 Shrink true) (fun m2 => Ok (LY_ERR_SUCCESS, m2))
       else Ok (LY_ERR_SUCCESS, m1))).
  { intros first' last' recs2 G1 G2 G3 G4 G5 G6.
    destruct (Rep_remove t cs fl h l1 ri l2 hl first' last' recs2 R Hl Hhl G1 G2 G3 G4 G5 G6)
      as (R1 & A1 & U1 & U2).
    fold b in R1, A1, U1. cbn zeta.
    set (t1 := mkht ((ht_used t + U32 - 1) mod U32) (ht_size t) (ht_resize t) ri
                    (upd (ht_hl t) b (mkhl first' last')) recs2) in *.
    rewrite (remove_first_map_split (ent (ht_recs t)) _ l1 ri l2 Hl1 Hpri).
    rewrite (abs_used _ _ _ R), (abs_size _ _ _ R). change (a_rz (abs t cs)) with (ht_resize t).
    assert (Hpct : pct t1 = a_pct (ht_used t - 1) (ht_size t)).
    { unfold pct, a_pct. rewrite U1. reflexivity. }
    rewrite Hpct.
    destruct ((ht_resize t =? 2) && (a_pct (ht_used t - 1) (ht_size t) <? LYHT_SHRINK_PERCENTAGE)) eqn:Ec;
      cbn [andb]; [|eapply msim_ok; [reflexivity|exact R1|exact A1]].
    destruct (LYHT_MIN_SIZE <? ht_size t) eqn:Emin; [|eapply msim_ok; [reflexivity|exact R1|exact A1]].
    apply N.ltb_lt in Emin.
    pose proof (lyht_resize_sim t1 _ _ Shrink true R1) as Hs.
    specialize (Hs (size_ok_half _ (Rep_size_ok _ _ _ R) Emin)).
    rewrite A1 in Hs.
    destruct (a_resize _ Shrink true) as [m2|e]; cbn [rsim bind] in *.
    - destruct Hs as (t2 & cs2 & fl2 & -> & R2 & A2). cbn [bind].
      eapply msim_ok; [reflexivity|exact R2|exact A2].
    - rewrite Hs. reflexivity. }
  destruct (list_snoc_case l1) as [->|(l1' & p & ->)].
  - (* the record is the first of its chain *)
    cbn [last app] in *. rewrite N.eqb_refl. cbn [bind].
    rewrite (wr_Ok _ ri (set_next r (ht_ff t)) Hrilt). cbn [bind].
    rewrite (wr_Ok _ (bucket t h) _ Hblt). cbn [bind]. fold b.
    apply Hfin.
    + apply upd_length.
    + intros j Hj Hjl. apply nxt_upd_neq. now apply Hne_l.
    + intros j Hj Hjr. now apply ent_upd_neq.
    + eapply is_chain_ext; [|exact Hc2]. intros j Hj. apply nxt_upd_neq. intros ->. auto.
    + destruct (nx =? NOREC) eqn:En.
      * apply N.eqb_eq in En. apply Hnx_nil in En. now subst l2.
      * apply N.eqb_neq in En. rewrite Hlast. apply last_cons_ne. intro E. apply En. now apply Hnx_nil.
    + now rewrite nxt_upd_eq.
  - (* the record follows p *)
    assert (Hp_in : In p ((l1' ++ [p]) ++ ri :: l2)).
    { apply in_or_app. left. apply in_or_app. right. now left. }
    assert (Hp_ne : p <> NOREC) by (rewrite Forall_forall in Hne; now apply Hne).
    assert (Hp_ri : p <> ri) by (intros ->; apply Hri_l1; apply in_or_app; right; now left).
    rewrite last_last. apply N.eqb_neq in Hp_ne as Hp_ne'. rewrite Hp_ne'.
    pose proof (is_chain_bound _ _ _ _ Hc) as Hbd. rewrite Forall_forall in Hbd.
    pose proof (Hbd _ Hp_in) as Hplt.
    destruct (rd_lt _ _ Hplt) as (pr & Hpr). rewrite Hpr. cbn [bind].
    rewrite (wr_Ok _ p _ Hplt). cbn [bind].
    set (recs1 := upd (ht_recs t) (N.to_nat p) (set_next pr nx)).
    assert (Hl1' : length recs1 = length (ht_recs t)) by apply upd_length.
    rewrite (wr_Ok recs1 ri (set_next r (ht_ff t))) by now rewrite Hl1'. cbn [bind].
    rewrite (wr_Ok _ (bucket t h) _ Hblt). cbn [bind]. fold b.
    apply Hfin.
    + now rewrite upd_length.
    + intros j Hj Hjl. rewrite nxt_upd_neq by now apply Hne_l. unfold recs1.
      apply nxt_upd_neq. intros ->. auto.
    + intros j Hj Hjr. rewrite ent_upd_neq by exact Hjr. unfold recs1.
      destruct (N.eq_dec j p) as [->|Hjp].
      * rewrite ent_upd_eq by exact Hplt. cbn. symmetry. now apply rd_ent.
      * now apply ent_upd_neq.
    + apply is_chain_app in Hc. destruct Hc as (m' & Hc1 & Hc3). cbn in Hc3. destruct Hc3 as (-> & _).
      apply is_chain_app. exists nx. split.
      * eapply is_chain_redirect; [exact Hc1| |].
        -- intros j Hj. rewrite nxt_upd_neq.
           2:{ intros ->. apply Hri_l1. apply in_or_app. now left. }
           unfold recs1. apply nxt_upd_neq. intros ->.
           apply NoDup_app_l in Hndl. eapply NoDup_app_disj; [exact Hndl|exact Hj|now left].
        -- rewrite nxt_upd_neq by exact Hp_ri. unfold recs1. now rewrite nxt_upd_eq.
      * eapply is_chain_ext; [|exact Hc2]. intros j Hj. rewrite nxt_upd_neq by (intros ->; auto).
        unfold recs1. apply nxt_upd_neq. intros ->.
        rewrite <- app_assoc in Hndl. apply NoDup_app_r in Hndl. cbn in Hndl.
        inversion Hndl as [|? ? Hx _]. apply Hx. now right.
    + destruct (nx =? NOREC) eqn:En.
      * apply N.eqb_eq in En. apply Hnx_nil in En. subst l2. rewrite app_nil_r. now rewrite last_last.
      * apply N.eqb_neq in En. rewrite Hlast.
        assert (Hl2 : l2 <> []) by (intro E; apply En; now apply Hnx_nil).
        destruct (list_snoc_case l2) as [E|(l2' & q & ->)]; [contradiction|].
        rewrite !app_assoc. change (ri :: l2' ++ [q]) with ((ri :: l2') ++ [q]).
        rewrite !app_assoc. now rewrite !last_last.
    + rewrite nxt_upd_eq by now rewrite Hl1'. reflexivity.
Qed.
End P.


Arguments mkamm {V}.
Arguments a_rz {V}.
Arguments a_bk {V}.
Arguments a_size {V}.
Arguments a_used {V}.
Arguments a_bucket {V}.
Arguments a_row {V}.
Arguments ematch {V}.
Arguments a_find {V}.
Arguments a_lyht_find {V}.
Arguments a_find_next {V}.
Arguments a_insert_with {V}.
Arguments a_reinsert {V}.
Arguments a_insert_inner {V}.
Arguments a_resize {V}.
Arguments a_insert {V}.
Arguments a_remove {V}.
Arguments abs {V}.
Arguments Rep {V}.
Arguments rsim {V}.
Arguments isim {V}.
Arguments msim {V}.
Arguments next_result {V}.

(* ------------------------------------------------------------------------------------------ *)
(* Properties of the abstract functions themselves (no arena any more)                          *)
(* ------------------------------------------------------------------------------------------ *)
Section A.
Set Default Proof Using "All".
Variable V : Type.
Variable veq : bool -> V -> V -> bool.
Notation amm := (amm V).

Definition row_ok (sz : N) (b : nat) (row : list (N * V)) : Prop :=
  Forall (fun e => N.land (fst e) (sz - 1) = N.of_nat b) row.

(* shape of an abstract table: what the abstraction of a table satisfying Rep always satisfies *)
Record AShape (m : amm) : Prop := mkAShape {
  as_size : size_ok (a_size m);
  as_rows : forall b row, nth_error (a_bk m) b = Some row -> row_ok (a_size m) b row;
  as_used : a_used m <= a_size m
}.

Definition no_wrap (m : amm) : Prop := a_size m <= 2147483648.      (* 2^25: used * 100 fits uint32_t *)

Lemma a_pct_small used size : used <= size -> size <= 2147483648 -> 0 < size ->
  a_pct used size = used * 100 / size.
Proof.
  intros H1 H2 H3. reflexivity.
Qed.

Lemma div_lt_iff a b c : 0 < b -> (a / b < c <-> a < c * b).
Proof.
  intro Hb. split; intro H.
  - destruct (N.lt_ge_cases a (c * b)) as [H1|H1]; [exact H1|]. exfalso.
    assert (c <= a / b) by (apply N.div_le_lower_bound; lia). lia.
  - apply N.div_lt_upper_bound; lia.
Qed.

Lemma size_ok_pos sz : size_ok sz -> 8 <= sz.
Proof. intros [_ H]. exact H. Qed.

Lemma a_size_upd (m : amm) rz b row : a_size (mkamm rz (upd (a_bk m) b row)) = a_size m.
Proof. unfold a_size. cbn. now rewrite upd_length. Qed.

Lemma a_bucket_lt (m : amm) h : size_ok (a_size m) -> (a_bucket m h < length (a_bk m))%nat.
Proof.
  intros [(k & Hk & Hs) Hm]. unfold a_bucket.
  pose proof (land_mask_lt h k) as H. rewrite <- Hs in H. unfold a_size in *. lia.
Qed.

Lemma a_row_nth (m : amm) h : size_ok (a_size m) -> nth_error (a_bk m) (a_bucket m h) = Some (a_row m h).
Proof.
  intro Hs. unfold a_row. apply List.nth_error_nth'. now apply a_bucket_lt.
Qed.

Lemma a_used_append (m : amm) rz h v : size_ok (a_size m) ->
  a_used (mkamm rz (upd (a_bk m) (a_bucket m h) (a_row m h ++ [(h, v)]))) = a_used m + 1.
Proof.
  intro Hs. unfold a_used. cbn [a_bk].
  rewrite (Permutation_length (concat_upd_perm _ _ _ (h, v) (a_row_nth m h Hs))). cbn [length]. lia.
Qed.

Lemma AShape_append (m : amm) rz h v : AShape m -> a_used m < a_size m ->
  AShape (mkamm rz (upd (a_bk m) (a_bucket m h) (a_row m h ++ [(h, v)]))).
Proof.
  intros [Hs Hr Hu] Hlt. constructor.
  - now rewrite a_size_upd.
  - rewrite a_size_upd. cbn [a_bk]. intros b row Hb.
    destruct (Nat.eq_dec b (a_bucket m h)) as [->|Hne].
    + rewrite (nth_error_upd_eq' _ _ _ _ (a_row_nth m h Hs)) in Hb. inversion Hb; subst.
      apply Forall_app. split; [apply Hr; now apply a_row_nth|].
      constructor; [|constructor]. cbn [fst]. unfold a_bucket. lia.
    + rewrite nth_error_upd_neq in Hb by auto. now apply Hr.
  - rewrite a_size_upd, a_used_append by exact Hs. lia.
Qed.

Definition rzrel (m m' : amm) : Prop := a_rz m' = a_rz m \/ (a_rz m = 1 /\ a_rz m' = 2).

Lemma rzrel_refl m : rzrel m m.
Proof. now left. Qed.

Lemma rzrel_trans m1 m2 m3 : rzrel m1 m2 -> rzrel m2 m3 -> rzrel m1 m3.
Proof. unfold rzrel. intros [H1|[H1 H1']] [H2|[H2 H2']]; try (left; congruence); right; split; congruence. Qed.

(* one insertion of the re-insertion loop: it never asks for a nested resize *)
Lemma a_insert_inner_shape (m : amm) check h v :
  AShape m -> no_wrap m -> (a_used m + 1) * 100 < 75 * a_size m ->
  match a_insert_inner veq m check h v with
  | Ok (c, mv, m') =>
      (c = LY_ERR_EEXIST /\ m' = m /\ check = true /\
       exists e, find (ematch (veq true v) h) (a_row m h) = Some e) \/
      (c = LY_ERR_SUCCESS /\ mv = v /\ (check = true -> find (ematch (veq true v) h) (a_row m h) = None) /\
       a_bk m' = upd (a_bk m) (a_bucket m h) (a_row m h ++ [(h, v)]) /\ rzrel m m')
  | Err e => False
  end.
Proof.
  intros S W Hlf. unfold a_insert_inner, a_insert_with.
  pose proof (size_ok_pos _ (as_size _ S)) as Hpos.
  destruct check.
  - destruct (find _ _) as [e|] eqn:Ef; [left; eauto 6|]. revert Ef. generalize (find (ematch (veq true v) h) (a_row m h)).
    intros o ->. 
    assert (Hlt : a_used m < a_size m) by lia.
    apply N.ltb_lt in Hlt as Hlt'. rewrite Hlt'. cbn [negb].
    destruct (a_rz m =? 0) eqn:E0; [right; cbn; repeat split; auto using rzrel_refl; now left|].
    rewrite a_pct_small by (unfold no_wrap in W; lia).
    assert (Hr : (a_used m + 1) * 100 / a_size m < 75) by (apply div_lt_iff; lia).
    unfold LYHT_ENLARGE_PERCENTAGE.
    assert (E75 : (75 <=? (a_used m + 1) * 100 / a_size m) = false) by (apply N.leb_gt; exact Hr).
    rewrite E75, andb_false_r. right. cbn [a_bk a_rz]. repeat split; auto. unfold rzrel. cbn [a_rz].
    destruct (a_rz m =? 1) eqn:E1; cbn [andb]; [|now left].
    destruct (LYHT_FIRST_SHRINK_PERCENTAGE <=? _); [right; split; [now apply N.eqb_eq|reflexivity]|now left].
  - assert (Hlt : a_used m < a_size m) by lia.
    apply N.ltb_lt in Hlt as Hlt'. rewrite Hlt'. cbn [negb].
    destruct (a_rz m =? 0) eqn:E0; [right; cbn; repeat split; auto using rzrel_refl; try discriminate; now left|].
    rewrite a_pct_small by (unfold no_wrap in W; lia).
    assert (Hr : (a_used m + 1) * 100 / a_size m < 75) by (apply div_lt_iff; lia).
    unfold LYHT_ENLARGE_PERCENTAGE.
    assert (E75 : (75 <=? (a_used m + 1) * 100 / a_size m) = false) by (apply N.leb_gt; exact Hr).
    rewrite E75, andb_false_r. right. cbn [a_bk a_rz]. repeat split; auto; try discriminate. unfold rzrel. cbn [a_rz].
    destruct (a_rz m =? 1) eqn:E1; cbn [andb]; [|now left].
    destruct (LYHT_FIRST_SHRINK_PERCENTAGE <=? _); [right; split; [now apply N.eqb_eq|reflexivity]|now left].
Qed.

Lemma AShape_ext (m m' : amm) : a_bk m' = a_bk m -> AShape m -> AShape m'.
Proof.
  intros E [H1 H2 H3]. unfold a_size, a_used in *. constructor; unfold a_size, a_used; rewrite E; auto.
Qed.

(* why a checked re-insertion stops: some element es[i] finds an equal earlier element *)
Definition dup_witness (base es : list (N * V)) : Prop :=
  exists es1 h v es2 e0, es = es1 ++ (h, v) :: es2 /\ In e0 (base ++ es1) /\
    fst e0 = h /\ veq true v (snd e0) = true.

(* the re-insertion loop of lyht_resize: it can only stop at assert(!ret) *)
Lemma a_reinsert_shape check : forall es (m : amm),
  AShape m -> no_wrap m -> (a_used m + N.of_nat (length es)) * 100 < 75 * a_size m ->
  match a_reinsert (fun m0 => a_insert_inner veq m0 check) m es with
  | Ok m' => AShape m' /\ a_size m' = a_size m /\ a_used m' = a_used m + N.of_nat (length es) /\
             Permutation (concat (a_bk m')) (concat (a_bk m) ++ es) /\ rzrel m m'
  | Err e => e = E_ABORT /\ check = true /\ dup_witness (concat (a_bk m)) es
  end.
Proof.
  induction es as [|[h v] es IH]; intros m S W Hlf; cbn [a_reinsert].
  - cbn [length] in *. rewrite app_nil_r. split; [exact S|]. split; [reflexivity|]. split; [lia|].
    split; [reflexivity|apply rzrel_refl].
  - cbn [length fst snd] in *.
    pose proof (a_insert_inner_shape m check h v S W ltac:(lia)) as Hi.
    destruct (a_insert_inner veq m check h v) as [[[c mv] m1]|e]; [|contradiction]. cbn [bind fst snd].
    destruct Hi as [(-> & _ & Hck & e0 & He0)|(-> & _ & _ & Hbk & Hrz)].
    { cbn. split; [reflexivity|]. split; [exact Hck|]. exists [], h, v, es, e0. split; [reflexivity|].
      apply find_some in He0. destruct He0 as [Hin Hm]. unfold ematch in Hm. apply andb_true_iff in Hm.
      destruct Hm as [Hm1 Hm2]. apply N.eqb_eq in Hm1. rewrite app_nil_r. split; [|auto].
      eapply In_concat_nth; [apply (a_row_nth m h (as_size _ S))|exact Hin]. }
    cbn [N.eqb LY_ERR_SUCCESS].
    assert (S1 : AShape m1).
    { apply (AShape_ext (mkamm (a_rz m1) (upd (a_bk m) (a_bucket m h) (a_row m h ++ [(h, v)])))); [exact Hbk|].
      apply AShape_append; [exact S|lia]. }
    assert (Hsz : a_size m1 = a_size m) by (unfold a_size; rewrite Hbk; now rewrite upd_length).
    assert (Hus : a_used m1 = a_used m + 1).
    { unfold a_used at 1. rewrite Hbk. apply (a_used_append m (a_rz m) h v (as_size _ S)). }
    specialize (IH m1 S1). unfold no_wrap in *. rewrite Hsz, Hus in IH. specialize (IH W ltac:(lia)).
    assert (Hp1 : Permutation (concat (a_bk m1)) ((h, v) :: concat (a_bk m))).
    { rewrite Hbk. apply (concat_upd_perm _ _ _ (h, v) (a_row_nth m h (as_size _ S))). }
    destruct (a_reinsert _ m1 es) as [m'|e].
    2:{ destruct IH as (-> & Hck & es1 & h' & v' & es2 & e0 & -> & Hin & Hf & Hv).
        split; [reflexivity|]. split; [exact Hck|]. exists ((h, v) :: es1), h', v', es2, e0.
        split; [reflexivity|]. split; [|auto]. apply in_app_or in Hin. destruct Hin as [Hin|Hin].
        - apply (Permutation_in _ Hp1) in Hin. destruct Hin as [<-|Hin].
          + apply in_or_app. right. now left.
          + apply in_or_app. now left.
        - apply in_or_app. right. now right. }
    destruct IH as (S' & Hs' & Hu' & Hp' & Hrz'). split; [exact S'|]. split; [exact Hs'|]. split; [|split].
    + lia.
    + rewrite Hp', Hbk. rewrite (concat_upd_perm _ _ _ (h, v) (a_row_nth m h (as_size _ S))).
      cbn. apply Permutation_middle.
    + eapply rzrel_trans; eauto.
Qed.

Lemma AShape_empty rz sz : size_ok sz -> AShape (mkamm rz (repeat [] (N.to_nat sz))) /\
  a_size (mkamm rz (repeat (@nil (N * V)) (N.to_nat sz))) = sz /\ a_used (mkamm rz (repeat (@nil (N * V)) (N.to_nat sz))) = 0.
Proof.
  intro Hs. assert (E : a_size (mkamm rz (repeat (@nil (N * V)) (N.to_nat sz))) = sz).
  { unfold a_size. cbn. rewrite repeat_length. lia. }
  assert (E0 : a_used (mkamm rz (repeat (@nil (N * V)) (N.to_nat sz))) = 0).
  { unfold a_used. cbn. now rewrite concat_repeat_nil. }
  split; [|auto]. constructor.
  - now rewrite E.
  - cbn [a_bk]. intros b row H. apply nth_error_repeat in H. subst. constructor.
  - rewrite E0. lia.
Qed.

Lemma a_resize_shape (m : amm) op check :
  size_ok (new_size (a_size m) op) -> new_size (a_size m) op <= 2147483648 ->
  a_used m * 100 < 75 * new_size (a_size m) op ->
  match a_resize veq m op check with
  | Ok m' => AShape m' /\ a_size m' = new_size (a_size m) op /\ a_used m' = a_used m /\
             Permutation (concat (a_bk m')) (concat (a_bk m)) /\ rzrel m m'
  | Err e => e = E_ABORT /\ check = true /\ dup_witness [] (concat (a_bk m))
  end.
Proof.
  intros Hs Hw Hlf. unfold a_resize.
  destruct (AShape_empty (a_rz m) _ Hs) as (S0 & E0 & U0).
  pose proof (a_reinsert_shape check (concat (a_bk m)) _ S0) as H.
  unfold no_wrap in H. rewrite E0, U0 in H. specialize (H Hw).
  assert (Hl : N.of_nat (length (concat (a_bk m))) = a_used m) by reflexivity.
  rewrite Hl in H. specialize (H ltac:(lia)).
  destruct (a_reinsert _ _ _) as [m'|e].
  2:{ cbn [a_bk] in H. now rewrite concat_repeat_nil in H. }
  destruct H as (S' & Hs' & Hu' & Hp' & Hrz'). split; [exact S'|]. split; [exact Hs'|]. split; [lia|].
  split; [|exact Hrz']. cbn [a_bk] in Hp'. now rewrite concat_repeat_nil in Hp'.
Qed.

(* the table after the record has been linked in, before the enlarge test (resize <> 0) *)
Definition ins_m1 (m : amm) (h : N) (v : V) : amm :=
  mkamm (if (a_rz m =? 1) && (LYHT_FIRST_SHRINK_PERCENTAGE <=? a_pct (a_used m + 1) (a_size m)) then 2 else a_rz m)
        (upd (a_bk m) (a_bucket m h) (a_row m h ++ [(h, v)])).

Definition ins_find (m : amm) (check : bool) (h : N) (v : V) : option (N * V) :=
  if check then find (ematch (veq true v) h) (a_row m h) else None.

Lemma a_insert_shape (m : amm) check wm h v :
  AShape m -> a_size m <= 1073741824 -> a_rz m <= 2 ->
  match a_insert veq m check wm h v with
  | Ok (c, mv, m') =>
      AShape m' /\ rzrel m m' /\
      ((c = LY_ERR_EEXIST /\ m' = m /\ exists e, ins_find m check h v = Some e /\ mv = snd e) \/
       (c = LY_ERR_SUCCESS /\ ins_find m check h v = None /\ a_used m' = a_used m + 1 /\
        Permutation (concat (a_bk m')) ((h, v) :: concat (a_bk m)) /\
        (a_size m' = a_size m \/ (a_size m' = 2 * a_size m /\ 75 * a_size m <= (a_used m + 1) * 100)) /\
        (a_rz m <> 0 -> a_used m' * 100 < 75 * a_size m') /\
        (mv = v \/ (wm = true /\ exists e, find (ematch (veq false v) h) (a_row m' h) = Some e /\ mv = snd e))))
  | Err e =>
      e = E_ABORT /\ ins_find m check h v = None /\
      (a_size m <= a_used m \/
       (check = true /\ dup_witness [] (concat (a_bk (ins_m1 m h v)))) \/
       (exists m3, AShape m3 /\ Permutation (concat (a_bk m3)) ((h, v) :: concat (a_bk m)) /\ wm = true /\
                   find (ematch (veq false v) h) (a_row m3 h) = None))
  end.
Proof.
  intros S W Hrz. unfold a_insert, a_insert_with. fold (ins_find m check h v).
  pose proof (size_ok_pos _ (as_size _ S)) as Hpos. unfold LYHT_MIN_SIZE in Hpos.
  destruct (ins_find m check h v) as [e|] eqn:Efind.
  { split; [exact S|]. split; [apply rzrel_refl|]. left. eauto. }
  destruct (a_used m <? a_size m) eqn:Hlt; cbn [negb].
  2:{ apply N.ltb_ge in Hlt. auto. }
  apply N.ltb_lt in Hlt.
  pose proof (concat_upd_perm _ _ _ (h, v) (a_row_nth m h (as_size _ S))) as Hperm.
  destruct (a_rz m =? 0) eqn:E0.
  { split; [now apply AShape_append|]. split; [now left|]. right. split; [reflexivity|]. split; [reflexivity|].
    split; [now apply a_used_append, (as_size _ S)|]. split; [exact Hperm|].
    split; [left; apply a_size_upd|]. split; [|now left]. apply N.eqb_eq in E0. congruence. }
  apply N.eqb_neq in E0.
  fold (ins_m1 m h v).
  assert (Hsz1 : a_size (ins_m1 m h v) = a_size m) by apply a_size_upd.
  assert (Hus1 : a_used (ins_m1 m h v) = a_used m + 1) by (apply a_used_append, (as_size _ S)).
  assert (S1 : AShape (ins_m1 m h v)) by now apply AShape_append.
  assert (Hrz1 : rzrel m (ins_m1 m h v)).
  { unfold rzrel, ins_m1. cbn [a_rz]. destruct (a_rz m =? 1) eqn:E1; cbn [andb]; [|now left].
    destruct (LYHT_FIRST_SHRINK_PERCENTAGE <=? _); [right; split; [now apply N.eqb_eq|reflexivity]|now left]. }
  change (if (a_rz m =? 1) && (LYHT_FIRST_SHRINK_PERCENTAGE <=? a_pct (a_used m + 1) (a_size m)) then 2 else a_rz m)
    with (a_rz (ins_m1 m h v)).
  assert (Hpct : a_pct (a_used m + 1) (a_size m) = (a_used m + 1) * 100 / a_size m) by (apply a_pct_small; lia).
  destruct ((a_rz (ins_m1 m h v) =? 2) && (LYHT_ENLARGE_PERCENTAGE <=? a_pct (a_used m + 1) (a_size m))) eqn:Eg.
  - (* enlarge *)
    apply andb_true_iff in Eg. destruct Eg as [Eg2 Eg75]. apply N.eqb_eq in Eg2.
    rewrite Hpct in Eg75. unfold LYHT_ENLARGE_PERCENTAGE in Eg75. apply N.leb_le in Eg75.
    assert (H75 : 75 * a_size m <= (a_used m + 1) * 100).
    { pose proof (N.mul_div_le ((a_used m + 1) * 100) (a_size m) ltac:(lia)). nia. }
    assert (Hns : new_size (a_size (ins_m1 m h v)) Enlarge = 2 * a_size m).
    { rewrite Hsz1. unfold new_size, U32. rewrite N.mod_small; lia. }
    pose proof (a_resize_shape (ins_m1 m h v) Enlarge check) as Hr. rewrite Hns, Hus1 in Hr.
    assert (Hso : size_ok (2 * a_size m)).
    { rewrite <- Hns, Hsz1. apply size_ok_double; [apply (as_size _ S)|lia]. }
    specialize (Hr Hso ltac:(lia) ltac:(lia)).
    destruct (a_resize veq (ins_m1 m h v) Enlarge check) as [m3|e3]; cbn [bind].
    2:{ destruct Hr as (-> & Hck & Hdw). split; [reflexivity|]. split; [reflexivity|]. right. left. split; assumption. }
    destruct Hr as (S3 & Hs3 & Hu3 & Hp3 & Hrz3).
    assert (Hrz13 : rzrel m m3) by (eapply rzrel_trans; eauto).
    assert (C1 : a_used m3 = a_used m + 1) by lia.
    assert (C2 : Permutation (concat (a_bk m3)) ((h, v) :: concat (a_bk m))) by (rewrite Hp3; exact Hperm).
    assert (C3 : a_size m3 = a_size m \/ (a_size m3 = 2 * a_size m /\ 75 * a_size m <= (a_used m + 1) * 100))
      by (right; split; [exact Hs3|exact H75]).
    assert (C4 : a_rz m <> 0 -> a_used m3 * 100 < 75 * a_size m3) by (intros _; rewrite Hu3, Hs3; lia).
    destruct wm.
    + destruct (find (ematch (veq false v) h) (a_row m3 h)) as [e|] eqn:Ef3.
      * split; [exact S3|]. split; [exact Hrz13|]. right. split; [reflexivity|]. split; [reflexivity|].
        split; [exact C1|]. split; [exact C2|]. split; [exact C3|]. split; [exact C4|]. right. eauto.
      * split; [reflexivity|]. split; [reflexivity|]. right. right. exists m3. auto.
    + split; [exact S3|]. split; [exact Hrz13|]. right. split; [reflexivity|]. split; [reflexivity|].
      split; [exact C1|]. split; [exact C2|]. split; [exact C3|]. split; [exact C4|]. now left.
  - (* no resize *)
    split; [exact S1|]. split; [exact Hrz1|]. right. split; [reflexivity|]. split; [reflexivity|].
    split; [exact Hus1|]. split; [exact Hperm|]. split; [left; exact Hsz1|]. split; [|now left].
    intros _. rewrite Hus1, Hsz1.
    assert (Hr : (a_used m + 1) * 100 / a_size m < 75).
    { rewrite Hpct in Eg. unfold LYHT_ENLARGE_PERCENTAGE in Eg.
      apply andb_false_iff in Eg. destruct Eg as [Eg|Eg]; [|now apply N.leb_gt in Eg].
      apply N.eqb_neq in Eg. unfold ins_m1 in Eg. cbn [a_rz] in Eg. rewrite Hpct in Eg.
      unfold LYHT_FIRST_SHRINK_PERCENTAGE in Eg.
      destruct (a_rz m =? 1) eqn:E1; cbn [andb] in Eg.
      - destruct (50 <=? (a_used m + 1) * 100 / a_size m) eqn:E50; [congruence|]. apply N.leb_gt in E50. lia.
      - apply N.eqb_neq in E1. lia. }
    apply div_lt_iff in Hr; lia.
Qed.

Lemma remove_first_split {A} (p : A -> bool) l1 x l2 :
  forallb (fun y => negb (p y)) l1 = true -> p x = true -> remove_first p (l1 ++ x :: l2) = l1 ++ l2.
Proof.
  intros H Hx. pose proof (remove_first_map_split (fun a => a) p l1 x l2 H Hx) as E.
  now rewrite !map_id in E.
Qed.

Lemma size_ok_even sz : size_ok sz -> sz = 2 * (sz / 2).
Proof.
  intros [(k & Hk & ->) Hm]. unfold LYHT_MIN_SIZE in Hm.
  assert (Hk1 : 1 <= k).
  { destruct (N.le_gt_cases 1 k) as [H|H]; [exact H|]. assert (k = 0) by lia. subst. cbn in Hm. lia. }
  replace k with (N.succ (k - 1)) at 1 2 by lia. rewrite N.pow_succ_r'.
  rewrite (N.mul_comm 2), N.div_mul by lia. lia.
Qed.

Lemma AShape_remove (m : amm) rz b r1 e r2 : AShape m -> nth_error (a_bk m) b = Some (r1 ++ e :: r2) ->
  AShape (mkamm rz (upd (a_bk m) b (r1 ++ r2))) /\
  a_used m = a_used (mkamm rz (upd (a_bk m) b (r1 ++ r2))) + 1 /\
  Permutation (e :: concat (upd (a_bk m) b (r1 ++ r2))) (concat (a_bk m)).
Proof.
  intros [Hs Hr Hu] Hb. pose proof (concat_upd_remove_perm _ _ _ _ _ Hb) as Hp.
  assert (Hus : a_used m = a_used (mkamm rz (upd (a_bk m) b (r1 ++ r2))) + 1).
  { unfold a_used. cbn [a_bk]. rewrite <- (Permutation_length Hp). cbn [length]. lia. }
  split; [|split; [exact Hus|exact Hp]]. constructor.
  - now rewrite a_size_upd.
  - rewrite a_size_upd. cbn [a_bk]. intros b' row Hb'. destruct (Nat.eq_dec b' b) as [->|Hne].
    + rewrite (nth_error_upd_eq' _ _ _ _ Hb) in Hb'. inversion Hb'; subst.
      specialize (Hr _ _ Hb). unfold row_ok in *. apply Forall_app in Hr. destruct Hr as [H1 H2].
      inversion H2; subst. apply Forall_app. auto.
    + rewrite nth_error_upd_neq in Hb' by auto. now apply Hr.
  - rewrite a_size_upd. lia.
Qed.

Lemma a_remove_shape (m : amm) h v : AShape m -> no_wrap m ->
  match a_remove veq m h v with
  | Ok (c, m') =>
      AShape m' /\ rzrel m m' /\
      ((c = LY_ERR_ENOTFOUND /\ m' = m /\ find (ematch (veq true v) h) (a_row m h) = None) \/
       (c = LY_ERR_SUCCESS /\ a_used m = a_used m' + 1 /\ a_size m' <= a_size m /\
        (exists e, find (ematch (veq true v) h) (a_row m h) = Some e /\
                   Permutation (e :: concat (a_bk m')) (concat (a_bk m))) /\
        (a_used m * 100 < 75 * a_size m -> a_used m' * 100 < 75 * a_size m')))
  | Err e =>
      e = E_ABORT /\ exists e0 r1 r2, a_row m h = r1 ++ e0 :: r2 /\
        find (ematch (veq true v) h) (a_row m h) = Some e0 /\
        dup_witness [] (concat (upd (a_bk m) (a_bucket m h) (r1 ++ r2)))
  end.
Proof.
  intros S W. unfold a_remove. unfold no_wrap in W.
  pose proof (size_ok_pos _ (as_size _ S)) as Hpos. unfold LYHT_MIN_SIZE in Hpos.
  destruct (find (ematch (veq true v) h) (a_row m h)) as [e|] eqn:Ef.
  2:{ apply find_none_existsb in Ef as Ex. rewrite Ex. cbn [negb]. split; [exact S|]. split; [apply rzrel_refl|]. now left. }
  rewrite (find_some_existsb _ _ _ Ef). cbn [negb].
  destruct (find_split _ _ _ Ef) as (r1 & r2 & Hrow & Hpe & Hr1).
  assert (Hrf : remove_first (ematch (veq true v) h) (a_row m h) = r1 ++ r2)
    by (rewrite Hrow; now apply remove_first_split).
  rewrite Hrf.
  pose proof (a_row_nth m h (as_size _ S)) as Hnth. rewrite Hrow in Hnth.
  set (m1 := mkamm (a_rz m) (upd (a_bk m) (a_bucket m h) (r1 ++ r2))).
  destruct (AShape_remove m (a_rz m) _ r1 e r2 S Hnth) as (S1 & Hu1 & Hp1). fold m1 in S1, Hu1.
  assert (Hs1 : a_size m1 = a_size m) by apply a_size_upd.
  pose proof (as_used _ S) as Hus.
  rewrite a_pct_small by lia.
  destruct ((a_rz m =? 2) && ((a_used m - 1) * 100 / a_size m <? LYHT_SHRINK_PERCENTAGE) && (LYHT_MIN_SIZE <? a_size m)) eqn:Ec.
  - apply andb_true_iff in Ec. destruct Ec as [Ec Emin]. apply andb_true_iff in Ec. destruct Ec as [E2 E25].
    apply N.ltb_lt in E25, Emin. unfold LYHT_SHRINK_PERCENTAGE in E25.
    apply div_lt_iff in E25; [|lia].
    pose proof (size_ok_even _ (as_size _ S)) as Hev.
    assert (Hns : new_size (a_size m1) Shrink = a_size m / 2) by (rewrite Hs1; reflexivity).
    pose proof (a_resize_shape m1 Shrink true) as Hr. rewrite Hns in Hr.
    assert (Hso : size_ok (a_size m / 2)).
    { change (a_size m / 2) with (new_size (a_size m) Shrink). apply size_ok_half; [apply (as_size _ S)|exact Emin]. }
    specialize (Hr Hso ltac:(lia) ltac:(lia)).
    destruct (a_resize veq m1 Shrink true) as [m2|e2] eqn:Er; cbn [bind].
    + destruct Hr as (S2 & Hs2 & Hu2 & Hp2 & Hrz2). split; [exact S2|]. split.
      { eapply rzrel_trans; [|exact Hrz2]. now left. }
      right. split; [reflexivity|]. split; [lia|]. split; [lia|]. split.
      { exists e. split; [reflexivity|]. rewrite Hp2. exact Hp1. }
      intros _. rewrite Hu2, Hs2. lia.
    + destruct Hr as (-> & _ & Hdw). split; [reflexivity|]. exists e, r1, r2. split; [exact Hrow|]. split; [reflexivity|exact Hdw].
  - split; [exact S1|]. split; [now left|]. right. split; [reflexivity|]. split; [exact Hu1|]. split; [lia|]. split.
    { exists e. split; [reflexivity|exact Hp1]. }
    intro Hlf. rewrite Hs1. lia.
Qed.

(* ------------------------------------------------------------------------------------------ *)
(* callbacks that decide equality of a key (dictionary: the string; t_ht driver: the value):    *)
(* on tables without two records of the same (hash, key) no assertion can fail                  *)
(* ------------------------------------------------------------------------------------------ *)
Section AK.
Variable K : Type.
Variable key : V -> K.
Hypothesis Hkey : forall md a b, veq md a b = true <-> key a = key b.
Set Default Proof Using "All".

Definition ekey (e : N * V) : N * K := (fst e, key (snd e)).
Definition ADist (m : amm) : Prop := NoDup (map ekey (concat (a_bk m))).
(* load factor left behind by every insert / remove when resizing is enabled *)
Definition LF (m : amm) : Prop := 1 <= a_rz m <= 2 /\ a_used m * 100 < 75 * a_size m.

Lemma ematch_key md v h e : ematch (veq md v) h e = true <-> ekey e = (h, key v).
Proof.
  unfold ematch, ekey. rewrite andb_true_iff, N.eqb_eq, Hkey. split.
  - intros [-> ->]. reflexivity.
  - intro E. inversion E. auto.
Qed.

Lemma row_find_some (m : amm) md h v e : AShape m ->
  find (ematch (veq md v) h) (a_row m h) = Some e -> In e (concat (a_bk m)) /\ ekey e = (h, key v).
Proof.
  intros S Hf. apply find_some in Hf. destruct Hf as [Hin Hm]. split; [|now apply ematch_key in Hm].
  eapply In_concat_nth; [apply (a_row_nth m h (as_size _ S))|exact Hin].
Qed.

Lemma concat_in_row (m : amm) e : AShape m -> In e (concat (a_bk m)) -> In e (a_row m (fst e)).
Proof.
  intros S Hin. apply in_concat in Hin. destruct Hin as (row & Hrow & He).
  apply In_nth_error in Hrow. destruct Hrow as (b & Hb).
  pose proof (as_rows _ S _ _ Hb) as Hr. unfold row_ok in Hr. rewrite Forall_forall in Hr.
  specialize (Hr _ He).
  assert (Eb : a_bucket m (fst e) = b) by (unfold a_bucket; rewrite Hr; lia).
  pose proof (a_row_nth m (fst e) (as_size _ S)) as Hn. rewrite Eb, Hb in Hn. inversion Hn. now subst.
Qed.

Lemma row_find_none (m : amm) md h v : AShape m ->
  find (ematch (veq md v) h) (a_row m h) = None ->
  forall e, In e (concat (a_bk m)) -> ekey e <> (h, key v).
Proof.
  intros S Hf e Hin Hk. pose proof (concat_in_row m e S Hin) as Hr.
  assert (fst e = h) by (unfold ekey in Hk; now inversion Hk). subst h.
  eapply find_none in Hf; [|exact Hr]. apply (proj2 (ematch_key md v (fst e) e)) in Hk. rewrite Hk in Hf. discriminate.
Qed.

Lemma dup_witness_keyed base es : NoDup (map ekey (base ++ es)) -> dup_witness base es -> False.
Proof.
  intros Hnd (es1 & h & v & es2 & e0 & -> & Hin & Hf & Hv).
  assert (Hk : ekey e0 = ekey (h, v)).
  { unfold ekey. cbn [fst snd]. f_equal; [exact Hf|]. symmetry. now apply (Hkey true). }
  rewrite app_assoc, map_app in Hnd. cbn [map] in Hnd.
  eapply NoDup_app_disj; [exact Hnd| |left; reflexivity].
  rewrite <- Hk. now apply in_map.
Qed.

Lemma ADist_perm (m m' : amm) : Permutation (concat (a_bk m')) (concat (a_bk m)) -> ADist m -> ADist m'.
Proof.
  unfold ADist. intros Hp Hd. eapply Permutation_NoDup; [|exact Hd].
  apply Permutation_map, Permutation_sym, Hp.
Qed.

Lemma NoDup_ekey_cons h v l : NoDup (map ekey l) -> (forall e, In e l -> ekey e <> (h, key v)) ->
  NoDup (map ekey ((h, v) :: l)).
Proof.
  intros Hd Hf. cbn [map]. constructor; [|exact Hd]. intro Hin. apply in_map_iff in Hin.
  destruct Hin as (e & He & Hin). now apply (Hf e Hin).
Qed.

Lemma a_resize_keyed (m : amm) op check :
  size_ok (new_size (a_size m) op) -> new_size (a_size m) op <= 2147483648 ->
  a_used m * 100 < 75 * new_size (a_size m) op -> ADist m ->
  exists m', a_resize veq m op check = Ok m' /\ AShape m' /\ a_size m' = new_size (a_size m) op /\
             a_used m' = a_used m /\ Permutation (concat (a_bk m')) (concat (a_bk m)) /\ rzrel m m' /\ ADist m'.
Proof.
  intros H1 H2 H3 Hd. pose proof (a_resize_shape m op check H1 H2 H3) as H.
  destruct (a_resize veq m op check) as [m'|e].
  - destruct H as (S' & Hs' & Hu' & Hp' & Hrz'). exists m'. repeat (split; [assumption|]).
    split; [reflexivity|]. repeat (split; [assumption|]). eapply ADist_perm; eauto.
  - destruct H as (_ & _ & Hdw). exfalso. eapply (dup_witness_keyed [] _); [exact Hd|exact Hdw].
Qed.

Lemma LF_used_lt (m : amm) : LF m -> a_used m < a_size m.
Proof. intros [_ H]. lia. Qed.

Theorem a_insert_keyed (m : amm) wm h v :
  AShape m -> a_size m <= 1073741824 -> LF m -> ADist m ->
  exists c mv m', a_insert veq m true wm h v = Ok (c, mv, m') /\
    AShape m' /\ LF m' /\ ADist m' /\
    (a_size m' = a_size m \/ (a_size m' = 2 * a_size m /\ 75 * a_size m <= (a_used m + 1) * 100)) /\
    ((c = LY_ERR_EEXIST /\ m' = m /\
      exists e, mv = snd e /\ In e (concat (a_bk m)) /\ ekey e = (h, key v)) \/
     (c = LY_ERR_SUCCESS /\ mv = v /\ (forall e, In e (concat (a_bk m)) -> ekey e <> (h, key v)) /\
      a_used m' = a_used m + 1 /\ Permutation (concat (a_bk m')) ((h, v) :: concat (a_bk m)))).
Proof.
  intros S W Hlf Hd. destruct Hlf as [Hrz Hlf].
  pose proof (a_insert_shape m true wm h v S W ltac:(lia)) as H. unfold ins_find in H.
  destruct (a_insert veq m true wm h v) as [[[c mv] m']|e].
  - destruct H as (S' & Hrz' & [(-> & -> & e & Hf & ->)|(-> & Hf & Hu' & Hp' & Hsz' & Hlf' & Hmv)]).
    + exists LY_ERR_EEXIST, (snd e), m.
      split; [reflexivity|]. split; [exact S|]. split; [split; assumption|]. split; [exact Hd|].
      split; [now left|]. left. split; [reflexivity|]. split; [reflexivity|].
      destruct (row_find_some m true h v e S Hf). eauto.
    + pose proof (row_find_none m true h v S Hf) as Hfresh.
      assert (Hd' : ADist m').
      { unfold ADist. eapply Permutation_NoDup; [apply Permutation_map, Permutation_sym, Hp'|].
        now apply NoDup_ekey_cons. }
      assert (mv = v).
      { destruct Hmv as [->|(_ & e & Hf3 & ->)]; [reflexivity|].
        destruct (row_find_some m' false h v e S' Hf3) as [Hin Hk].
        apply (Permutation_in _ Hp') in Hin. destruct Hin as [<-|Hin]; [reflexivity|].
        exfalso. now apply (Hfresh e). }
      subst mv. exists LY_ERR_SUCCESS, v, m'.
      split; [reflexivity|]. split; [exact S'|]. split.
      { split; [|apply Hlf'; lia]. destruct Hrz' as [->|[E1 ->]]; lia. }
      split; [exact Hd'|]. split; [exact Hsz'|]. right. auto.
  - exfalso. destruct H as (_ & Hf & [Hfull|[(_ & Hdw)|(m3 & S3 & Hp3 & _ & Hf3)]]).
    + lia.
    + pose proof (row_find_none m true h v S Hf) as Hfresh.
      eapply (dup_witness_keyed [] _); [|exact Hdw]. cbn [app].
      eapply Permutation_NoDup.
      * apply Permutation_map, Permutation_sym.
        unfold ins_m1. cbn [a_bk]. apply (concat_upd_perm _ _ _ (h, v) (a_row_nth m h (as_size _ S))).
      * now apply NoDup_ekey_cons.
    + eapply (row_find_none m3 false h v S3 Hf3 (h, v)); [|reflexivity].
      eapply Permutation_in; [apply Permutation_sym, Hp3|now left].
Qed.

Theorem a_remove_keyed (m : amm) h v :
  AShape m -> no_wrap m -> LF m -> ADist m ->
  exists c m', a_remove veq m h v = Ok (c, m') /\ AShape m' /\ LF m' /\ ADist m' /\ a_size m' <= a_size m /\
    ((c = LY_ERR_ENOTFOUND /\ m' = m /\ (forall e, In e (concat (a_bk m)) -> ekey e <> (h, key v))) \/
     (c = LY_ERR_SUCCESS /\ a_used m = a_used m' + 1 /\
      exists e, In e (concat (a_bk m)) /\ ekey e = (h, key v) /\
                Permutation (e :: concat (a_bk m')) (concat (a_bk m)))).
Proof.
  intros S W [Hrz Hlf] Hd. pose proof (a_remove_shape m h v S W) as H.
  destruct (a_remove veq m h v) as [[c m']|e].
  - destruct H as (S' & Hrz' & [(-> & -> & Hf)|(-> & Hu' & Hsz' & (e & Hf & Hp') & Hlf')]).
    + exists LY_ERR_ENOTFOUND, m. split; [reflexivity|]. split; [exact S|]. split; [split; assumption|].
      split; [exact Hd|]. split; [lia|]. left. split; [reflexivity|]. split; [reflexivity|].
      now apply (row_find_none m true h v S).
    + exists LY_ERR_SUCCESS, m'. split; [reflexivity|]. split; [exact S'|]. split.
      { split; [|now apply Hlf']. destruct Hrz' as [->|[E1 ->]]; lia. }
      split.
      { unfold ADist in *. pose proof (Permutation_NoDup (Permutation_map ekey (Permutation_sym Hp')) Hd) as Hn.
        cbn [map] in Hn. now inversion Hn. }
      split; [exact Hsz'|]. right. split; [reflexivity|]. split; [exact Hu'|].
      destruct (row_find_some m true h v e S Hf) as [Hin Hk]. eauto.
  - exfalso. destruct H as (_ & e0 & r1 & r2 & Hrow & Hf & Hdw).
    eapply (dup_witness_keyed [] _); [|exact Hdw]. cbn [app].
    pose proof (a_row_nth m h (as_size _ S)) as Hn. rewrite Hrow in Hn.
    pose proof (concat_upd_remove_perm _ _ _ _ _ Hn) as Hp.
    pose proof (Permutation_NoDup (Permutation_map ekey (Permutation_sym Hp)) Hd) as Hn'.
    cbn [map] in Hn'. now inversion Hn'.
Qed.
End AK.
Set Default Proof Using "All".
End A.


Arguments AShape {V}.
Arguments no_wrap {V}.
Arguments rzrel {V}.
Arguments ins_find {V}.
Arguments ins_m1 {V}.
Arguments dup_witness {V}.
Arguments ekey {V K}.
Arguments ADist {V K}.
Arguments LF {V}.
Arguments row_ok {V}.

(* ------------------------------------------------------------------------------------------ *)
(* link: the abstraction of a table satisfying Rep has the shape the abstract lemmas ask for    *)
(* ------------------------------------------------------------------------------------------ *)
Section L.
Variable V : Type.
Variable vdef : V.
Variable veq : bool -> V -> V -> bool.

Lemma Rep_AShape (t : ht V) cs fl : Rep vdef t cs fl -> AShape (abs vdef t cs).
Proof.
  intro R. constructor.
  - rewrite (abs_size _ _ veq _ _ _ R). apply (Rep_size_ok _ _ veq _ _ _ R).
  - rewrite (abs_size _ _ veq _ _ _ R). unfold abs. cbn [a_bk]. intros b row Hb.
    rewrite nth_error_map in Hb. destruct (nth_error cs b) as [l|] eqn:El; [|discriminate].
    cbn in Hb. inversion Hb; subst row.
    assert (Hblt : (b < N.to_nat (ht_size t))%nat).
    { rewrite <- (rep_lc _ _ _ _ _ R). apply nth_error_Some. congruence. }
    destruct (Rep_nth _ _ veq _ _ _ b R Hblt) as (hl & l' & H1 & H2 & (_ & _ & H3)).
    assert (l' = l) by congruence. subst l'.
    unfold row_ok. apply Forall_map. exact H3.
  - rewrite (abs_used _ _ veq _ _ _ R), (abs_size _ _ veq _ _ _ R). apply (Rep_used_le _ _ veq _ _ _ R).
Qed.

(* every record index is in exactly one chain or in the free list *)
Lemma Rep_partition (t : ht V) cs fl : Rep vdef t cs fl ->
  NoDup (concat cs ++ fl) /\ forall i, i < ht_size t <-> In i (concat cs ++ fl).
Proof.
  intro R. split; [apply (rep_nodup _ _ _ _ _ R)|]. intro i. split.
  - intro Hi.
    assert (Hincl : incl (map N.of_nat (seq 0 (N.to_nat (ht_size t)))) (concat cs ++ fl)).
    { apply NoDup_length_incl.
      - apply (rep_nodup _ _ _ _ _ R).
      - rewrite map_length, seq_length, (rep_all _ _ _ _ _ R). lia.
      - intros j Hj. pose proof (rep_lt _ _ _ _ _ R) as Hlt. rewrite Forall_forall in Hlt.
        specialize (Hlt _ Hj). apply in_map_iff. exists (N.to_nat j). split; [lia|]. apply in_seq. lia. }
    apply Hincl. apply in_map_iff. exists (N.to_nat i). split; [lia|]. apply in_seq. lia.
  - intro Hi. pose proof (rep_lt _ _ _ _ _ R) as Hlt. rewrite Forall_forall in Hlt. now apply Hlt.
Qed.
End L.

Lemma is_pow2_pow k : is_pow2 (2 ^ k) = true.
Proof.
  unfold is_pow2. assert (H : 2 ^ k <> 0) by (apply N.pow_nonzero; lia).
  apply N.eqb_neq in H. rewrite H. cbn [negb andb].
  rewrite N.sub_1_r, <- N.ones_equiv, N.land_ones, N.mod_same by (apply N.pow_nonzero; lia). reflexivity.
Qed.

(* ---- lyht_dup(): hlists, recs, used and first_free_rec are copied, resize 2 becomes 1: the duplicate
        satisfies Rep with the same chains and free list and holds the same content ---- *)
Definition dup_rz (rz : N) : N := if rz =? 0 then 0 else 1.

Lemma lyht_dup_sim {V} (vdef : V) (veq : bool -> V -> V -> bool) (t : ht V) cs fl : Rep vdef t cs fl ->
  exists t', lyht_dup vdef t = Ok t' /\ Rep vdef t' cs fl /\
             abs vdef t' cs = mkamm (dup_rz (ht_resize t)) (a_bk (abs vdef t cs)).
Proof.
  intro R. destruct (rep_pow _ _ _ _ _ R) as (k & Hk & Hs). pose proof (rep_min _ _ _ _ _ R) as Hm.
  unfold lyht_dup, lyht_new. rewrite Hs, is_pow2_pow. cbn [negb]. fold (dup_rz (ht_resize t)).
  assert (E : (dup_rz (ht_resize t) =? 0) || (dup_rz (ht_resize t) =? 1) = true).
  { unfold dup_rz. destruct (ht_resize t =? 0); reflexivity. }
  rewrite E. cbn [negb bind].
  assert (E8 : (2 ^ k <? LYHT_MIN_SIZE) = false) by (apply N.ltb_ge; rewrite <- Hs; exact Hm).
  rewrite E8. cbn [init_tab ht_size ht_resize ht_ff]. rewrite <- Hs.
  change (mkht (ht_used t) (ht_size t) (dup_rz (ht_resize t)) (ht_ff t) (ht_hl t) (ht_recs t))
    with (set_resize t (dup_rz (ht_resize t))).
  eexists. split; [reflexivity|]. apply (Rep_set_resize V vdef veq t cs fl _ R).
Qed.

(* ------------------------------------------------------------------------------------------ *)
(* operation sequences on the instance driven by impl/t_ht.c (values N, callback = equality)    *)
(* ------------------------------------------------------------------------------------------ *)
Lemma nveq_key md a b : nveq md a b = true <-> (fun x : N => x) a = (fun x : N => x) b.
Proof. unfold nveq. apply N.eqb_eq. Qed.

(* the abstract counterpart of nht_step; lyht_dup keeps the content and turns resize 2 into 1 *)
Definition a_nstep (m : amm N) (o : hop) : res (N * option N * amm N) :=
  match o with
  | OpIns h v => bind (a_insert nveq m true true h v) (fun x => Ok (fst (fst x), Some (snd (fst x)), snd x))
  | OpInsNC h v => bind (a_insert nveq m false true h v) (fun x => Ok (fst (fst x), Some (snd (fst x)), snd x))
  | OpRem h v => bind (a_remove nveq m h v) (fun x => Ok (fst x, None, snd x))
  | OpFind h v => Ok (a_lyht_find nveq m h v, m)
  | OpNext h v => Ok (a_find_next nveq m None h v, m)
  | OpNextCol h v => Ok (a_find_next nveq m (Some ncol) h v, m)
  | OpDup => Ok (LY_ERR_SUCCESS, None, mkamm (dup_rz (a_rz m)) (a_bk m))
  end.

Fixpoint a_nrun (m : amm N) (ops : list hop) (acc : list (N * option N))
  : list (N * option N) * res (amm N) :=
  match ops with
  | [] => (rev acc, Ok m)
  | o :: ops' =>
      match a_nstep m o with
      | Ok x => a_nrun (snd x) ops' (fst x :: acc)
      | Err e => (rev acc, Err e)
      end
  end.

Definition checked_op (o : hop) : bool :=
  match o with OpInsNC _ _ => false | _ => true end.

Lemma nht_insert_step_sim t cs fl check h v : Rep 0 t cs fl -> ht_size t <= 1073741824 ->
  match bind (a_insert nveq (abs 0 t cs) check true h v)
             (fun x => Ok (fst (fst x), Some (snd (fst x)), snd x)) with
  | Ok (x, m') => exists t' cs' fl',
      bind (insert 0 nveq t check true h v) (fun x =>
        bind (rd (ht_recs (snd x)) (snd (fst x))) (fun r => Ok (fst (fst x), Some (r_val r), snd x)))
        = Ok (x, t') /\ Rep 0 t' cs' fl' /\ abs 0 t' cs' = m'
  | Err e =>
      bind (insert 0 nveq t check true h v) (fun x =>
        bind (rd (ht_recs (snd x)) (snd (fst x))) (fun r => Ok (fst (fst x), Some (r_val r), snd x))) = Err e
  end.
Proof.
  intros R Hle. pose proof (insert_sim N 0 nveq t cs fl check true h v R Hle) as Hs.
  destruct (a_insert nveq (abs 0 t cs) check true h v) as [[[c mv] m']|e]; cbn [isim bind fst snd] in *.
  - destruct Hs as (i & t' & cs' & fl' & -> & R' & A' & Hi). cbn [bind fst snd].
    destruct (Hi eq_refl) as [Hin Hv].
    assert (Hlt : (N.to_nat i < length (ht_recs t'))%nat).
    { pose proof (Rep_in_cs_lt N 0 nveq _ _ _ _ R' Hin). rewrite (rep_lr _ _ _ _ _ R'). lia. }
    destruct (rd_lt _ _ Hlt) as (r & Hr). rewrite Hr. cbn [bind].
    rewrite (rd_ent N 0 nveq _ _ _ Hr) in Hv. cbn [snd] in Hv. subst mv.
    exists t', cs', fl'. auto.
  - rewrite Hs. reflexivity.
Qed.

Lemma nht_step_sim t cs fl o : Rep 0 t cs fl -> ht_size t <= 1073741824 ->
  match a_nstep (abs 0 t cs) o with
  | Ok (x, m') => exists t' cs' fl', nht_step t o = Ok (x, t') /\ Rep 0 t' cs' fl' /\ abs 0 t' cs' = m'
  | Err e => nht_step t o = Err e
  end.
Proof.
  intros R Hle. destruct o as [h v|h v|h v|h v|h v|h v|]; cbn [a_nstep nht_step].
  - apply (nht_insert_step_sim t cs fl true h v R Hle).
  - apply (nht_insert_step_sim t cs fl false h v R Hle).
  - pose proof (lyht_remove_sim N 0 nveq t cs fl h v R) as Hs.
    destruct (a_remove nveq (abs 0 t cs) h v) as [[c m']|e]; cbn [msim bind] in *.
    + destruct Hs as (t' & cs' & fl' & -> & R' & A'). cbn [bind fst snd]. exists t', cs', fl'. auto.
    + rewrite Hs. reflexivity.
  - rewrite (lyht_find_sim N 0 nveq t cs fl h v R). cbn [bind].
    destruct (a_lyht_find nveq (abs 0 t cs) h v) as [c ov]. cbn [fst snd]. exists t, cs, fl. auto.
  - rewrite (lyht_find_next_sim N 0 nveq t cs fl None h v R). cbn [bind].
    destruct (a_find_next nveq (abs 0 t cs) None h v) as [c ov]. cbn [fst snd]. exists t, cs, fl. auto.
  - rewrite (lyht_find_next_sim N 0 nveq t cs fl (Some ncol) h v R). cbn [bind].
    destruct (a_find_next nveq (abs 0 t cs) (Some ncol) h v) as [c ov]. cbn [fst snd]. exists t, cs, fl. auto.
  - destruct (lyht_dup_sim 0 nveq t cs fl R) as (t' & E & R' & A'). rewrite E. cbn [bind].
    exists t', cs, fl. auto.
Qed.

(* size bookkeeping: after n operations on a table that started with at most n0 records the
   table has at most 4 * (n0 + n) records, so that used * 100 never wraps *)
Definition Bnd {V} (m : amm V) (n : N) : Prop := a_used m <= n /\ a_size m <= 4 * n.

Lemma a_nstep_bnd m o n : AShape m -> a_rz m <= 2 -> Bnd m n -> 4 * n <= 1073741824 ->
  match a_nstep m o with
  | Ok (x, m') => AShape m' /\ a_rz m' <= 2 /\ Bnd m' (n + 1)
  | Err e => e = E_ABORT
  end.
Proof.
  intros S Hrz [Hu Hs] Hn.
  assert (Hins : forall check h v,
    match bind (a_insert nveq m check true h v) (fun x => Ok (fst (fst x), Some (snd (fst x)), snd x)) with
    | Ok (x, m') => AShape m' /\ a_rz m' <= 2 /\ Bnd m' (n + 1)
    | Err e => e = E_ABORT
    end).
  { intros check h v. pose proof (a_insert_shape N nveq m check true h v S ltac:(lia) Hrz) as H.
    destruct (a_insert nveq m check true h v) as [[[c mv] m']|e]; cbn [bind fst snd].
    - destruct H as (S' & Hrz' & H). split; [exact S'|]. split.
      { destruct Hrz' as [->|[_ ->]]; lia. }
      unfold Bnd. destruct H as [(_ & -> & _)|(_ & _ & Hu' & _ & Hsz' & _)]; [lia|].
      destruct Hsz' as [->|[-> H75]]; lia.
    - tauto. }
  destruct o as [h v|h v|h v|h v|h v|h v|]; cbn [a_nstep]; [apply Hins|apply Hins| | | | | ].
  - pose proof (a_remove_shape N nveq m h v S ltac:(unfold no_wrap; lia)) as H.
    destruct (a_remove nveq m h v) as [[c m']|e]; cbn [bind fst snd].
    + destruct H as (S' & Hrz' & H). split; [exact S'|]. split.
      { destruct Hrz' as [->|[_ ->]]; lia. }
      unfold Bnd. destruct H as [(_ & -> & _)|(_ & Hu' & Hsz' & _)]; lia.
    + tauto.
  - split; [exact S|]. split; [exact Hrz|]. unfold Bnd. lia.
  - split; [exact S|]. split; [exact Hrz|]. unfold Bnd. lia.
  - split; [exact S|]. split; [exact Hrz|]. unfold Bnd. lia.
  - split; [apply (AShape_ext N nveq m); [reflexivity|exact S]|]. split.
    + cbn [a_rz]. unfold dup_rz. destruct (a_rz m =? 0); lia.
    + unfold Bnd, a_used, a_size in *. cbn [a_bk]. lia.
Qed.

Theorem nht_run_sim : forall ops t cs fl acc n,
  Rep 0 t cs fl -> ht_resize t <= 2 -> Bnd (abs 0 t cs) n ->
  4 * (n + N.of_nat (length ops)) <= 1073741824 ->
  match a_nrun (abs 0 t cs) ops acc with
  | (outs, Ok m') => exists t' cs' fl', nht_run t ops acc = (outs, Ok t') /\ Rep 0 t' cs' fl' /\ abs 0 t' cs' = m'
  | (outs, Err e) => nht_run t ops acc = (outs, Err e) /\ e = E_ABORT
  end.
Proof.
  induction ops as [|o ops IH]; intros t cs fl acc n R Hrz HB Hn; cbn [a_nrun nht_run].
  - exists t, cs, fl. auto.
  - cbn [length] in *.
    pose proof (Rep_AShape N 0 nveq t cs fl R) as S.
    assert (Hle : ht_size t <= 1073741824).
    { destruct HB as [_ HB]. rewrite (abs_size N 0 nveq _ _ _ R) in HB. lia. }
    pose proof (nht_step_sim t cs fl o R Hle) as Hs.
    pose proof (a_nstep_bnd (abs 0 t cs) o n S Hrz HB ltac:(lia)) as Hb.
    destruct (a_nstep (abs 0 t cs) o) as [[x m']|e].
    + destruct Hs as (t' & cs' & fl' & -> & R' & A'). cbn [fst snd].
      destruct Hb as (S' & Hrz' & HB'). rewrite <- A' in Hrz', HB' |- *.
      apply (IH t' cs' fl' (x :: acc) (n + 1) R' Hrz' HB'). lia.
    + rewrite Hs. auto.
Qed.

(* ---- lyht_new ---- *)

Definition new_sz (k : N) : N := if 2 ^ k <? LYHT_MIN_SIZE then LYHT_MIN_SIZE else 2 ^ k.

Lemma new_sz_ok k : k <= 31 -> size_ok (new_sz k).
Proof.
  intro Hk. unfold new_sz, size_ok, LYHT_MIN_SIZE. destruct (2 ^ k <? 8) eqn:E.
  - split; [|lia]. exists 3. split; [lia|reflexivity].
  - apply N.ltb_ge in E. split; [|exact E]. exists k. auto.
Qed.

Lemma lyht_new_Rep {V} (vdef : V) (veq : bool -> V -> V -> bool) k rz : k <= 31 -> rz <= 1 ->
  lyht_new vdef (2 ^ k) rz = Ok (init_tab vdef (new_sz k) rz) /\
  Rep vdef (init_tab vdef (new_sz k) rz) (repeat [] (N.to_nat (new_sz k)))
      (map N.of_nat (seq 0 (N.to_nat (new_sz k)))) /\
  abs vdef (init_tab vdef (new_sz k) rz) (repeat [] (N.to_nat (new_sz k))) =
    mkamm rz (repeat [] (N.to_nat (new_sz k))).
Proof.
  intros Hk Hrz. split.
  - unfold lyht_new. rewrite is_pow2_pow. cbn [negb].
    assert (E : (rz =? 0) || (rz =? 1) = true).
    { destruct (N.eq_dec rz 0) as [->|H0]; [reflexivity|]. assert (rz = 1) by lia. subst. reflexivity. }
    rewrite E. reflexivity.
  - apply (init_tab_Rep V vdef veq). now apply new_sz_ok.
Qed.

(* ---- sequences of checked operations (insert, remove, find, find_next) with resizing enabled
        never stop: no assertion of hash_table.c can fail ---- *)
Notation nADist := (@ADist N N (fun x : N => x)).

Lemma a_nstep_checked m o n : AShape m -> LF m -> nADist m -> Bnd m n -> 4 * n <= 1073741824 ->
  checked_op o = true ->
  exists x m', a_nstep m o = Ok (x, m') /\ AShape m' /\ LF m' /\ nADist m' /\ Bnd m' (n + 1).
Proof.
  intros S Hlf Hd HB Hn Hc.
  assert (Hrz : a_rz m <= 2) by (destruct Hlf; lia).
  pose proof (a_nstep_bnd m o n S Hrz HB Hn) as Hb.
  destruct o as [h v|h v|h v|h v|h v|h v|]; cbn [a_nstep checked_op] in *; try discriminate.
  - destruct HB as [HBu HBs].
    destruct (a_insert_keyed N nveq N (fun x => x) nveq_key m true h v S ltac:(lia) Hlf Hd)
      as (c & mv & m' & E & S' & Hlf' & Hd' & _).
    rewrite E in Hb |- *. cbn [bind fst snd] in *. destruct Hb as (_ & _ & HB'). eauto 8.
  - destruct HB as [HBu HBs].
    destruct (a_remove_keyed N nveq N (fun x => x) nveq_key m h v S ltac:(unfold no_wrap; lia) Hlf Hd)
      as (c & m' & E & S' & Hlf' & Hd' & _).
    rewrite E in Hb |- *. cbn [bind fst snd] in *. destruct Hb as (_ & _ & HB'). eauto 8.
  - destruct Hb as (_ & _ & HB'). eauto 8.
  - destruct Hb as (_ & _ & HB'). eauto 8.
  - destruct Hb as (_ & _ & HB'). eauto 8.
  - destruct Hb as (S' & _ & HB'). eexists. eexists. split; [reflexivity|]. split; [exact S'|]. split.
    + destruct Hlf as [Hr Hl]. split; [|exact Hl]. cbn [a_rz]. unfold dup_rz.
      destruct (a_rz m =? 0) eqn:E0; [apply N.eqb_eq in E0; lia|lia].
    + split; [exact Hd|exact HB'].
Qed.

Theorem a_nrun_checked_total : forall ops m acc n,
  AShape m -> LF m -> nADist m -> Bnd m n -> 4 * (n + N.of_nat (length ops)) <= 1073741824 ->
  forallb checked_op ops = true ->
  exists outs m', a_nrun m ops acc = (outs, Ok m') /\ AShape m' /\ LF m' /\ nADist m'.
Proof.
  induction ops as [|o ops IH]; intros m acc n S Hlf Hd HB Hn Hc; cbn [a_nrun].
  - eauto 8.
  - cbn [forallb length] in *. apply andb_true_iff in Hc. destruct Hc as [Ho Hc].
    destruct (a_nstep_checked m o n S Hlf Hd HB ltac:(lia) Ho) as (x & m' & -> & S' & Hlf' & Hd' & HB').
    cbn [fst snd]. apply (IH m' (x :: acc) (n + 1)); auto. lia.
Qed.

(* regression: the scripts that used to show the lyht_dup defect (first_free_rec was not copied, fixed in
   /repo commit d69e9c2): the value inserted before the dup is found, further inserts succeed *)
Lemma nht_dup_regression :
  fst (nht_run (init_tab 0 8 1) [OpIns 1 1; OpDup; OpIns 2 2; OpFind 1 1] [])
    = [(LY_ERR_SUCCESS, Some 1); (LY_ERR_SUCCESS, None); (LY_ERR_SUCCESS, Some 2); (LY_ERR_SUCCESS, Some 1)] /\
  is_ok (snd (nht_run (init_tab 0 8 1) [OpIns 1 1; OpDup; OpIns 2 2; OpIns 3 3] [])) = true.
Proof. split; vm_compute; reflexivity. Qed.

(* ---- the load percentage is exact (64-bit product since /repo commit be54a69): the enlarge and shrink
        tests compare the true load with 75 % and 25 % for every used and size ---- *)
Lemma pct_exact {V} (t : ht V) : 0 < ht_size t ->
  (LYHT_ENLARGE_PERCENTAGE <= pct t <-> 75 * ht_size t <= ht_used t * 100) /\
  (pct t < LYHT_SHRINK_PERCENTAGE <-> ht_used t * 100 < 25 * ht_size t).
Proof.
  intro Hs. unfold pct, LYHT_ENLARGE_PERCENTAGE, LYHT_SHRINK_PERCENTAGE, LYHT_HUNDRED_PERCENTAGE. split.
  - split; intro H.
    + pose proof (N.mul_div_le (ht_used t * 100) (ht_size t) ltac:(lia)). nia.
    + apply N.div_le_lower_bound; lia.
  - split; intro H.
    + destruct (N.lt_ge_cases (ht_used t * 100) (25 * ht_size t)) as [H1|H1]; [exact H1|]. exfalso.
      assert (25 <= ht_used t * 100 / ht_size t) by (apply N.div_le_lower_bound; lia). lia.
    + apply N.div_lt_upper_bound; lia.
Qed.

(* the former witness of the uint32_t wrap (2^26 records, 55000000 used = 82 %): no shrink any more *)
Lemma pct_former_witness :
  pct (mkht 55000000 67108864 2 0 (@nil hlist) (@nil (hrec N))) = 81.
Proof. vm_compute. reflexivity. Qed.

(* ------------------------------------------------------------------------------------------ *)
(* in-place update of a stored value through the pointer returned in *match_p (dictionary        *)
(* reference counts)                                                                           *)
(* ------------------------------------------------------------------------------------------ *)
(* m' is m with one entry e replaced by e' (same hash) at its place *)
Definition upd_rel {V} (m m' : amm V) (e e' : N * V) : Prop :=
  exists b r1 r2, nth_error (a_bk m) b = Some (r1 ++ e :: r2) /\
    a_bk m' = upd (a_bk m) b (r1 ++ e' :: r2) /\ a_rz m' = a_rz m /\ fst e' = fst e.

Lemma map_upd_ext {A B} (F G : A -> B) (cs : list A) b l :
  nth_error cs b = Some l ->
  (forall b' c, b' <> b -> nth_error cs b' = Some c -> F c = G c) ->
  map F cs = upd (map G cs) b (F l).
Proof.
  revert b; induction cs as [|c cs IH]; intros [|b] Hl H; cbn in *; try discriminate.
  - inversion Hl; subst. f_equal. apply map_ext_in. intros a Ha.
    apply In_nth_error in Ha. destruct Ha as (n & Hn). apply (H (S n) a); [lia|exact Hn].
  - f_equal.
    + apply (H 0%nat c); [lia|reflexivity].
    + apply IH; [exact Hl|]. intros b' c' Hb' Hc'. apply (H (S b') c'); [lia|exact Hc'].
Qed.

Section SV.
Variable V : Type.
Variable vdef : V.
Variable veq : bool -> V -> V -> bool.

Lemma set_val_sim (t : ht V) cs fl i v' : Rep vdef t cs fl -> In i (concat cs) ->
  exists t', set_val t i v' = Ok t' /\ Rep vdef t' cs fl /\
    upd_rel (abs vdef t cs) (abs vdef t' cs) (ent V vdef (ht_recs t) i) (fst (ent V vdef (ht_recs t) i), v').
Proof.
  intros R Hi. unfold set_val.
  assert (Hlt : (N.to_nat i < length (ht_recs t))%nat).
  { pose proof (Rep_in_cs_lt V vdef veq _ _ _ _ R Hi). rewrite (rep_lr _ _ _ _ _ R). lia. }
  destruct (rd_lt _ _ Hlt) as (r & Hr). rewrite Hr. cbn [bind]. rewrite (wr_Ok _ _ _ Hlt). cbn [bind].
  set (recs' := upd (ht_recs t) (N.to_nat i) (set_rval r v')).
  eexists. split; [reflexivity|].
  assert (Hnx : forall j, nxt V recs' j = nxt V (ht_recs t) j).
  { intro j. destruct (N.eq_dec j i) as [->|Hne].
    - unfold recs'. rewrite (nxt_upd_eq V vdef veq) by exact Hlt. cbn. symmetry. now apply (rd_nxt V vdef veq).
    - unfold recs'. now apply (nxt_upd_neq V vdef veq). }
  assert (Hent_ne : forall j, j <> i -> ent V vdef recs' j = ent V vdef (ht_recs t) j).
  { intros j Hne. unfold recs'. now apply (ent_upd_neq V vdef veq). }
  assert (Hent_i : ent V vdef recs' i = (fst (ent V vdef (ht_recs t) i), v')).
  { unfold recs'. rewrite (ent_upd_eq V vdef veq) by exact Hlt. rewrite (rd_ent V vdef veq _ _ _ Hr). reflexivity. }
  assert (Hfst : forall j, fst (ent V vdef recs' j) = fst (ent V vdef (ht_recs t) j)).
  { intro j. destruct (N.eq_dec j i) as [->|Hne]; [now rewrite Hent_i|now rewrite Hent_ne]. }
  split.
  - destruct R as [R1 R2 R3 R4 R5 R6 R7 R8 R9 R10 R11].
    constructor; cbn [ht_size ht_recs ht_hl ht_used ht_ff]; auto.
    + unfold recs'. now rewrite upd_length.
    + intros b hl l H1 H2. destruct (R9 b hl l H1 H2) as (Hc & Hl & Hh). split; [|split]; auto.
      * eapply (is_chain_ext V vdef veq); [|exact Hc]. intros j _. apply Hnx.
      * cbn [ht_size ht_recs]. rewrite Forall_forall in *. intros j Hj. rewrite Hfst. auto.
    + eapply (is_chain_ext V vdef veq); [|exact R10]. intros j _. apply Hnx.
  - apply in_concat in Hi. destruct Hi as (l & Hl & Hil). apply In_nth_error in Hl. destruct Hl as (b & Hb).
    apply in_split in Hil. destruct Hil as (l1 & l2 & ->).
    pose proof (Rep_chain_ne V vdef veq _ _ _ _ _ R Hb) as (_ & _ & Hnd & _).
    assert (Hi1 : ~ In i l1) by (apply NoDup_remove_2 in Hnd; intro; apply Hnd, in_or_app; now left).
    assert (Hi2 : ~ In i l2) by (apply NoDup_remove_2 in Hnd; intro; apply Hnd, in_or_app; now right).
    exists b, (map (ent V vdef (ht_recs t)) l1), (map (ent V vdef (ht_recs t)) l2).
    split; [|split; [|split; reflexivity]].
    + unfold abs. cbn [a_bk]. rewrite nth_error_map, Hb. cbn. now rewrite map_app.
    + unfold abs. cbn [a_bk ht_recs].
      rewrite (map_upd_ext (map (ent V vdef recs')) (map (ent V vdef (ht_recs t))) cs b _ Hb).
      * f_equal. rewrite map_app. cbn [map]. rewrite Hent_i. f_equal; [|f_equal].
        -- apply map_ext_in. intros j Hj. apply Hent_ne. intros ->. auto.
        -- apply map_ext_in. intros j Hj. apply Hent_ne. intros ->. auto.
      * intros b' c Hb' Hc. apply map_ext_in. intros j Hj. apply Hent_ne. intros ->.
        eapply (concat_nodup_disj cs b' b); eauto.
        -- eapply NoDup_app_l. apply (rep_nodup _ _ _ _ _ R).
        -- apply in_or_app. right. now left.
Qed.
End SV.

Lemma concat_upd_split {A} (cs : list (list A)) b r1 e r2 e' :
  nth_error cs b = Some (r1 ++ e :: r2) ->
  exists l1 l2, concat cs = l1 ++ e :: l2 /\ concat (upd cs b (r1 ++ e' :: r2)) = l1 ++ e' :: l2.
Proof.
  revert b; induction cs as [|c cs IH]; intros [|b] H; cbn in *; try discriminate.
  - inversion H; subst. exists r1, (r2 ++ concat cs). rewrite <- !app_assoc. cbn. auto.
  - destruct (IH _ H) as (l1 & l2 & E1 & E2). exists (c ++ l1), l2. rewrite E1, E2, <- !app_assoc. auto.
Qed.

Lemma upd_rel_shape {V} (m m' : amm V) e e' : upd_rel m m' e e' -> AShape m ->
  AShape m' /\ a_size m' = a_size m /\ a_used m' = a_used m /\ a_rz m' = a_rz m /\
  exists l1 l2, concat (a_bk m) = l1 ++ e :: l2 /\ concat (a_bk m') = l1 ++ e' :: l2.
Proof.
  intros (b & r1 & r2 & Hb & Hbk & Hrz & Hfst) [Hs Hr Hu].
  destruct (concat_upd_split _ _ _ _ _ e' Hb) as (l1 & l2 & E1 & E2).
  assert (Esz : a_size m' = a_size m) by (unfold a_size; rewrite Hbk; now rewrite upd_length).
  assert (Eus : a_used m' = a_used m).
  { unfold a_used. rewrite Hbk, E1, E2, !app_length. reflexivity. }
  split; [|split; [exact Esz|split; [exact Eus|split; [exact Hrz|]]]].
  - constructor.
    + now rewrite Esz.
    + rewrite Esz, Hbk. intros b' row Hb'. destruct (Nat.eq_dec b' b) as [->|Hne].
      * rewrite (nth_error_upd_eq' _ _ _ _ Hb) in Hb'. inversion Hb'; subst.
        specialize (Hr _ _ Hb). unfold row_ok in *. apply Forall_app in Hr. destruct Hr as [H1 H2].
        inversion H2; subst. apply Forall_app. split; [exact H1|]. constructor; [|assumption]. now rewrite Hfst.
      * rewrite nth_error_upd_neq in Hb' by auto. now apply Hr.
    + now rewrite Esz, Eus.
  - exists l1, l2. rewrite Hbk. auto.
Qed.


(* ---- the load-factor invariant holds in every state reached with resizing enabled (also with
        lyht_insert_no_check), hence first_free_rec < size at every insert ---- *)
Lemma a_nstep_lf m o : AShape m -> no_wrap m -> a_size m <= 1073741824 -> LF m ->
  match a_nstep m o with Ok (_, m') => LF m' | Err _ => True end.
Proof.
  intros S W W' [Hrz Hlf].
  assert (Hins : forall check h v,
    match bind (a_insert nveq m check true h v) (fun x => Ok (fst (fst x), Some (snd (fst x)), snd x)) with
    | Ok (_, m') => LF m' | Err _ => True end).
  { intros check h v. pose proof (a_insert_shape N nveq m check true h v S W' ltac:(lia)) as H.
    destruct (a_insert nveq m check true h v) as [[[c mv] m']|e]; cbn [bind fst snd]; [|exact I].
    destruct H as (_ & Hrz' & [(_ & -> & _)|(_ & _ & _ & _ & _ & Hlf' & _)]); [split; assumption|].
    split; [destruct Hrz' as [->|[_ ->]]; lia|apply Hlf'; lia]. }
  destruct o as [h v|h v|h v|h v|h v|h v|]; cbn [a_nstep]; [apply Hins|apply Hins| | | | | ];
    try (split; assumption).
  2:{ split; [|exact Hlf]. cbn [a_rz]. unfold dup_rz. destruct (a_rz m =? 0) eqn:E0; [apply N.eqb_eq in E0; lia|lia]. }
  pose proof (a_remove_shape N nveq m h v S W) as H.
  destruct (a_remove nveq m h v) as [[c m']|e]; cbn [bind fst snd]; [|exact I].
  destruct H as (_ & Hrz' & [(_ & -> & _)|(_ & _ & _ & _ & Hlf')]); [split; assumption|].
  split; [destruct Hrz' as [->|[_ ->]]; lia|now apply Hlf'].
Qed.

Theorem a_nrun_lf : forall ops m acc n, AShape m -> LF m -> Bnd m n ->
  4 * (n + N.of_nat (length ops)) <= 1073741824 ->
  match a_nrun m ops acc with (_, Ok m') => LF m' | _ => True end.
Proof.
  induction ops as [|o ops IH]; intros m acc n S Hlf HB Hn; cbn [a_nrun]; [exact Hlf|].
  cbn [length] in Hn. assert (Hrz : a_rz m <= 2) by (destruct Hlf; lia).
  pose proof (a_nstep_bnd m o n S Hrz HB ltac:(lia)) as Hb.
  pose proof (a_nstep_lf m o S ltac:(destruct HB; unfold no_wrap; lia) ltac:(destruct HB; lia) Hlf) as Hl.
  destruct (a_nstep m o) as [[x m']|e]; [|exact I]. cbn [fst snd].
  destruct Hb as (S' & _ & HB'). apply (IH m' _ (n + 1)); auto. lia.
Qed.

(* under the load-factor invariant the free list is not empty: the assert of lyht_insert *)
Lemma LF_free_rec {V} (vdef : V) (veq : bool -> V -> V -> bool) (t : ht V) cs fl :
  Rep vdef t cs fl -> LF (abs vdef t cs) -> ht_ff t < ht_size t.
Proof.
  intros R [_ Hlf]. rewrite (abs_used V vdef veq _ _ _ R), (abs_size V vdef veq _ _ _ R) in Hlf.
  apply N.ltb_lt. rewrite (Rep_ff_lt V vdef veq _ _ _ R). apply N.ltb_lt. lia.
Qed.


(* ------------------------------------------------------------------------------------------ *)
(* from lyht_new(): every script                                                                 *)
(* ------------------------------------------------------------------------------------------ *)
Lemma new_sz_le k : k <= 26 -> new_sz k <= 67108864.
Proof.
  intro Hk. unfold new_sz, LYHT_MIN_SIZE. destruct (2 ^ k <? 8); [lia|]. change 67108864 with (2 ^ 26).
  apply N.pow_le_mono_r; lia.
Qed.

Lemma empty_amm_facts {V} (veq : bool -> V -> V -> bool) k rz : k <= 26 ->
  let m0 := mkamm rz (repeat (@nil (N * V)) (N.to_nat (new_sz k))) in
  AShape m0 /\ Bnd m0 (new_sz k) /\ concat (a_bk m0) = [] /\ (1 <= rz <= 2 -> LF m0).
Proof.
  intros Hk m0. destruct (AShape_empty V veq rz (new_sz k) (new_sz_ok k ltac:(lia))) as (S & Hs & Hu).
  fold m0 in Hs, Hu. pose proof (size_ok_pos V veq _ (as_size _ _ S)) as Hp. fold m0 in Hp. rewrite Hs in Hp.
  split; [exact S|]. split; [unfold Bnd; rewrite Hs, Hu; lia|]. split.
  - unfold m0. cbn [a_bk]. apply concat_repeat_nil.
  - intro Hrz. split; [exact Hrz|]. rewrite Hs, Hu. lia.
Qed.

Theorem nht_new_run_refines k rz ops :
  k <= 26 -> rz <= 1 -> N.of_nat (length ops) <= 201326592 ->
  lyht_new 0 (2 ^ k) rz = Ok (init_tab 0 (new_sz k) rz) /\
  match a_nrun (mkamm rz (repeat [] (N.to_nat (new_sz k)))) ops [] with
  | (outs, Ok m') => exists t' cs' fl',
      nht_run (init_tab 0 (new_sz k) rz) ops [] = (outs, Ok t') /\ Rep 0 t' cs' fl' /\ abs 0 t' cs' = m'
  | (outs, Err e) => nht_run (init_tab 0 (new_sz k) rz) ops [] = (outs, Err e) /\ e = E_ABORT
  end.
Proof.
  intros Hk Hrz Hn. destruct (lyht_new_Rep 0 nveq k rz ltac:(lia) Hrz) as (E & R & A).
  split; [exact E|]. rewrite <- A.
  destruct (empty_amm_facts nveq k rz Hk) as (_ & HB & _). pose proof (new_sz_le k Hk).
  apply (nht_run_sim ops _ _ _ [] (new_sz k) R).
  - cbn. lia.
  - now rewrite A.
  - lia.
Qed.

(* with resizing enabled no state has an empty free list (the assert of lyht_insert) *)
Theorem nht_new_run_free_rec k ops :
  k <= 26 -> N.of_nat (length ops) <= 201326592 ->
  match nht_run (init_tab 0 (new_sz k) 1) ops [] with
  | (_, Ok t') => ht_ff t' < ht_size t'
  | (_, Err e) => e = E_ABORT
  end.
Proof.
  intros Hk Hn. destruct (nht_new_run_refines k 1 ops Hk ltac:(lia) Hn) as [_ H].
  destruct (empty_amm_facts nveq k 1 Hk) as (S & HB & Hc & Hlf0). pose proof (new_sz_le k Hk).
  pose proof (a_nrun_lf ops _ [] (new_sz k) S (Hlf0 ltac:(lia)) HB ltac:(lia)) as Hl.
  destruct (a_nrun _ ops []) as [outs [m'|e]].
  - destruct H as (t' & cs' & fl' & -> & R' & A'). rewrite <- A' in Hl. exact (LF_free_rec 0 nveq _ _ _ R' Hl).
  - destruct H as [-> He]. exact He.
Qed.

(* scripts of checked operations with resizing enabled never stop *)
Theorem nht_new_checked_total k ops :
  k <= 26 -> N.of_nat (length ops) <= 201326592 -> forallb checked_op ops = true ->
  exists outs t' cs' fl',
    nht_run (init_tab 0 (new_sz k) 1) ops [] = (outs, Ok t') /\ Rep 0 t' cs' fl' /\
    a_nrun (mkamm 1 (repeat [] (N.to_nat (new_sz k)))) ops [] = (outs, Ok (abs 0 t' cs')).
Proof.
  intros Hk Hn Hc. destruct (nht_new_run_refines k 1 ops Hk ltac:(lia) Hn) as [_ H].
  destruct (empty_amm_facts nveq k 1 Hk) as (S & HB & Hcc & Hlf0). pose proof (new_sz_le k Hk).
  destruct (a_nrun_checked_total ops _ [] (new_sz k) S (Hlf0 ltac:(lia))) as (outs & m' & E & _); auto.
  { unfold ADist. rewrite Hcc. constructor. }
  { lia. }
  rewrite E in H. destruct H as (t' & cs' & fl' & E' & R' & A'). exists outs, t', cs', fl'.
  split; [exact E'|]. split; [exact R'|]. now rewrite A'.
Qed.
