(* Context.v — slice ctx (property C09): the libyang context as a pure state machine. MODEL ONLY.

   Transcribed C code (/repo/src):
     tree_schema.c        lys_parse_in, lys_parse, lysp_resolve_import_include, _lys_set_implemented,
                          lys_set_implemented, lys_unres_dep_sets_create(_mod_r,_single), lys_unres_glob_revert,
                          lys_unres_glob_erase
     tree_schema_common.c lys_parse_load, lys_parse_load_from_clb_or_file, lys_get_module_without_revision,
                          lysp_load_module_check
     context.c            ly_ctx_load_module, ly_ctx_compile, ly_ctx_get_module, ly_ctx_get_module_latest,
                          ly_ctx_get_module_implemented, ly_ctx_get_modules_hash, ly_ctx_get_change_count
     schema_features.c    lys_set_features, lys_check_features
     schema_compile.c     lys_implement, lys_has_compiled_import_r, lys_compile_depset_all, lys_compile_depset_r,
                          lys_compile_depset_check_features, lys_compile (abstract)
     set.c                ly_set_rm, ly_set_rm_index (the last item is moved into the hole)

   Each operation is the SEQUENCE OF STATE UPDATES the C code performs, in its order, and the revert is the one
   that is coded (it only knows the `creating` and `implementing` sets), so that an update the revert does not
   undo is a difference between the state before and after a failed operation. Known differences (all carried
   by the model, see Properties_C09_ctx.v for the witnesses):
     - (fixed by /repo commit 21681e3: lys_parse_in clears LYS_MOD_LATEST_REV of the previous latest revision
       before later failure points; the revert now gives the flag to the newest remaining revision. What is left:
       LYS_MOD_LATEST_SEARCHDIRS is not given back, and the assert of lys_parse_load after a nested failed parse)
     - (fixed by /repo commit af27b8d: lys_set_features flips feature bits in place and nothing restored them; now
       _lys_set_implemented remembers them in the unres and the revert writes them back and recompiles)
     - with LY_CTX_EXPLICIT_COMPILE `creating`/`implementing` accumulate over calls, so a failed call also
       removes what earlier successful calls added (since c018937 the dep sets a failed ly_ctx_compile had already
       compiled are recompiled as well);
     - LYS_MOD_IMPORTED_REV / LATEST_SEARCHDIRS / LATEST_IMPCLB set on existing modules stay;
     - the revert recompiles existing modules (their compiled trees are new objects: data trees dangle).

   What is abstract: a module is (name, revision, imports, features with if-feature = conjunction of features
   of the same module, one optional fault); its compiled schema is the list of features (its own and those of
   its imports) that were enabled when it was compiled. Not modelled: submodules, augments/deviations,
   implementing through leafref/when/must references, LY_CTX_ALL_IMPLEMENTED / REF_IMPLEMENTED /
   ENABLE_IMP_FEATURES / PREFER_SEARCHDIRS, search directories (the context is taken with
   LY_CTX_DISABLE_SEARCHDIRS and an import callback serving a fixed repository), circular imports (the
   repository is expected to be acyclic; the recursion is fuelled and running out of fuel is a distinguished
   result). Every generated module has a data node, so LYS_IS_SINGLE_DEP_SET is false for it; the six internal
   modules of a LY_CTX_NO_YANGLIBRARY context are part of the initial state because they take part in the
   (order of the) dependency sets. *)
From LY Require Import Base.
Local Open Scope N_scope.

(* ------------------------------------------------------------------------------------------------ *)
(* data                                                                                             *)
(* ------------------------------------------------------------------------------------------------ *)
(* a module in the context is identified by (name, revision); revision 0 = no revision statement; the C code
   uses the pointer, and lys_parse_in never adds a second module with the same name and revision *)
Definition key := (N * N)%type.
Definition key_eqb (a b : key) : bool := (fst a =? fst b) && (snd a =? snd b).

Fixpoint kmem (k : key) (l : list key) : bool :=
  match l with [] => false | x :: r => key_eqb x k || kmem k r end.

Record feat := mkFeat { f_name : N; f_deps : list N; f_on : bool }.

Record modl := mkMod {
  m_name : N; m_rev : N;
  m_impl : bool;                      (* lys_module.implemented *)
  m_latest : bool;                    (* LYS_MOD_LATEST_REV *)
  m_lsearch : bool;                   (* LYS_MOD_LATEST_SEARCHDIRS *)
  m_imprev : bool;                    (* LYS_MOD_IMPORTED_REV *)
  m_limpclb : bool;                   (* LYS_MOD_LATEST_IMPCLB *)
  m_feats : list feat;                (* parsed->features with LYS_FENABLED *)
  m_imps : list key;                  (* parsed->imports[u].module, resolved *)
  m_cfault : N;                       (* 3 lys_compile fails, 4 dep set unres fails, 5 fails unless first feature on *)
  m_tc : bool;                        (* lys_module.to_compile *)
  m_comp : option (list (N * N));     (* lys_module.compiled: (0, f) own feature f was on, (i+1, f) feature f of import i *)
  m_single : bool;                    (* LYS_IS_SINGLE_DEP_SET (static: false for every generated module) *)
  m_hasdep : bool }.                  (* lys_has_dep_mods (only read for single modules) *)

Definition mkey (m : modl) : key := (m_name m, m_rev m).

Definition set_impl (b : bool) (m : modl) : modl :=
  mkMod (m_name m) (m_rev m) b (m_latest m) (m_lsearch m) (m_imprev m) (m_limpclb m) (m_feats m) (m_imps m)
        (m_cfault m) (m_tc m) (m_comp m) (m_single m) (m_hasdep m).
Definition set_latest (b : bool) (m : modl) : modl :=
  mkMod (m_name m) (m_rev m) (m_impl m) b (m_lsearch m) (m_imprev m) (m_limpclb m) (m_feats m) (m_imps m)
        (m_cfault m) (m_tc m) (m_comp m) (m_single m) (m_hasdep m).
Definition set_lsearch (b : bool) (m : modl) : modl :=
  mkMod (m_name m) (m_rev m) (m_impl m) (m_latest m) b (m_imprev m) (m_limpclb m) (m_feats m) (m_imps m)
        (m_cfault m) (m_tc m) (m_comp m) (m_single m) (m_hasdep m).
Definition set_imprev (b : bool) (m : modl) : modl :=
  mkMod (m_name m) (m_rev m) (m_impl m) (m_latest m) (m_lsearch m) b (m_limpclb m) (m_feats m) (m_imps m)
        (m_cfault m) (m_tc m) (m_comp m) (m_single m) (m_hasdep m).
Definition set_limpclb (b : bool) (m : modl) : modl :=
  mkMod (m_name m) (m_rev m) (m_impl m) (m_latest m) (m_lsearch m) (m_imprev m) b (m_feats m) (m_imps m)
        (m_cfault m) (m_tc m) (m_comp m) (m_single m) (m_hasdep m).
Definition set_feats (f : list feat) (m : modl) : modl :=
  mkMod (m_name m) (m_rev m) (m_impl m) (m_latest m) (m_lsearch m) (m_imprev m) (m_limpclb m) f (m_imps m)
        (m_cfault m) (m_tc m) (m_comp m) (m_single m) (m_hasdep m).
Definition set_imps (i : list key) (m : modl) : modl :=
  mkMod (m_name m) (m_rev m) (m_impl m) (m_latest m) (m_lsearch m) (m_imprev m) (m_limpclb m) (m_feats m) i
        (m_cfault m) (m_tc m) (m_comp m) (m_single m) (m_hasdep m).
Definition set_tc (b : bool) (m : modl) : modl :=
  mkMod (m_name m) (m_rev m) (m_impl m) (m_latest m) (m_lsearch m) (m_imprev m) (m_limpclb m) (m_feats m) (m_imps m)
        (m_cfault m) b (m_comp m) (m_single m) (m_hasdep m).
Definition set_comp (c : option (list (N * N))) (m : modl) : modl :=
  mkMod (m_name m) (m_rev m) (m_impl m) (m_latest m) (m_lsearch m) (m_imprev m) (m_limpclb m) (m_feats m) (m_imps m)
        (m_cfault m) (m_tc m) c (m_single m) (m_hasdep m).

(* what happened during one operation: ctx->change_count++ of lys_parse_in, lys_compile of a module (also
   change_count++; the compiled tree of that module is a new object afterwards), and change_count++ of
   _lys_set_implemented (features of an implemented module changed) / lys_implement (module became implemented) *)
Inductive event := EvAdd | EvCompile (k : key) | EvChange.

(* the context options the operations of the model read or ly_ctx_set_options treats specially (the other bits of
   ctx->flags behave like x_impf / x_refi: they are only stored). LY_CTX_EXPLICIT_COMPILE is the field `explicit`. *)
Record xflags := mkX {
  x_impf : bool;               (* LY_CTX_ENABLE_IMP_FEATURES: no effect on the modelled operations (nothing is implemented as a side effect) *)
  x_refi : bool;               (* LY_CTX_REF_IMPLEMENTED: no effect on the modelled operations (no when / must) *)
  x_priv : bool }.             (* LY_CTX_SET_PRIV_PARSED: setting it recompiles the context *)

Record state := mkState {
  mods : list modl;            (* ctx->list, in order *)
  explicit : bool;             (* LY_CTX_EXPLICIT_COMPILE *)
  xopts : xflags;              (* further bits of ctx->flags *)
  creating : list key;         (* ctx->unres.creating *)
  implementing : list key;     (* ctx->unres.implementing *)
  featsaved : list (key * list bool); (* ctx->unres.feat_mods / feat_bits (since /repo commit af27b8d), oldest first *)
  evs : list event;            (* events of the current operation, oldest first (not part of the C state) *)
  fuel_out : bool;             (* the model ran out of fuel (not part of the C state) *)
  aborted : bool }.            (* an assert() of the C code does not hold (builds with assertions abort there) *)

Definition with_mods (l : list modl) (s : state) : state :=
  mkState l (explicit s) (xopts s) (creating s) (implementing s) (featsaved s) (evs s) (fuel_out s) (aborted s).
Definition with_creating (c : list key) (s : state) : state :=
  mkState (mods s) (explicit s) (xopts s) c (implementing s) (featsaved s) (evs s) (fuel_out s) (aborted s).
Definition with_implementing (c : list key) (s : state) : state :=
  mkState (mods s) (explicit s) (xopts s) (creating s) c (featsaved s) (evs s) (fuel_out s) (aborted s).
Definition with_featsaved (c : list (key * list bool)) (s : state) : state :=
  mkState (mods s) (explicit s) (xopts s) (creating s) (implementing s) c (evs s) (fuel_out s) (aborted s).
Definition add_ev (e : event) (s : state) : state :=
  mkState (mods s) (explicit s) (xopts s) (creating s) (implementing s) (featsaved s) (evs s ++ [e]) (fuel_out s) (aborted s).
Definition out_of_fuel (s : state) : state :=
  mkState (mods s) (explicit s) (xopts s) (creating s) (implementing s) (featsaved s) (evs s) true (aborted s).
Definition assert_fails (s : state) : state :=
  mkState (mods s) (explicit s) (xopts s) (creating s) (implementing s) (featsaved s) (evs s) (fuel_out s) true.

(* the state without the bookkeeping of the model itself *)
Definition core (s : state) : state :=
  mkState (mods s) (explicit s) (xopts s) (creating s) (implementing s) (featsaved s) [] false false.

(* abstract module text: what lys_parse gets or the import callback serves *)
Record mdesc := mkDesc {
  d_name : N; d_rev : N;
  d_imps : list (N * N);            (* import name, revision-date (0 = none) *)
  d_feats : list (N * list N);      (* feature name, names in its if-feature (conjunction) *)
  d_fault : N }.                    (* 0 none, 1 syntax, 2 duplicate feature, 3/4/5 see m_cfault *)

Definition repo := list mdesc.

(* the import callback: without a revision the first entry of the name; with a revision exactly that entry, and when
   the repository does not have it a sloppy answer: the first entry of the name (lysp_load_module_check then refuses
   the module: parsed with the wrong revision) *)
Definition repo_serve (R : repo) (name rev : N) : option mdesc :=
  if rev =? 0 then find (fun d => d_name d =? name) R
  else match find (fun d => (d_name d =? name) && (d_rev d =? rev)) R with
       | Some d => Some d
       | None => find (fun d => d_name d =? name) R
       end.

(* ------------------------------------------------------------------------------------------------ *)
(* lookups (context.c)                                                                              *)
(* ------------------------------------------------------------------------------------------------ *)
Definition find_mod (k : key) (l : list modl) : option modl := find (fun m => key_eqb (mkey m) k) l.

(* apply f to the module(s) with key k (the C code writes through the pointer) *)
Definition upd (k : key) (f : modl -> modl) (l : list modl) : list modl :=
  map (fun m => if key_eqb (mkey m) k then f m else m) l.
Definition upd_s (k : key) (f : modl -> modl) (s : state) : state := with_mods (upd k f (mods s)) s.

(* ly_ctx_get_module(ctx, name, revision) *)
Definition get_module (name rev : N) (l : list modl) : option modl := find_mod (name, rev) l.
(* ly_ctx_get_module_latest: the first module of the name with LYS_MOD_LATEST_REV *)
Definition get_latest (name : N) (l : list modl) : option modl :=
  find (fun m => (m_name m =? name) && m_latest m) l.
(* ly_ctx_get_module_implemented *)
Definition get_implemented (name : N) (l : list modl) : option modl :=
  find (fun m => (m_name m =? name) && m_impl m) l.
(* lys_get_module_without_revision: LYS_MOD_IMPORTED_REV first, then implemented, then latest *)
Definition get_without_rev (name : N) (l : list modl) : option modl :=
  match find (fun m => (m_name m =? name) && m_imprev m) l with
  | Some m => Some m
  | None => match get_implemented name l with
            | Some m => Some m
            | None => get_latest name l
            end
  end.

(* ly_set_rm_index: the last item is moved into the hole *)
Fixpoint rm_index {A} (i : nat) (l : list A) : list A :=
  match l with
  | [] => []
  | x :: r =>
      match i with
      | O => match r with [] => [] | _ => last r x :: removelast r end
      | S i' => x :: rm_index i' r
      end
  end.
Fixpoint index_of (k : key) (l : list key) : option nat :=
  match l with
  | [] => None
  | x :: r => if key_eqb x k then Some O else option_map S (index_of k r)
  end.
(* ly_set_rm on a set of modules / of keys *)
Definition rm_mod (k : key) (l : list modl) : list modl :=
  match index_of k (map mkey l) with Some i => rm_index i l | None => l end.
Definition rm_key (k : key) (l : list key) : list key :=
  match index_of k l with Some i => rm_index i l | None => l end.

(* ------------------------------------------------------------------------------------------------ *)
(* parsing (lys_parse_in, lys_parse_load, lysp_resolve_import_include)                              *)
(* ------------------------------------------------------------------------------------------------ *)
Inductive pres :=
| POk (k : key)       (* a new module was created *)
| PDup (k : key)      (* the module is already in the context: LY_SUCCESS with the existing module *)
| PExist              (* LY_EEXIST of lysp_load_module_check: not newer than what the context has *)
| PErr.

Definition new_module (d : mdesc) (latest lsearch : bool) : modl :=
  mkMod (d_name d) (d_rev d) false latest lsearch false false
        (map (fun f => mkFeat (fst f) (snd f) false) (d_feats d)) [] (d_fault d) false None false
        (match d_feats d with [] => false | _ => true end).

(* the first part of lys_parse_load: what the context has. (found, mod_latest) *)
Definition pick_in_ctx (l : list modl) (name rev : N) : option modl * option modl :=
  if negb (rev =? 0) then (get_module name rev l, None)
  else match get_without_rev name l with
       | Some m => if negb (m_impl m) && negb (m_imprev m) then (None, Some m) else (Some m, None)
       | None => (None, None)
       end.

(* lys_parse_load_from_clb_or_file (imp_clb set, LY_CTX_DISABLE_SEARCHDIRS): the callback is not asked when the
   latest module of the context already came from it; a module it serves is parsed with lys_parse_in, whose error
   is ignored; without a revision the result gets LYS_MOD_LATEST_IMPCLB *)
Definition load_from_clb (pin : state -> mdesc -> option (N * N) -> state * pres) (R : repo)
           (s : state) (name rev : N) (mod_latest : option modl) : state * option key :=
  if match mod_latest with Some ml => m_limpclb ml | None => false end then (s, None) else
  match repo_serve R name rev with
  | Some d =>
      let '(s', r) := pin s d (Some (name, rev)) in
      match r with
      | POk k | PDup k => (if rev =? 0 then upd_s k (set_limpclb true) s' else s', Some k)
      | _ => (s', None)
      end
  | None => (s, None)
  end.

(* lys_parse_load with the recursive lys_parse_in call as a parameter; None = error *)
Definition parse_load (pin : state -> mdesc -> option (N * N) -> state * pres) (R : repo)
           (s : state) (name rev : N) : state * option key :=
  let '(found, mod_latest) := pick_in_ctx (mods s) name rev in
  match found with
  | Some m => (s, Some (mkey m))
  | None =>
      let '(s2, got) := load_from_clb pin R s name rev mod_latest in
      match got, mod_latest with
      | None, None => (s2, None)                                           (* Loading module failed: LY_EVALID *)
      | None, Some ml =>
          (* assert(mod_latest->latest_revision & LYS_MOD_LATEST_REV): does not hold when the nested lys_parse_in
             of a newer revision took the flag away and then failed *)
          let s3 := match find_mod (mkey ml) (mods s2) with
                    | Some ml' => if m_latest ml' then s2 else assert_fails s2
                    | None => s2
                    end in
          (upd_s (mkey ml) (set_lsearch true) s3, Some (mkey ml))
      | Some k, _ =>
          let isl := match find_mod k (mods s2) with Some m => m_latest m | None => false end in
          (if (rev =? 0) && isl then upd_s k (set_lsearch true) s2 else s2, Some k)
      end
  end.

(* lysp_resolve_import_include: the imports one after the other; the first failure returns *)
Fixpoint resolve_imports (pl : state -> N -> N -> state * option key) (self : key)
         (imps : list (N * N)) (s : state) : state * bool :=
  match imps with
  | [] => (s, true)
  | (n, r) :: rest =>
      let '(s1, res) := pl s n r in
      match res with
      | None => (s1, false)
      | Some k =>
          let s2 := if r =? 0 then upd_s k (set_imprev true) s1 else s1 in
          let s3 := upd_s self (fun m => set_imps (m_imps m ++ [k]) m) s2 in
          resolve_imports pl self rest s3
      end
  end.

(* lys_parse_in; chk = the data of lysp_load_module_check (requested name and revision) for loads through the
   callback; new modules are appended to ctx->list and to unres.creating *)
Fixpoint parse_in (fuel : nat) (R : repo) (s : state) (d : mdesc) (chk : option (N * N)) : state * pres :=
  match fuel with
  | O => (out_of_fuel s, PErr)
  | S fuel' =>
      if d_fault d =? 1 then (s, PErr) else
      (* decide the latest revision *)
      let '(nl, ns, disp) :=
        match get_latest (d_name d) (mods s) with
        | Some L =>
            if negb (d_rev d =? 0) && ((m_rev L =? 0) || (m_rev L <? d_rev d))
            then (m_latest L, m_lsearch L, Some (mkey L))
            else (false, false, None)
        | None => (true, false, None)
        end in
      (* custom_check *)
      let chk_res :=
        match chk with
        | None => 0
        | Some (cn, cr) =>
            if negb (cn =? d_name d) then 1
            else if negb (cr =? 0) then (if cr =? d_rev d then 0 else 1)
            else if negb (nl || ns) then 2 else 0
        end in
      if chk_res =? 1 then (s, PErr) else
      if chk_res =? 2 then (s, PExist) else
      match get_module (d_name d) (d_rev d) (mods s) with
      | Some m => (s, PDup (mkey m))
      | None =>
          let k := (d_name d, d_rev d) in
          (* the previous latest revision loses its flags here, before the later failure points *)
          let s1 := match disp with
                    | Some lk => upd_s lk (fun m => set_lsearch false (set_latest false m)) s
                    | None => s
                    end in
          let s2 := with_creating (creating s1 ++ [k]) s1 in
          let s3 := add_ev EvAdd (with_mods (mods s2 ++ [new_module d nl ns]) s2) in
          let '(s4, ok) := resolve_imports (parse_load (parse_in fuel' R) R) k (d_imps d) s3 in
          if negb ok then (s4, PErr) else
          if d_fault d =? 2 then (s4, PErr) else
          (s4, POk k)
      end
  end.

(* ------------------------------------------------------------------------------------------------ *)
(* features (lys_set_features, lys_check_features)                                                  *)
(* ------------------------------------------------------------------------------------------------ *)
Inductive fsel := FNull | FAll | FList (l : list N).

Inductive sfres := SfOk (f : list feat) | SfExist | SfInval.

Definition feat_enabled (n : N) (fs : list feat) : bool :=
  existsb (fun f => (f_name f =? n) && f_on f) fs.
Definition feat_exists (n : N) (fs : list feat) : bool := existsb (fun f => f_name f =? n) fs.

Definition set_features (fs : list feat) (sel : fsel) : sfres :=
  match sel with
  | FNull => SfExist
  | FAll => if forallb f_on fs then SfExist
            else SfOk (map (fun f => mkFeat (f_name f) (f_deps f) true) fs)
  | FList [] => if existsb f_on fs then SfOk (map (fun f => mkFeat (f_name f) (f_deps f) false) fs)
                else SfExist
  | FList l =>
      if negb (forallb (fun n => feat_exists n fs) l) then SfInval else
      let fs' := map (fun f => mkFeat (f_name f) (f_deps f) (existsb (N.eqb (f_name f)) l)) fs in
      if forallb (fun f => Bool.eqb (f_on f) (existsb (N.eqb (f_name f)) l)) fs then SfExist else SfOk fs'
  end.

(* lys_check_features: every enabled feature has its if-feature satisfied *)
Definition check_features (fs : list feat) : bool :=
  forallb (fun f => negb (f_on f) || forallb (fun n => feat_enabled n fs) (f_deps f)) fs.

(* ------------------------------------------------------------------------------------------------ *)
(* implementing (lys_implement, _lys_set_implemented)                                               *)
(* ------------------------------------------------------------------------------------------------ *)
(* lys_has_compiled_import_r: marks the first implemented import that is not marked and stops (LY_ERECOMPILE);
   the loop over the imports with the recursive call as a parameter *)
Fixpoint hci_loop (rec : state -> key -> state * bool) (imps : list key) (s : state) : state * bool :=
  match imps with
  | [] => (s, false)
  | ik :: rest =>
      match find_mod ik (mods s) with
      | None => hci_loop rec rest s
      | Some im =>
          if negb (m_impl im) then hci_loop rec rest s
          else if negb (m_tc im) then (upd_s ik (set_tc true) s, true)
          else let '(s1, stop) := rec s ik in
               if stop then (s1, true) else hci_loop rec rest s1
      end
  end.

Fixpoint has_compiled_import_r (fuel : nat) (s : state) (k : key) : state * bool :=
  match fuel with
  | O => (out_of_fuel s, true)
  | S fuel' =>
      match find_mod k (mods s) with
      | None => (s, false)
      | Some m => hci_loop (has_compiled_import_r fuel') (m_imps m) s
      end
  end.

(* lys_unres_feat_backup (af27b8d, d89c6b6): with a features array the current feature states of the module are
   remembered in the global unres before lys_set_features is applied; lys_unres_glob_revert restores them *)
Definition feat_backup (s : state) (k : key) (sel : fsel) (m : modl) : state :=
  match sel with
  | FNull => s
  | _ => with_featsaved (featsaved s ++ [(k, map f_on (m_feats m))]) s
  end.

(* _lys_set_implemented; false = error *)
Definition set_implemented (s0 : state) (k : key) (sel : fsel) : state * bool :=
  match find_mod k (mods s0) with
  | None => (s0, false)
  | Some m =>
      if m_impl m then
        let s := feat_backup s0 k sel m in
        match set_features (m_feats m) sel with
        | SfInval => (s, false)
        | SfExist => (s, true)
        | SfOk fs => (add_ev EvChange (upd_s k (fun m => set_tc true (set_feats fs m)) s), true)
        end
      else
        (* lys_implement: collision with another implemented revision first, then the backup and the features *)
        match get_implemented (m_name m) (mods s0) with
        | Some _ => (s0, false)                                          (* LY_EDENIED *)
        | None =>
            let s := feat_backup s0 k sel m in
            match set_features (m_feats m) sel with
            | SfInval => (s, false)
            | r =>
                let fs := match r with SfOk fs => fs | _ => m_feats m end in
                let s1 := add_ev EvChange (upd_s k (fun m => set_tc true (set_impl true (set_feats fs m))) s) in
                let s2 := with_implementing (implementing s1 ++ [k]) s1 in
                let '(s3, _) := has_compiled_import_r (S (length (mods s2))) s2 k in
                (s3, true)
            end
        end
  end.

(* ------------------------------------------------------------------------------------------------ *)
(* dependency sets (lys_unres_dep_sets_create)                                                      *)
(* ------------------------------------------------------------------------------------------------ *)
Definition is_single (s : state) (k : key) : bool :=
  match find_mod k (mods s) with Some m => m_single m | None => false end.
Definition has_dep (s : state) (k : key) : bool :=
  match find_mod k (mods s) with Some m => m_hasdep m | None => false end.

(* lys_unres_dep_sets_create_single *)
Fixpoint create_single (fuel : nat) (s : state) (i : nat) (cs : list key) (main : list (list key))
  : list key * list (list key) :=
  match fuel with
  | O => (cs, main)
  | S fuel' =>
      match nth_error cs i with
      | None => (cs, main)
      | Some k => if is_single s k then create_single fuel' s i (rm_index i cs) (main ++ [[k]])
                  else create_single fuel' s (S i) cs main
      end
  end.

(* lys_unres_dep_sets_create_mod_r; acc = (ctx_set, dep_set, aux_set, out of fuel) *)
Definition dacc := (list key * list key * list key * bool)%type.

Fixpoint dep_dfs (fuel : nat) (s : state) (k : key) (acc : dacc) : dacc :=
  let '(cs, ds, aux, oof) := acc in
  match fuel with
  | O => (cs, ds, aux, true)
  | S fuel' =>
      let enter :=
        if is_single s k then
          if negb (has_dep s k) then None
          else if kmem k aux then None
          else Some (cs, ds, aux ++ [k], oof)
        else
          match index_of k cs with
          | None => None
          | Some i => Some (rm_index i cs, ds ++ [k], aux, oof)
          end in
      match enter with
      | None => acc
      | Some acc1 =>
          let imps := match find_mod k (mods s) with Some m => m_imps m | None => [] end in
          let acc2 := fold_left (fun a ik => dep_dfs fuel' s ik a) imps acc1 in
          fold_left (fun a m2 => if kmem k (m_imps m2) then dep_dfs fuel' s (mkey m2) a else a) (mods s) acc2
      end
  end.

(* mark: if a module of the dep set is to be compiled, all its implemented modules are *)
Definition mark_depset (ds : list key) (s : state) : state :=
  if existsb (fun k => match find_mod k (mods s) with Some m => m_tc m | None => false end) ds
  then fold_left (fun s k => upd_s k (fun m => if m_impl m then set_tc true m else m) s) ds s
  else s.

Fixpoint dep_sets_loop (fuel : nat) (s : state) (target : option key) (cs : list key) (main : list (list key))
  : state * list (list key) :=
  match fuel with
  | O => (out_of_fuel s, main)
  | S fuel' =>
      match cs with
      | [] => (s, main)
      | c0 :: _ =>
          let start := match target with Some k => k | None => c0 end in
          let '(cs1, ds, _, oof) := dep_dfs (S (S (length (mods s)))) s start (cs, [], [], false) in
          let s1 := if oof then out_of_fuel s else s in
          let s2 := mark_depset ds s1 in
          match target with
          | Some _ => (s2, main ++ [ds])
          | None => dep_sets_loop fuel' s2 target cs1 (main ++ [ds])
          end
      end
  end.

Definition dep_sets_create (s : state) (target : option key) : state * list (list key) :=
  let cs0 := map mkey (mods s) in
  let '(cs1, main1) := create_single (S (2 * length cs0)) s O cs0 [] in
  match target with
  | Some k => if negb (kmem k cs1) then (s, main1) else dep_sets_loop (S (length cs0)) s target cs1 main1
  | None => dep_sets_loop (S (length cs0)) s target cs1 main1
  end.

(* ------------------------------------------------------------------------------------------------ *)
(* compilation (lys_compile_depset_all)                                                             *)
(* ------------------------------------------------------------------------------------------------ *)
Definition enabled_names (fs : list feat) : list N := map f_name (filter f_on fs).

(* the compiled schema of a module, abstractly: which of its own features and of the features of its imports
   are enabled now *)
Definition snapshot (l : list modl) (m : modl) : list (N * N) :=
  map (fun n => (0, n)) (enabled_names (m_feats m)) ++
  concat (map (fun ik : nat * key =>
                 match find_mod (snd ik) l with
                 | Some im => map (fun n => (N.of_nat (S (fst ik)), n)) (enabled_names (m_feats im))
                 | None => []
                 end) (combine (seq 0 (length (m_imps m))) (m_imps m))).

Definition first_feat_on (fs : list feat) : bool :=
  match fs with [] => false | f :: _ => f_on f end.
Definition node_fault (m : modl) : bool := m_cfault m =? 3.

(* the compiled tree before the disabled nodes are removed (that is the last step of lys_compile_unres_depset):
   all the features, enabled or not *)
Definition snapshot_all (l : list modl) (m : modl) : list (N * N) :=
  map (fun n => (0, n)) (map f_name (m_feats m)) ++
  concat (map (fun ik : nat * key =>
                 match find_mod (snd ik) l with
                 | Some im => map (fun n => (N.of_nat (S (fst ik)), n)) (map f_name (m_feats im))
                 | None => []
                 end) (combine (seq 0 (length (m_imps m))) (m_imps m))).

(* the loop of lys_compile_depset_r over the modules of a dep set; done = modules compiled in this round.
   lys_compile leaves the disabled nodes in the tree (they are collected in ds_unres.disabled). *)
Fixpoint compile_mods (ds : list key) (s : state) (done : list key) : state * list key * bool :=
  match ds with
  | [] => (s, done, true)
  | k :: rest =>
      match find_mod k (mods s) with
      | None => compile_mods rest s done
      | Some m =>
          if negb (m_tc m) then compile_mods rest s done else
          (* lysc_module_free(mod->compiled); lys_compile(): ++change_count *)
          let s1 := add_ev (EvCompile k) (upd_s k (set_comp None) s) in
          if node_fault m then (s1, done, false) else
          let s2 := upd_s k (set_comp (Some (snapshot_all (mods s1) m))) s1 in
          compile_mods rest s2 (done ++ [k])
      end
  end.

(* the end of lys_compile_unres_depset: the disabled nodes of the modules compiled in this round are removed in
   the order they were compiled; a disabled list key stops it (the nodes of the later modules stay) *)
Fixpoint prune_mods (done : list key) (s : state) : state * bool :=
  match done with
  | [] => (s, true)
  | k :: rest =>
      match find_mod k (mods s) with
      | None => prune_mods rest s
      | Some m =>
          let s1 := upd_s k (set_comp (Some (snapshot (mods s) m))) s in
          if (m_cfault m =? 5) && negb (first_feat_on (m_feats m)) then (s1, false) else prune_mods rest s1
      end
  end.

Definition leafref_fault (m : modl) : bool :=
  (m_cfault m =? 4) || ((m_cfault m =? 5) && match m_feats m with [] => true | _ => false end).

Definition depset_r (ds : list key) (s : state) : state * bool :=
  let '(s1, done, ok) := compile_mods ds s [] in
  if negb ok then (s1, false) else
  (* lys_compile_unres_depset over what was compiled in this round: leafrefs first ... *)
  if existsb (fun k => match find_mod k (mods s1) with Some m => leafref_fault m | None => false end) done
  then (s1, false) else
  (* ... the disabled nodes last *)
  let '(s2, ok2) := prune_mods done s1 in
  if negb ok2 then (s2, false)
  else (fold_left (fun s k => upd_s k (set_tc false) s) ds s2, true).

(* lys_compile_depset_check_features *)
Definition depset_check_features (ds : list key) (s : state) : bool :=
  forallb (fun k => match find_mod k (mods s) with
                    | Some m => negb (m_tc m) || check_features (m_feats m)
                    | None => true
                    end) ds.

Fixpoint compile_all (dss : list (list key)) (s : state) : state * bool :=
  match dss with
  | [] => (s, true)
  | ds :: rest =>
      if negb (depset_check_features ds s) then (s, false) else
      let '(s1, ok) := depset_r ds s in
      if negb ok then (s1, false) else compile_all rest s1
  end.

(* ------------------------------------------------------------------------------------------------ *)
(* revert and erase (lys_unres_glob_revert, lys_unres_glob_erase)                                   *)
(* ------------------------------------------------------------------------------------------------ *)
(* remove a module from the first dep set that contains it *)
Fixpoint rm_from_depsets (k : key) (dss : list (list key)) : list (list key) :=
  match dss with
  | [] => []
  | ds :: rest => if kmem k ds then rm_key k ds :: rest else ds :: rm_from_depsets k rest
  end.

(* the newest revision of a name among the modules: the loop of lys_unres_glob_revert (since /repo commit 21681e3)
   that finds the module the latest-revision flag is given back to *)
Definition newest (name : N) (l : list modl) : option modl :=
  fold_left (fun acc m =>
               if m_name m =? name then
                 match acc with
                 | None => Some m
                 | Some a => if negb (m_rev m =? 0) && ((m_rev a =? 0) || (m_rev a <? m_rev m)) then Some m else Some a
                 end
               else acc) l None.

(* one created module: ly_set_rm from ctx->list; if it carries LYS_MOD_LATEST_REV (lys_parse_in took it from the
   previous latest revision) the flag goes to the newest revision of the name that is still in the list; the
   module is removed from the dep sets *)
Definition rm_step (a : state * list (list key)) (k : key) : state * list (list key) :=
  let l := mods (fst a) in
  let flagged := match find_mod k l with Some m => m_latest m | None => false end in
  let l1 := rm_mod k l in
  let l2 := if flagged then
              match newest (fst k) l1 with
              | Some ml => upd (mkey ml) (set_latest true) l1
              | None => l1
              end
            else l1 in
  (with_mods l2 (fst a), rm_from_depsets k (snd a)).

(* the remembered feature states of one module are written back *)
Fixpoint restore_bits (fs : list feat) (bits : list bool) : list feat :=
  match fs, bits with
  | f :: fs', b :: bits' => mkFeat (f_name f) (f_deps f) b :: restore_bits fs' bits'
  | _, _ => fs
  end.

(* the first loop of lys_unres_glob_revert (af27b8d): the last change first *)
Definition restore_features (s : state) : state :=
  fold_left (fun s e => upd_s (fst e) (fun m => set_feats (restore_bits (m_feats m) (snd e)) m) s) (rev (featsaved s)) s.

Definition mark_all (dss : list (list key)) (s : state) : state :=
  fold_left (fun s k => upd_s k (fun m => if m_impl m then set_tc true m else m) s) (concat dss) s.

Definition revert (s0 : state) (dss : list (list key)) : state :=
  let s := restore_features s0 in
  (* make the implementing modules non-implemented again *)
  let s1 := fold_left (fun s k => upd_s k (fun m => set_tc false (set_comp None (set_impl false m))) s)
                      (implementing s) s in
  (* remove the created modules from the context and from the dep sets *)
  let '(s2, dss2) := fold_left rm_step (creating s1) (s1, dss) in
  (* recompile the previous context; every implemented module of the dep sets is marked first (c018937: the sets a
     failed ly_ctx_compile had already compiled have their marks cleared); a failure is only logged *)
  match implementing s2, featsaved s2 with
  | [], [] => s2
  | _, _ => fst (compile_all dss2 (mark_all dss2 s2))
  end.

Definition erase (s : state) : state := with_featsaved [] (with_implementing [] (with_creating [] s)).

(* ------------------------------------------------------------------------------------------------ *)
(* operations                                                                                       *)
(* ------------------------------------------------------------------------------------------------ *)
(* an options argument: LY_CTX_EXPLICIT_COMPILE, ENABLE_IMP_FEATURES, REF_IMPLEMENTED, SET_PRIV_PARSED *)
Record oflags := mkOf { of_expl : bool; of_impf : bool; of_refi : bool; of_priv : bool }.

Inductive op :=
| OpParse (d : mdesc) (sel : fsel)          (* lys_parse(ctx, text of d, features) *)
| OpLoad (name rev : N) (sel : fsel)        (* ly_ctx_load_module(ctx, name, revision, features) *)
| OpImpl (name rev : N) (sel : fsel)        (* lys_set_implemented(ly_ctx_get_module(ctx, name, revision), features) *)
| OpCompile                                 (* ly_ctx_compile(ctx) *)
| OpSetOpt (fl : oflags)                    (* ly_ctx_set_options(ctx, fl) *)
| OpUnsetOpt (fl : oflags).                 (* ly_ctx_unset_options(ctx, fl) *)

Inductive result := ROk | RErr | RNoMod | RFuel | RAbort.

Definition pfuel (R : repo) : nat := S (S (length R)).

(* the part of an operation before its cleanup: the state at the point where the C function jumps to
   `cleanup`, the dep sets that exist at that point, and whether it succeeded *)
Definition implement_and_compile (s : state) (k : key) (sel : fsel) : state * list (list key) * bool :=
  let '(s1, ok) := set_implemented s k sel in
  if negb ok then (s1, [], false) else
  if explicit s1 then (s1, [], true) else
  let '(s2, dss) := dep_sets_create s1 (Some k) in
  let '(s3, ok3) := compile_all dss s2 in
  (s3, dss, ok3).

Definition attempt (R : repo) (s : state) (o : op) : state * list (list key) * result :=
  match o with
  | OpParse d sel =>
      let '(s1, r) := parse_in (pfuel R) R s d None in
      match r with
      | POk k | PDup k =>
          let '(s2, dss, ok) := implement_and_compile s1 k sel in (s2, dss, if ok then ROk else RErr)
      | _ => (s1, [], RErr)
      end
  | OpLoad name rev sel =>
      let '(s1, r) := parse_load (parse_in (pfuel R) R) R s name rev in
      match r with
      | Some k =>
          let '(s2, dss, ok) := implement_and_compile s1 k sel in (s2, dss, if ok then ROk else RErr)
      | None => (s1, [], RErr)
      end
  | OpImpl name rev sel =>
      match get_module name rev (mods s) with
      | None => (s, [], RNoMod)
      | Some m =>
          let '(s2, dss, ok) := implement_and_compile s (mkey m) sel in (s2, dss, if ok then ROk else RErr)
      end
  | OpCompile =>
      let '(s1, dss) := dep_sets_create s None in
      let '(s2, ok) := compile_all dss s1 in
      (s2, dss, if ok then ROk else RErr)
  | OpSetOpt _ | OpUnsetOpt _ => (s, [], RNoMod)        (* not used: see set_options / unset_options and step *)
  end.

(* the cleanup of lys_parse / ly_ctx_load_module / lys_set_implemented / ly_ctx_compile *)
Definition finish (o : op) (a : state * list (list key) * result) : state * result :=
  let '(s, dss, r) := a in
  let r' := if fuel_out s then RFuel else if aborted s then RAbort else r in
  match r with
  | RNoMod => (s, r')
  | ROk =>
      match o with
      | OpCompile => (erase s, r')
      | _ => if explicit s then (s, r') else (erase s, r')        (* unres stays when the compilation is explicit *)
      end
  | _ => (erase (revert s dss), r')
  end.

(* ly_ctx_compile as a whole (with its cleanup), as ly_ctx_set_options calls it *)
Definition do_compile (s : state) : state * bool :=
  let '(s1, dss) := dep_sets_create s None in
  let '(s2, ok) := compile_all dss s1 in
  if ok then (erase s2, true) else (erase (revert s2 dss), false).

Definition with_flags (e : bool) (x : xflags) (s : state) : state :=
  mkState (mods s) e x (creating s) (implementing s) (featsaved s) (evs s) (fuel_out s) (aborted s).

(* ly_ctx_set_options (context.c): a newly set LY_CTX_SET_PRIV_PARSED sets that flag, marks every implemented module and
   recompiles the context; when that fails only this flag is cleared again (ly_ctx_unset_options) and the error is
   returned; the requested options are ORed into ctx->flags only after that, when nothing failed. or_first = the variant
   that ORs all the options before the recompilation (seeded change C09-7), for the regression example. *)
Definition set_options_gen (or_first : bool) (s : state) (fl : oflags) : state * bool :=
  let ored (t : state) := with_flags (explicit t || of_expl fl)
                            (mkX (x_impf (xopts t) || of_impf fl) (x_refi (xopts t) || of_refi fl) (x_priv (xopts t) || of_priv fl)) t in
  if negb (x_priv (xopts s)) && of_priv fl then
    let s0 := if or_first then ored s else s in
    let sp := with_flags (explicit s0) (mkX (x_impf (xopts s0)) (x_refi (xopts s0)) true) s0 in
    let sm := mark_all [map mkey (mods sp)] sp in
    let '(s2, ok) := do_compile sm in
    if ok then (ored s2, true)
    else (with_flags (explicit s2) (mkX (x_impf (xopts s2)) (x_refi (xopts s2)) false) s2, false)
  else (ored s, true).

Definition set_options : state -> oflags -> state * bool := set_options_gen false.

(* ly_ctx_unset_options: the bits are cleared (the priv pointers as well, which the model does not have) *)
Definition unset_options (s : state) (fl : oflags) : state :=
  with_flags (explicit s && negb (of_expl fl))
    (mkX (x_impf (xopts s) && negb (of_impf fl)) (x_refi (xopts s) && negb (of_refi fl)) (x_priv (xopts s) && negb (of_priv fl))) s.

Definition step (R : repo) (s : state) (o : op) : state * result :=
  match o with
  | OpSetOpt fl =>
      let '(s', ok) := set_options (core s) fl in
      (s', if fuel_out s' then RFuel else if aborted s' then RAbort else if ok then ROk else RErr)
  | OpUnsetOpt fl => (unset_options (core s) fl, ROk)
  | _ => finish o (attempt R (core s) o)
  end.

(* the state where a failing operation jumps to its cleanup *)
Definition step_mid (R : repo) (s : state) (o : op) : state := fst (fst (attempt R (core s) o)).

(* ------------------------------------------------------------------------------------------------ *)
(* the initial context: ly_ctx_new(NULL, LY_CTX_NO_YANGLIBRARY | LY_CTX_DISABLE_SEARCHDIRS [| EXPLICIT])  *)
(* ------------------------------------------------------------------------------------------------ *)
(* internal modules (names 100..105): ietf-yang-metadata, yang, ietf-inet-types, ietf-yang-types,
   ietf-yang-schema-mount, ietf-yang-structure-ext; implemented / single-dep-set / imports as printed by the
   driver command `ctxint` (T2 component ctxint compares this table with the library) *)
Definition internal (name : N) (impl single hasdep : bool) (imps : list key) : modl :=
  mkMod name 1 impl true false false false [] imps 0 false (if impl then Some [] else None) single hasdep.

Definition n_internal : nat := 6.

(* lys_has_dep_mods of `yang` is true since /repo commit 64300ce (it has typedefs and an import); it is only read for
   modules that form a dependency set of their own, which `yang` does not *)
Definition internal_mods : list modl :=
  [ internal 100 false true false [];
    internal 101 true false true [(100, 1)];
    internal 102 false true false [];
    internal 103 false true false [];
    internal 104 true false false [(102, 1); (103, 1)];
    internal 105 false true false [] ].

Definition init (expl : bool) : state := mkState internal_mods expl (mkX false false false) [] [] [] [] false false.

Definition run (R : repo) (s : state) (ops : list op) : state := fold_left (fun s o => fst (step R s o)) ops s.

(* ------------------------------------------------------------------------------------------------ *)
(* observation                                                                                      *)
(* ------------------------------------------------------------------------------------------------ *)
Definition user_mods (s : state) : list modl := skipn n_internal (mods s).

(* what ly_ctx_get_module_iter + lys_feature_value + the compiled tree show of a module *)
Record omod := mkOmod {
  o_name : N; o_rev : N; o_impl : bool; o_feats : list (N * bool); o_comp : option (list (N * N)) }.
Definition omod_of (m : modl) : omod :=
  mkOmod (m_name m) (m_rev m) (m_impl m) (map (fun f => (f_name f, f_on f)) (m_feats m)) (m_comp m).

(* module names that are queried *)
Definition names : list N := [0; 1; 2; 3; 4; 5; 6; 7].

(* ly_ctx_get_modules_hash, abstractly: the list of the hashed fields (name, revision, enabled features,
   implemented) of every module after the internal ones (as of /repo commit c8adb05; before it the feature
   iterator index was not reset and only the first module's features were hashed) *)
Definition hash_fields (s : state) : list (N * N * list N * bool) :=
  map (fun m => (m_name m, m_rev m, enabled_names (m_feats m), m_impl m)) (user_mods s).

Definition obs (s : state)
  : list omod * list (option N) * list (option N) * list (N * N * list N * bool) * (bool * xflags) :=
  (map omod_of (user_mods s),
   map (fun n => option_map m_rev (get_latest n (mods s))) names,
   map (fun n => option_map m_rev (get_implemented n (mods s))) names,
   hash_fields s,
   (explicit s, xopts s)).                  (* ly_ctx_get_options *)

(* compiled trees that are new objects after the operation *)
Definition compiled_in (s : state) : list key :=
  concat (map (fun e => match e with EvCompile k => [k] | _ => [] end) (evs s)).

(* ly_ctx_get_change_count (uint16_t) after the operation *)
Definition change_count_after (cc : N) (s : state) : N := (cc + N.of_nat (length (evs s))) mod 65536.

(* the context with its change counter *)
Definition cstep (R : repo) (c : state * N) (o : op) : (state * N) * result :=
  let '(s', r) := step R (fst c) o in ((s', change_count_after (snd c) s'), r).

(* ------------------------------------------------------------------------------------------------ *)
(* executable side conditions of the theorems (proofs about them: ContextP.v)                       *)
(* ------------------------------------------------------------------------------------------------ *)
Definition keys (l : list modl) : list key := map mkey l.

Fixpoint pairs_eqb (a b : list (N * N)) : bool :=
  match a, b with
  | [], [] => true
  | (x1, x2) :: a', (y1, y2) :: b' => (x1 =? y1) && (x2 =? y2) && pairs_eqb a' b'
  | _, _ => false
  end.

Definition comp_eqb (a b : option (list (N * N))) : bool :=
  match a, b with
  | None, None => true
  | Some x, Some y => pairs_eqb x y
  | _, _ => false
  end.

Definition feat_eqb (f g : feat) : bool :=
  (f_name f =? f_name g) && beq_bytes (f_deps f) (f_deps g) && Bool.eqb (f_on f) (f_on g).

Fixpoint feats_eqb (a b : list feat) : bool :=
  match a, b with
  | [], [] => true
  | x :: a', y :: b' => feat_eqb x y && feats_eqb a' b'
  | _, _ => false
  end.

Fixpoint nodupb (l : list key) : bool :=
  match l with [] => true | x :: r => negb (kmem x r) && nodupb r end.

(* a list key under a disabled if-feature *)
Definition key_fault (m : modl) : bool := (m_cfault m =? 5) && negb (first_feat_on (m_feats m)).
(* the module passes lys_check_features and compiles *)
Definition compiles_ok (m : modl) : bool :=
  check_features (m_feats m) && negb (node_fault m) && negb (leafref_fault m) && negb (key_fault m).

(* no to_compile mark, imports are modules of the context, implemented = compiled against the current features
   (and it would compile again), not implemented = no compiled tree *)
Definition mod_ok (l : list modl) (m : modl) : bool :=
  negb (m_tc m) && forallb (fun k => kmem k (keys l)) (m_imps m) &&
  (if m_impl m then comp_eqb (m_comp m) (Some (snapshot l m)) && compiles_ok m
   else comp_eqb (m_comp m) None).

Definition is_nil {A} (l : list A) : bool := match l with [] => true | _ => false end.

(* a module whose compiled schema depends on no feature at all (no feature of its own, none in its imports) *)
Definition plain (l : list modl) (m : modl) : bool := is_nil (snapshot_all l m).

(* nothing pending: what every state of a context without LY_CTX_EXPLICIT_COMPILE looks like between two calls
   unless one of the defects struck, and a context with explicit compilation right after ly_ctx_compile() *)
Definition quiescent (s : state) : bool :=
  nodupb (keys (mods s)) && forallb (mod_ok (mods s)) (mods s) && is_nil (creating s) && is_nil (implementing s) &&
  is_nil (featsaved s) &&
  (* the modules that form a dependency set of their own (only internal ones here) do not depend on features *)
  forallb (fun m => negb (m_single m) || plain (mods s) m) (mods s).
