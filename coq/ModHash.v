(* ModHash.v - model of ly_ctx_get_modules_hash() (src/context.c:747-780) and of the change counter
   (struct ly_ctx.change_count, uint16_t, ly_common.h:350; incremented in lys_parse_in, tree_schema.c:1937,
   lys_compile, schema_compile.c, and since /repo commit d4e18d7 in lys_implement and in _lys_set_implemented when
   the features of an implemented module change), on top of HashFn.lyht_hash_multi.

   The C function iterates the modules of the context after the internal ones
   (i = ly_ctx_internal_modules_count(ctx)) in context order and feeds to lyht_hash_multi, per module:
     the name, the revision when there is one, the name of every ENABLED feature that the feature iterator
     lysp_feature_next() visits, and the one byte mod->implemented;   finally lyht_hash_multi(hash, NULL, 0).

   History: the iterator state [fi] (index of the feature array being walked: 0 = the module, k = its k-th
   include) used to be initialised once before the module loop and not reset per module; after a module with k
   includes it was k+1, so the features of every later module itself (and of its first includes) were never
   hashed.  Fixed in /repo commit c8adb05 (f = NULL; fi = 0 before the feature loop of every module).
   [modhash_gen true] = [modhash] is the code as it is now; [modhash_gen false] is kept as the model of the former
   code for the regression examples only. *)
From LY Require Import Base HashFn.
Local Open Scope N_scope.

(* ---- abstract module records: what the function reads of a struct lys_module ---- *)
Record feat := mkfeat { f_name : bytes; f_en : bool }.          (* lysp_feature.name, flags & LYS_FENABLED *)

Record hmod := mkhmod {
  h_name : bytes;                 (* mod->name *)
  h_rev : option bytes;           (* mod->revision, None = NULL *)
  h_impl : bool;                  (* mod->implemented (ly_bool, one byte 0/1) *)
  h_feats : list feat;            (* mod->parsed->features *)
  h_subs : list (list feat)       (* mod->parsed->includes[k].submodule->features, k = 0.. *)
}.

(* feature arrays in the numbering of lysp_feature_next: 0 = module, k+1 = include k *)
Definition groups (m : hmod) : list (list feat) := h_feats m :: h_subs m.

(* true = fi reset for every module (the code since c8adb05), false = the former code (fi never reset) *)
Definition FI_RESET : bool := true.

(* ---- lysp_feature_next(last, pmod, idx), src/schema_features.c:144-170 ----
   [last] is the position of the previous feature inside array number [idx] (None = NULL; in both callers the
   pointer always lies in the array selected by idx).  Result: the next feature with the updated idx, or
   FN_none with the idx the C code leaves behind (one past the last array). *)
Inductive fnext :=
| FN_none (idx : nat)
| FN_feat (idx : nat) (pos : nat) (f : feat)
| FN_fuel.

Fixpoint feature_next (fuel : nat) (last : option nat) (gs : list (list feat)) (idx : nat) : fnext :=
  match fuel with
  | O => FN_fuel
  | S fuel' =>
      match nth_error gs idx with
      | None => FN_none idx                                   (* no more features: return NULL *)
      | Some fs =>
          (* features && (!last || &features[count-1] != last)  ->  !last ? &features[0] : last + 1 *)
          let pos := match last with None => O | Some p => S p end in
          match nth_error fs pos with
          | Some f => FN_feat idx pos f
          | None => feature_next fuel' None gs (S idx)        (* increment idx; return lysp_feature_next(NULL, ...) *)
          end
      end
  end.

Definition hash_str (h : N) (s : bytes) : N := lyht_hash_multi h (Some s).

(* while ((f = lysp_feature_next(f, mod->parsed, &fi))) { if (f->flags & LYS_FENABLED) hash name }  (context.c:766-770) *)
Fixpoint feat_loop (fuel : nat) (last : option nat) (gs : list (list feat)) (fi : nat) (h : N) : option (N * nat) :=
  match fuel with
  | O => None
  | S fuel' =>
      match feature_next (S (S (length gs))) last gs fi with
      | FN_fuel => None
      | FN_none fi' => Some (h, fi')
      | FN_feat fi' pos f => feat_loop fuel' (Some pos) gs fi' (if f_en f then hash_str h (f_name f) else h)
      end
  end.

Definition total_feats (m : hmod) : nat := length (concat (groups m)).

Definition impl_byte (m : hmod) : N := if h_impl m then 1 else 0.

(* body of the module loop (context.c:756-774); state = (hash, fi) *)
Definition mod_step (reset : bool) (st : option (N * nat)) (m : hmod) : option (N * nat) :=
  match st with
  | None => None
  | Some (h, fi) =>
      let h1 := hash_str h (h_name m) in
      let h2 := match h_rev m with Some r => hash_str h1 r | None => h1 end in
      match feat_loop (S (total_feats m)) None (groups m) (if reset then O else fi) h2 with
      | None => None
      | Some (h3, fi') => Some (hash_str h3 [impl_byte m], fi')
      end
  end.

(* ly_ctx_get_modules_hash on the module list after the internal modules; None = model fuel (never, ModHashP) *)
Definition modhash_gen (reset : bool) (ms : list hmod) : option N :=
  match fold_left (mod_step reset) ms (Some (0, O)) with
  | None => None
  | Some (h, _) => Some (lyht_hash_multi h None)
  end.

Definition modhash : list hmod -> option N := modhash_gen FI_RESET.

(* ---- closed form used by the proofs: which strings are fed ---- *)
(* the features the iterator visits for a module when it starts with index fi, and the index afterwards *)
Definition visited (fi : nat) (m : hmod) : list feat := concat (skipn fi (groups m)).
Definition fi_after (fi : nat) (m : hmod) : nat := Nat.max fi (length (groups m)).

Definition enabled_names (fs : list feat) : list bytes := map f_name (filter f_en fs).

Definition rev_chunk (m : hmod) : list bytes := match h_rev m with Some r => [r] | None => [] end.

(* the strings hashed for module m (in order) *)
Definition mod_chunks (fi : nat) (m : hmod) : list bytes :=
  [h_name m] ++ rev_chunk m ++ enabled_names (visited fi m) ++ [[impl_byte m]].

Fixpoint chunks_from (reset : bool) (fi : nat) (ms : list hmod) : list bytes :=
  match ms with
  | [] => []
  | m :: r =>
      let fi0 := if reset then O else fi in
      mod_chunks fi0 m ++ chunks_from reset (fi_after fi0 m) r
  end.

Definition chunks_gen (reset : bool) (ms : list hmod) : list bytes := chunks_from reset O ms.

(* the byte stream *)
Definition stream_gen (reset : bool) (ms : list hmod) : bytes := concat (chunks_gen reset ms).

Definition hash_chunks (cs : list bytes) : N := lyht_hash_multi (fold_left hash_str cs 0) None.
Definition hash_stream (s : bytes) : N := hash_fin (fold_left hash_step s 0).

(* ---- what an observer of the context sees of a module (the property's observable) ----
   name, revision, implemented, and per feature array the names of the enabled features *)
Definition obs (m : hmod) : bytes * option bytes * bool * list (list bytes) :=
  (h_name m, h_rev m, h_impl m, map enabled_names (groups m)).

(* coarser: the enabled feature names of module and submodules as one list *)
Definition obs_flat (m : hmod) : bytes * option bytes * bool * list bytes :=
  (h_name m, h_rev m, h_impl m, enabled_names (concat (groups m))).

(* well-formed: what the YANG parser guarantees of the strings (identifiers and dates are not empty) *)
Definition nonempty (s : bytes) : bool := match s with [] => false | _ => true end.
Definition wf_mod (m : hmod) : bool :=
  nonempty (h_name m) && match h_rev m with Some r => nonempty r | None => true end &&
  forallb (fun f => nonempty (f_name f)) (concat (groups m)).

(* ---- a delimited encoding (Spec): every string followed by a 0 byte, an absent revision as the empty string,
   the feature list closed by an empty string.  This is what hashing every string WITH its terminating NUL
   (strlen + 1), a lone NUL for a missing revision and after the last feature would feed. ---- *)
Definition z (s : bytes) : bytes := s ++ [0].
Definition spec_mod_stream (o : bytes * option bytes * bool * list bytes) : bytes :=
  let '(n, r, i, fs) := o in
  z n ++ z (match r with Some r' => r' | None => [] end) ++ concat (map z fs) ++ [0] ++ [if i then 1 else 0].
Definition spec_stream (os : list (bytes * option bytes * bool * list bytes)) : bytes :=
  concat (map spec_mod_stream os).

(* ---- change counter: uint16_t, ++ once per module added to the context (lys_parse_in), once per lys_compile()
   call, once per module made implemented (lys_implement) and once per feature change of an implemented module
   (_lys_set_implemented) ---- *)
Definition U16 : N := 65536.
Definition cc_incr (c : N) : N := (c + 1) mod U16.
Definition cc_after (c : N) (events : N) : N := N.iter events cc_incr c.
(* counter after a sequence of operations, each with its number of events; the list of values after each *)
Fixpoint cc_run (c : N) (ops : list N) : list N :=
  match ops with
  | [] => []
  | n :: r => let c' := cc_after c n in c' :: cc_run c' r
  end.

(* the byte stream the code hashes now *)
Definition mod_stream (ms : list hmod) : bytes := stream_gen FI_RESET ms.
