(* Properties_C02_valid.v -- property C02: validation accepts exactly the instances that satisfy the schema (RFC 7950).

   Spec: RfcValid.v (one boolean per RFC 7950 rule, flag-free, order-free). Implementation model: ValidateImpl.v
   (lyd_validate / lyd_validate_new / lyd_validate_final_r as coded + the parser's type and key checks). Proofs: ValidP.v.
   FRAGMENT: the XPath-free rules (types as a parameter, list keys, single instance, key uniqueness, configuration
   leaf-list values, one case per choice, mandatory leaf / anydata / choice, min- / max-elements, unique). when / must /
   leafref / instance-identifier are NOT in these models (covered by the oracle of tools/props/comps_valid.py). *)
From Coq Require Import Permutation.
From LY Require Import Base Tree RfcValid ValidateImpl ValidP ValidNsP.

(* The statement for trees with ARBITRARY LYD_NEW / LYD_DEFAULT flags (kept visible): for every well-formed schema and
   every such tree whose values are of their types and whose list entries have their keys, validation succeeds iff the
   explicit content satisfies every rule. It is FALSE: validation is incremental by design, lyd_validate_new() looks for
   duplicates only among nodes flagged LYD_NEW. *)
Definition C02_validate_iff_rfc : Prop := validate_iff_rfc_flags_statement.

(* Witness: list l {key k; leaf a}, entries k=1 and k=2 where entry 2 has two instances of a and NO node is flagged new:
   impl_validate = Ok although rfc_single fails (ValidP.w1_accepts / w1_invalid; with the flags set: EDup, w1_new_rejected).
   Until 06232b2 the public API built exactly this tree (lyd_unlink_tree + lyd_insert_sibling of a validated leaf, former
   finding moved-node-dup-unchecked); since then lyd_insert_* flag the inserted node, so that the statement remains a
   fact about un-flagged trees (which only code that manipulates the flags or the links itself can build) - the
   correspondence run checks on every edited tree that the verdict is the RFC verdict of the result. *)
Theorem C02_validate_iff_rfc_refuted : ~ C02_validate_iff_rfc.
Proof. exact validate_iff_rfc_flags_refuted. Qed.
Print Assumptions C02_validate_iff_rfc_refuted.

(* FRESH trees (what a parser hands over: every node new, none default, no empty non-presence container): parsing with
   validation succeeds iff the instance satisfies every modelled RFC rule. "partial": the fragment and fresh trees. *)
Theorem C02_validate_iff_rfc_partial :
  forall (ty : sid -> bytes -> bool) (vs : vschema) (f : forest),
    vschema_ok vs = true -> fresh vs f = true ->
    (impl_parse_validate vs ty f = VOk <-> rfc_valid ty vs f = true).
Proof. exact validate_iff_rfc. Qed.
Print Assumptions C02_validate_iff_rfc_partial.

(* HISTORIES: a tree whose un-flagged part was validated before - the nodes not flagged LYD_NEW are free of duplicates
   among themselves and lie in one case per choice, new data do not sit in another case than old data (no auto-deletion),
   no LYD_DEFAULT flags (hist_ok) - and whose flagged nodes are arbitrary (added by lyd_new_*, lyd_insert_*, changed, ...):
   lyd_validate_module succeeds iff the CONTENT satisfies every modelled rule; in particular a new node is checked for
   duplicates against ALL siblings, validated ones included. This closes the flag side of the gap to C02_validate_iff_rfc
   except for LYD_DEFAULT nodes and case replacement (where validation edits the tree). Fresh trees are the special case
   in which every node is flagged. *)
Theorem C02_history_iff_rfc_partial :
  forall ty vs (g : vforest),
    vschema_ok vs = true -> hist_ok vs g = true -> no_empty_np vs (map erase g) = true ->
    rfc_types ty vs (map erase g) = true -> rfc_keys vs (map erase g) = true ->
    (impl_validate vs g = VOk <-> rfc_valid ty vs (map erase g) = true).
Proof. exact history_iff_rfc. Qed.
Print Assumptions C02_history_iff_rfc_partial.

Theorem C02_history_error_sound :
  forall ty vs g e, vschema_ok vs = true -> hist_ok vs g = true ->
    rfc_types ty vs (map erase g) = true -> rfc_keys vs (map erase g) = true ->
    impl_validate vs g = VErr e -> class_ok ty vs (map erase g) e = false.
Proof. exact history_error_sound. Qed.
Print Assumptions C02_history_error_sound.

(* examples: a duplicate leaf / list entry added to a validated entry is rejected, a fresh entry accepted; the
   un-flagged duplicate of C02_validate_iff_rfc_refuted is outside hist_ok. A case that starts with implicit defaults
   and is selected by a later sibling has its constraints enforced. *)
Theorem C02_history_examples :
  (hist_ok w1_schema h1_dup_leaf = true /\ impl_validate w1_schema h1_dup_leaf = VErr EDup /\
   hist_ok w1_schema h1_dup_key = true /\ impl_validate w1_schema h1_dup_key = VErr EDup /\
   hist_ok w1_schema h1_fresh_entry = true /\ impl_validate w1_schema h1_fresh_entry = VOk /\
   hist_ok w1_schema w1_tree = false) /\
  (vschema_ok ld_schema = true /\
   impl_parse_validate ld_schema ty_any [DN 3%N [101%N] false [] []] = VErr ENoMand /\
   impl_parse_validate ld_schema ty_any [DN 3%N [101%N] false [] []; DN 4%N [109%N] false [] []] = VOk /\
   impl_parse_validate ld_schema ty_any [DN 4%N [109%N] false [] []; DN 5%N [97%N] false [] []; DN 5%N [98%N] false [] []] = VErr ENoMax /\
   impl_parse_validate ld_schema ty_any [DN 6%N [98%N] false [] []] = VOk).
Proof. exact (conj h1_facts ld_facts). Qed.
Print Assumptions C02_history_examples.

(* LYD_VALIDATE_MULTI_ERROR (impl_validate_multi: every "return on a validation error" of the modelled code replaced by
   "record it and go on", incl. the tree edits that follow): for EVERY tree and flag assignment the first error logged is
   the error of the run without the option; so the verdict does not depend on the option. *)
Theorem C02_multi_error_first :
  forall vs (g : vforest), first_err (impl_validate_multi vs g) = impl_validate vs g.
Proof. exact multi_first_error. Qed.
Print Assumptions C02_multi_error_first.

Theorem C02_multi_error_verdict :
  forall vs (g : vforest), impl_validate_multi vs g = [] <-> impl_validate vs g = VOk.
Proof. exact multi_verdict. Qed.
Print Assumptions C02_multi_error_verdict.

(* example: three violations are all logged, the first is the one the plain run reports; a valid instance logs none *)
Theorem C02_multi_error_example :
  impl_validate_multi ex_schema (map mark_new ex_three) = [EDupCase; ENoMax; ENoMand] /\
  impl_validate ex_schema (map mark_new ex_three) = VErr EDupCase /\
  impl_validate_multi ex_schema (map mark_new ex_tree) = [].
Proof. exact ex_multi. Qed.
Print Assumptions C02_multi_error_example.

(* TYPE PREDICATE identityref (one instance of the parameter type_ok): identityref_check_base with
   lyplg_type_identity_isderived accepts exactly the identities that are derived - transitively, not the base itself -
   from ALL the bases of the type (RFC 7950 9.10.2), for every set of base statements without a cycle (the compiler
   rejects cycles). *)
Theorem C02_identityref_all_bases :
  forall (E : idedges) (bases : list N) (ident : N), IdAcyclic E ->
    (idref_check E bases ident = true <-> forall b, In b bases -> DerivedFrom E b ident).
Proof. exact idref_check_iff. Qed.
Print Assumptions C02_identityref_all_bases.

Theorem C02_identityref_example :
  idref_check id_example [0; 1]%N 4%N = true /\ idref_check id_example [0; 1]%N 3%N = false /\
  idref_check id_example [0; 1]%N 9%N = true /\ idref_check id_example [0; 1; 2]%N 10%N = true /\
  idref_check id_example [0; 1; 2]%N 8%N = false /\ idref_check id_example [0%N] 0%N = false.
Proof. exact id_example_facts. Qed.
Print Assumptions C02_identityref_example.

(* Regression cases of two fixed findings, as facts about the model of the current code:
   unique "p/x", p a presence container, x with a default: two entries without p are valid and accepted (ba1198e), two
   entries with p are rejected with data-not-unique (the default is in use twice);
   a stale default of a nested default case no longer satisfies the outer mandatory choice (357db45). *)
Theorem C02_regressions :
  (vschema_ok w2_schema = true /\ fresh w2_schema w2_tree = true /\ rfc_valid ty_any w2_schema w2_tree = true /\
   impl_parse_validate w2_schema ty_any w2_tree = VOk /\
   rfc_valid ty_any w2_schema w2_tree_p = false /\ impl_parse_validate w2_schema ty_any w2_tree_p = VErr ENoUniq) /\
  (vschema_ok w3_schema = true /\
   impl_validate w3_schema w3_tree = VErr ENoMandChoice /\ rfc_valid ty_any w3_schema (explicit w3_tree) = false /\
   rfc_mand_choice w3_schema (explicit w3_tree) = false /\
   impl_parse_validate w3_schema ty_any (explicit w3_tree) = VErr ENoMandChoice).
Proof. exact (conj w2_facts w3_facts). Qed.
Print Assumptions C02_regressions.

(* An error of class e is only reported when the rule (group) of class e is violated ... *)
Theorem C02_error_sound :
  forall ty vs f e, vschema_ok vs = true -> fresh vs f = true ->
    impl_parse_validate vs ty f = VErr e -> class_ok ty vs f e = false.
Proof. exact error_sound. Qed.
Print Assumptions C02_error_sound.

(* ... and when exactly one rule class is violated, the reported class is that class; what is reported for it is
   (LY_EVALID, LYVE_DATA, the RFC 7950 section 15 error-app-tag of the class). *)
Theorem C02_error_class :
  forall ty vs f e, vschema_ok vs = true -> fresh vs f = true ->
    class_ok ty vs f e = false -> (forall e', e' <> e -> class_ok ty vs f e' = true) ->
    impl_parse_validate vs ty f = VErr e /\ report e = (7%N, 9%N, apptag e).
Proof. exact error_class_report. Qed.
Print Assumptions C02_error_class.

(* the app-tags: missing-choice, too-few-elements, too-many-elements, data-not-unique; none for the other classes *)
Theorem C02_apptags :
  apptag ENoMandChoice = [109;105;115;115;105;110;103;45;99;104;111;105;99;101]%N /\
  apptag ENoMin = [116;111;111;45;102;101;119;45;101;108;101;109;101;110;116;115]%N /\
  apptag ENoMax = [116;111;111;45;109;97;110;121;45;101;108;101;109;101;110;116;115]%N /\
  apptag ENoUniq = [100;97;116;97;45;110;111;116;45;117;110;105;113;117;101]%N /\
  apptag ENoMand = [] /\ apptag EDup = [] /\ apptag EDupCase = [] /\ apptag EKey = [] /\ apptag EType = [].
Proof. exact apptag_table. Qed.
Print Assumptions C02_apptags.

(* The RFC verdict does not depend on the order of siblings, at any level, for ANY tree and schema (user-ordered
   instances included: validity does not look at order) ... *)
Theorem C02_verdict_perm_invariant :
  forall ty vs f g, permt f g -> rfc_valid ty vs f = rfc_valid ty vs g.
Proof. exact rfc_valid_permt. Qed.
Print Assumptions C02_verdict_perm_invariant.

(* ... and neither does the implementation's verdict on fresh trees. *)
Theorem C02_impl_verdict_perm_invariant :
  forall ty vs f g, vschema_ok vs = true -> fresh vs f = true -> permt f g ->
    (impl_parse_validate vs ty f = VOk <-> impl_parse_validate vs ty g = VOk).
Proof. exact impl_verdict_permt. Qed.
Print Assumptions C02_impl_verdict_perm_invariant.

(* CONFIGURATION ONLY (LYD_VALIDATE_NO_STATE). cfg_view vs is the schema in which config false nodes carry no mandatory /
   min-elements / max-elements / unique constraint and no default (same schema tree, same kinds, keys and config flags:
   C02_config_view); rfc_valid_config ty vs f = the tree has no config false node (rfc_nostate) and is RFC-valid for
   cfg_view vs. impl_parse_validate_config is the as-coded run with the option: the parser and lyd_validate_new as
   before, lyd_validate_final_r with the per-node "state" check of every level before the schema checks of that level,
   the schema checks and lyd_new_implicit skipping config false schema nodes. For every schema whose configuration view
   is well formed and every fresh tree, the run succeeds iff the tree is a valid configuration. *)
Theorem C02_config_validate_iff_rfc_partial :
  forall ty vs f, vschema_ok (cfg_view vs) = true -> fresh vs f = true ->
    (impl_parse_validate_config vs ty f = VOk <-> rfc_valid_config ty vs f = true).
Proof. exact config_validate_iff_rfc. Qed.
Print Assumptions C02_config_validate_iff_rfc_partial.

(* the reported class is a violated one (EState: some node of the tree is config false) *)
Theorem C02_config_error_sound :
  forall ty vs f e, vschema_ok (cfg_view vs) = true -> fresh vs f = true ->
    impl_parse_validate_config vs ty f = VErr e -> class_ok_config ty vs f e = false.
Proof. exact config_error_sound. Qed.
Print Assumptions C02_config_error_sound.

(* and when exactly one class is violated, that class is reported: a config false node in an otherwise valid
   configuration is reported as "state" *)
Theorem C02_config_error_class :
  forall ty vs f e, vschema_ok (cfg_view vs) = true -> fresh vs f = true ->
    class_ok_config ty vs f e = false -> (forall e', e' <> e -> class_ok_config ty vs f e' = true) ->
    impl_parse_validate_config vs ty f = VErr e.
Proof. exact config_error_class. Qed.
Print Assumptions C02_config_error_class.

(* what the configuration view keeps and what it drops *)
Theorem C02_config_view :
  forall vs s, (info (cfg_view vs) s = neut (info vs s)) /\ (kind (cfg_view vs) s = kind vs s) /\
    (si_config (info (cfg_view vs) s) = si_config (info vs s)) /\ (vs_tree (cfg_view vs) = vs_tree vs) /\
    (forall f, rfc_nostate (cfg_view vs) f = rfc_nostate vs f).
Proof.
  exact (fun vs s => conj (info_cfg_view vs s) (conj (kind_cfg_view vs s) (conj (config_cfg_view vs s)
           (conj eq_refl (nostate_cfg_view vs))))).
Qed.
Print Assumptions C02_config_view.

(* container c { presence; leaf a; leaf st { config false; mandatory true; } list sl { config false; min-elements 1; } }:
   the configuration alone is accepted with the option (and rejected without it: the mandatory state leaf is missing);
   configuration + state is valid without the option and rejected with it (EState) *)
Theorem C02_config_example :
  vschema_ok (cfg_view ns_schema) = true /\ cfg_ready ns_schema = true /\
  impl_parse_validate_config ns_schema ty_any ns_cfg = VOk /\ rfc_valid_config ty_any ns_schema ns_cfg = true /\
  impl_parse_validate ns_schema ty_any ns_cfg = VErr ENoMand /\
  impl_parse_validate ns_schema ty_any ns_full = VOk /\
  impl_parse_validate_config ns_schema ty_any ns_full = VErr EState /\ rfc_valid_config ty_any ns_schema ns_full = false.
Proof. exact ns_facts. Qed.
Print Assumptions C02_config_example.

(* The hypotheses are satisfiable by a schema with every modelled construct (mandatory leaf in a non-presence
   container, mandatory choice, list with key, unique with a default, min/max-elements, leaf-list) and a valid instance;
   one mutation per class yields that class. *)
Example C02_example :
  vschema_ok ex_schema = true /\ fresh ex_schema ex_tree = true /\
  rfc_valid ty_any ex_schema ex_tree = true /\ impl_parse_validate ex_schema ty_any ex_tree = VOk /\
  impl_parse_validate ex_schema ty_any ex_no_mand = VErr ENoMand /\
  impl_parse_validate ex_schema ty_any ex_no_choice = VErr ENoMandChoice /\
  impl_parse_validate ex_schema ty_any ex_two_cases = VErr EDupCase /\
  impl_parse_validate ex_schema ty_any ex_too_few = VErr ENoMin /\
  impl_parse_validate ex_schema ty_any ex_too_many = VErr ENoMax /\
  impl_parse_validate ex_schema ty_any ex_not_unique = VErr ENoUniq /\
  impl_parse_validate ex_schema ty_any ex_dup_key = VErr EDup.
Proof. exact ex_facts. Qed.
