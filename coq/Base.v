(* Base.v — shared definitions for the libyang models.
   Bytes are [N] values below 256; byte strings are [list N]. *)
From Coq Require Export List NArith ZArith Bool Lia.
From Coq Require Import ZifyBool ZifyNat ZifyN.
Export ListNotations.
Local Open Scope N_scope.

Definition byte := N.
Definition bytes := list N.

Definition byte_ok (b : N) : bool := b <? 256.
Definition bytes_ok (s : bytes) : bool := forallb byte_ok s.

(* Result of a model function: value, error (with a small error class) *)
Inductive res (A : Type) : Type :=
| Ok (a : A)
| Err (e : N).
Arguments Ok {A} a.
Arguments Err {A} e.

Definition is_ok {A} (r : res A) : bool := match r with Ok _ => true | Err _ => false end.

Definition bind {A B} (r : res A) (f : A -> res B) : res B :=
  match r with Ok a => f a | Err e => Err e end.

(* prefix test *)
Fixpoint starts_with (p s : bytes) : bool :=
  match p, s with
  | [], _ => true
  | x :: p', y :: s' => (x =? y) && starts_with p' s'
  | _ :: _, [] => false
  end.

Lemma starts_with_app p r : starts_with p (p ++ r) = true.
Proof. induction p as [|x p IH]; cbn; [reflexivity|]. rewrite N.eqb_refl, IH. reflexivity. Qed.

Lemma starts_with_spec p s : starts_with p s = true -> exists r, s = p ++ r.
Proof.
  revert s; induction p as [|x p IH]; intros s H; cbn in *.
  - exists s; reflexivity.
  - destruct s as [|y s]; [discriminate|].
    apply andb_true_iff in H. destruct H as [Hxy H].
    apply N.eqb_eq in Hxy. subst y.
    destruct (IH _ H) as [r ->]. exists r. reflexivity.
Qed.

Definition is_digit (b : N) : bool := (48 <=? b) && (b <=? 57).
Definition is_xdigit (b : N) : bool :=
  is_digit b || ((65 <=? b) && (b <=? 70)) || ((97 <=? b) && (b <=? 102)).
Definition is_xmlws (b : N) : bool := (b =? 32) || (b =? 9) || (b =? 10) || (b =? 13).

(* list equality on N lists *)
Fixpoint beq_bytes (a b : bytes) : bool :=
  match a, b with
  | [], [] => true
  | x :: a', y :: b' => (x =? y) && beq_bytes a' b'
  | _, _ => false
  end.

Lemma beq_bytes_eq a b : beq_bytes a b = true <-> a = b.
Proof.
  revert b; induction a as [|x a IH]; destruct b as [|y b]; cbn; split; intro H;
    try reflexivity; try discriminate.
  - apply andb_true_iff in H. destruct H as [H1 H2]. apply N.eqb_eq in H1. apply IH in H2. congruence.
  - inversion H; subst. rewrite N.eqb_refl. cbn. apply IH. reflexivity.
Qed.

(* lexicographic comparison of byte strings (strcmp on unsigned bytes) *)
Fixpoint cmp_bytes (a b : bytes) : comparison :=
  match a, b with
  | [], [] => Eq
  | [], _ :: _ => Lt
  | _ :: _, [] => Gt
  | x :: a', y :: b' =>
      match x ?= y with
      | Eq => cmp_bytes a' b'
      | c => c
      end
  end.

(* decimal rendering of a natural number (most significant digit first), fuelled by the
   number of bits which always suffices *)
Fixpoint N_digits_fuel (fuel : nat) (n : N) (acc : bytes) : bytes :=
  match fuel with
  | O => acc
  | S f =>
      let d := 48 + n mod 10 in
      let q := n / 10 in
      if q =? 0 then d :: acc else N_digits_fuel f q (d :: acc)
  end.
Definition N_to_dec (n : N) : bytes := N_digits_fuel (S (N.to_nat (N.size n))) n [].

Fixpoint dec_to_N_acc (s : bytes) (acc : N) : N :=
  match s with
  | [] => acc
  | d :: s' => dec_to_N_acc s' (10 * acc + (d - 48))
  end.
Definition dec_to_N (s : bytes) : N := dec_to_N_acc s 0.

(* exhaustive check of a boolean predicate on 0 .. n-1, usable with vm_compute *)
Definition N_all_below (n : N) (f : N -> bool) : bool :=
  snd (N.iter n (fun st : N * bool => (N.succ (fst st), snd st && f (fst st))) (0, true)).

Lemma N_all_below_spec n f : N_all_below n f = true -> forall i, i < n -> f i = true.
Proof.
  unfold N_all_below.
  pose (P := fun (k : N) (st : N * bool) =>
               fst st = k /\ (snd st = true -> forall i, i < k -> f i = true)).
  assert (H : P n (N.iter n (fun st : N * bool => (N.succ (fst st), snd st && f (fst st))) (0, true))).
  { apply N.iter_ind; unfold P; cbn.
    - split; [reflexivity|]. intros _ i Hi. lia.
    - intros k [i ok] [Hk Hok]. cbn in *. subst i. split; [reflexivity|].
      intros Hand i Hi. apply andb_true_iff in Hand. destruct Hand as [H1 H2].
      destruct (N.eq_dec i k) as [->|Hne]; [exact H2|].
      apply Hok; [exact H1|lia]. }
  destruct H as [_ H]. exact H.
Qed.
