(* HashFn.v - model of lyht_hash_multi() / lyht_hash() of src/hash_table.c (lines 29-56):
   Bob Jenkins' one-at-a-time hash on uint32_t.

   C detail that matters: [hash += key_part[i]] adds a plain [char].  On the platforms the checks run
   on (x86-64, gcc/clang) char is signed, so a byte >= 0x80 is sign-extended to int and then
   converted to uint32_t, i.e. 2^32 - (256 - b) is added.  (On targets with unsigned char the hash
   of non-ASCII strings differs; LYB hashes are therefore not portable between such targets.) *)
From LY Require Import Base.
Local Open Scope N_scope.

Definition U32 : N := 4294967296.

(* value added for byte b: (uint32_t)(int)(signed char)b *)
Definition schar32 (b : N) : N := if b <? 128 then b else b + (U32 - 256).

(* one round of the for loop (hash_table.c:36-38) *)
Definition hash_step (h b : N) : N :=
  let h1 := (h + schar32 b) mod U32 in
  let h2 := (h1 + N.shiftl h1 10) mod U32 in
  N.lxor h2 (N.shiftr h2 6).

(* the else branch: finalisation (hash_table.c:41-43) *)
Definition hash_fin (h : N) : N :=
  let h1 := (h + N.shiftl h 3) mod U32 in
  let h2 := N.lxor h1 (N.shiftr h1 11) in
  (h2 + N.shiftl h2 15) mod U32.

(* lyht_hash_multi(hash, key_part, len): [None] is key_part == NULL.  Note the condition is
   [key_part && len]: a non-NULL key of length 0 also takes the finalisation branch. *)
Definition lyht_hash_multi (h : N) (key : option bytes) : N :=
  match key with
  | Some (b :: s) => fold_left hash_step (b :: s) h
  | _ => hash_fin h
  end.

(* lyht_hash(key, len) *)
Definition lyht_hash (key : bytes) : N :=
  lyht_hash_multi (lyht_hash_multi 0 (Some key)) None.
