(* Extract_yangstr.v - extraction of the yangstr slice (YangStr) to OCaml; see Extract_xml.v. *)
From Coq Require Extraction ExtrOcamlBasic.
From Coq Require Import NArith ZArith.
From LY Require Import YangStr.
Extraction Language OCaml.
Extraction "model_yangstr.ml"
  N.add N.mul N.div N.modulo N.sub Z.add Z.mul Z.opp Z.of_N Z.abs_N Z.sub Z.ltb
  YangStr.qstring YangStr.qstring_noreset.
