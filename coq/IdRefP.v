(* IdRefP.v — proofs about IdRef.v. *)
From LY Require Import Base TypesMisc TypesMore TypesMoreP IdRef.
From Coq Require Import ZifyBool ZifyNat ZifyN.
Local Open Scope N_scope.

Lemma ident_eqb_eq a b : ident_eqb a b = true <-> a = b.
Proof.
  unfold ident_eqb. rewrite andb_true_iff, !beq_bytes_eq. destruct a, b; cbn [fst snd]. split; [intros [-> ->]; reflexivity|].
  intro H. inversion H. auto.
Qed.

(* the search finds exactly the identities derived through a chain of at most [fuel] base statements *)
Theorem isderived_iff fuel g : forall base der,
  isderived fuel g base der = true <-> exists n, (1 <= n <= fuel)%nat /\ derives_n g n base der.
Proof.
  induction fuel as [|f IH]; intros base der; cbn [isderived].
  - split; [discriminate|]. intros [n [Hn _]]. lia.
  - rewrite existsb_exists. split.
    + intros [d [Hin Hd]]. apply orb_true_iff in Hd. destruct Hd as [Hd|Hd].
      * apply ident_eqb_eq in Hd. subst d. exists 1%nat. split; [split; lia|]. constructor. exact Hin.
      * apply IH in Hd. destruct Hd as [n [[Hn1 Hn2] Hdn]]. exists (S n). split; [split; lia|]. econstructor 2; eassumption.
    + intros [n [[Hn1 Hn2] Hdn]]. inversion Hdn as [b d Hin|m b mid d Hin Hrest]; subst.
      * exists der. split; [exact Hin|]. apply orb_true_iff. left. apply ident_eqb_eq. reflexivity.
      * exists mid. split; [exact Hin|]. apply orb_true_iff. right. apply IH. exists m. split; [split; [inversion Hrest; lia|lia]|exact Hrest].
Qed.

Lemma split_colon_app p r : forallb (fun c => negb (c =? 58)) p = true -> split_colon (p ++ 58 :: r) = (p, Some r).
Proof.
  induction p as [|c p IH]; cbn [app split_colon forallb]; intro H.
  - reflexivity.
  - apply andb_true_iff in H. destruct H as [Hc Hp]. apply negb_true_iff in Hc. rewrite Hc, (IH Hp). reflexivity.
Qed.

Lemma idref_split_app p r : forallb (fun c => negb (c =? 58)) p = true -> idref_split (p ++ 58 :: r) = (p, r).
Proof. intro H. unfold idref_split. rewrite (split_colon_app p r H). reflexivity. Qed.

(* what an accepted value is: the identity exists in the addressed module and is derived from every base *)
Theorem idref_store_sound fuel sch ctxmod bases s i :
  idref_store fuel sch ctxmod bases s = Ok i ->
  (exists ids, find_module (ids_modules sch) (fst i) = Some ids /\ existsb (beq_bytes (snd i)) ids = true) /\
  forall b, In b bases -> isderived fuel (ids_derived sch) b i = true.
Proof.
  unfold idref_store, idref_store_gen. intro H. cbn zeta in H.
  destruct (idref_split s) as [pfx id]. cbn [fst snd] in H.
  destruct id as [|c id]; [discriminate H|].
  set (modname := match pfx with [] => ctxmod | _ :: _ => pfx end) in *.
  destruct (find_module (ids_modules sch) modname) as [ids|] eqn:Hm; [|discriminate H].
  destruct (existsb (beq_bytes (c :: id)) ids) eqn:He; [|discriminate H].
  cbn zeta in H.
  match type of H with (if ?X then _ else _) = _ => destruct X eqn:Hf end; [|discriminate H].
  inversion H; subst i. cbn [fst snd]. split; [exists ids; split; assumption|].
  intros b Hb. rewrite forallb_forall in Hf. exact (Hf b Hb).
Qed.

(* the canonical string of an accepted value is accepted and gives the same identity (module and identity names are
   identifiers: not empty, no colon) *)
Theorem idref_canon_idempotent fuel sch ctxmod bases s i :
  no_colon (fst i) -> snd i <> [] ->
  idref_store fuel sch ctxmod bases s = Ok i -> idref_store fuel sch ctxmod bases (idref_canon i) = Ok i.
Proof.
  intros [Hne Hnc] Hid H. destruct (idref_store_sound _ _ _ _ _ _ H) as [[ids [Hm He]] Hb].
  assert (Esp : idref_split (idref_canon i) = (fst i, snd i))
    by exact (idref_split_app (fst i) (snd i) Hnc).
  unfold idref_store, idref_store_gen. cbn zeta. rewrite Esp.
  destruct i as [m n]. cbn [fst snd] in *. destruct n as [|c n]; [congruence|]. destruct m as [|c0 m]; [congruence|].
  rewrite Hm, He.
  match goal with |- (if ?X then _ else _) = _ => assert (HX : X = true) by (apply forallb_forall; exact Hb); rewrite HX end.
  reflexivity.
Qed.

Lemma app_colon_inj a b c d :
  forallb (fun x => negb (x =? 58)) a = true -> forallb (fun x => negb (x =? 58)) c = true ->
  a ++ 58 :: b = c ++ 58 :: d -> a = c /\ b = d.
Proof.
  intros Ha Hc E. pose proof (split_colon_app a b Ha) as E1. rewrite E, (split_colon_app c d Hc) in E1. inversion E1. auto.
Qed.

(* two identities are the same exactly when their canonical strings are equal *)
Theorem idref_eq_iff_canon a b :
  no_colon (fst a) -> no_colon (fst b) -> (idref_compare a b = true <-> idref_canon a = idref_canon b).
Proof.
  intros [_ Ha] [_ Hb]. unfold idref_compare, idref_canon. rewrite ident_eqb_eq. split; [intros ->; reflexivity|].
  intro E. destruct (app_colon_inj _ _ _ _ Ha Hb E) as [E1 E2]. destruct a, b; cbn [fst snd] in *. congruence.
Qed.

(* the sort callback looks at the identity name only: a strict total order consistent with the compare callback among
   identities with pairwise different names (e.g. of one module); across modules it is not (idref_sort_refuted) *)
Theorem idref_sort_total_order :
  (forall a, idref_sort a a = Eq) /\
  (forall a b, fst a = fst b -> (idref_sort a b = Eq <-> idref_compare a b = true)) /\
  (forall a b, idref_sort a b = CompOpp (idref_sort b a)) /\
  (forall a b c, idref_sort a b = Lt -> idref_sort b c = Lt -> idref_sort a c = Lt).
Proof.
  unfold idref_sort, idref_compare. split; [|split; [|split]].
  - intro a. apply cmp_bytes_refl.
  - intros a b Hm. rewrite cmp_bytes_eq, ident_eqb_eq. destruct a, b; cbn [fst snd] in *. subst. split; congruence.
  - intros a b. apply cmp_bytes_antisym.
  - intros a b c. apply cmp_bytes_trans.
Qed.

Lemma idref_sort_refuted :
  exists a b, idref_sort a b = Eq /\ idref_compare a b = false /\ idref_canon a <> idref_canon b.
Proof. exists ([109], [120]), ([110], [120]). repeat split; vm_compute; discriminate || reflexivity. Qed.

(* the identities of the test module types2: ba, bb; iab {base ba; base bb;}; ia {base ba;}; ib {base bb;}; iab2 {base iab;} *)
Definition T2M : bytes := [116;121;112;101;115;50].
Definition idn (s : bytes) : ident := (T2M, s).
Definition n_ba := [98;97]. Definition n_bb := [98;98]. Definition n_iab := [105;97;98]. Definition n_ia := [105;97].
Definition n_ib := [105;98]. Definition n_iab2 := [105;97;98;50].
Definition types2_schema : idschema :=
  {| ids_modules := [(T2M, [n_ba; n_bb; n_iab; n_ia; n_ib; n_iab2])];
     ids_derived := [(idn n_ba, [idn n_iab; idn n_ia]); (idn n_bb, [idn n_iab; idn n_ib]); (idn n_iab, [idn n_iab2])] |}.
Definition types2_bases : list ident := [idn n_ba; idn n_bb].

(* regression of the fixed defect idref-any-base (f805b4f; seeded change C02-7): ia is derived from ba only. The code rejects
   it for the type with the bases ba and bb, the any-base variant accepts it; iab and iab2 are accepted by both *)
Lemma idref_any_base_regression :
  idref_store 8 types2_schema T2M types2_bases n_ia = Err E_VALID /\
  idref_store_any_base 8 types2_schema T2M types2_bases n_ia = Ok (idn n_ia) /\
  idref_store 8 types2_schema T2M types2_bases n_iab = Ok (idn n_iab) /\
  idref_store 8 types2_schema T2M types2_bases (T2M ++ 58 :: n_iab2) = Ok (idn n_iab2) /\
  idref_canon (idn n_iab2) = T2M ++ 58 :: n_iab2.
Proof. repeat split; vm_compute; reflexivity. Qed.

(* known finding idref-empty-prefix: the value ":iab" (empty prefix) is accepted as the identity iab of the leaf's module,
   although it is not of the form [identifier ":"] identifier; its canonical string differs from it *)
Lemma idref_empty_prefix_refuted :
  idref_store 8 types2_schema T2M types2_bases (58 :: n_iab) = Ok (idn n_iab) /\
  ~ no_colon (fst (idref_split (58 :: n_iab))) /\ idref_canon (idn n_iab) <> 58 :: n_iab.
Proof.
  split; [vm_compute; reflexivity|]. split; [|vm_compute; discriminate]. intros [H _]. apply H. reflexivity.
Qed.
