(* XmlText.v — model of lyxml_dump_text() (printer side) and lyxml_parse_value()
   (parser side) of src/xml.c. *)
From LY Require Import Base Utf8.
From LY.Gen Require Consts.
Local Open Scope N_scope.

(* ---------- printer: lyxml_dump_text(out, text, attribute) ----------
   The switch of the C function is scraped from the source on every run (Gen/Consts.v, tie T1):
   a byte with an entry is replaced (entries flagged attribute-only apply when [attr]), every
   other byte is written unchanged. Present table (pinned by XmlTextP.xml_esc_table_expected):
   ampersand, less-than, greater-than -> predefined entities; CR -> &#xD; (since 6fdbff2);
   only in attribute values: TAB -> &#x9;, LF -> &#xA; (since 47fa563), double quote -> &quot;. *)
Fixpoint esc_lookup (t : list (N * bool * bytes)) (attr : bool) (b : N) : bytes :=
  match t with
  | [] => [b]
  | (c, only_attr, r) :: t' =>
      if c =? b then (if only_attr && negb attr then [b] else r) else esc_lookup t' attr b
  end.
Definition xml_esc_byte (attr : bool) (b : N) : bytes := esc_lookup Consts.xml_esc_table attr b.
Definition xml_esc (attr : bool) (s : bytes) : bytes := flat_map (xml_esc_byte attr) s.

(* ---------- parser: lyxml_parse_value(xmlctx, endchar, ...) ---------- *)
Definition E_EOF : N := 1.        (* LY_VCODE_EOF *)
Definition E_ENTITY : N := 2.     (* entity reference not supported *)
Definition E_CHARREF : N := 3.    (* invalid character reference *)
Definition E_EXPSEMI : N := 4.    (* ';' expected *)
Definition E_CHARVAL : N := 5.    (* ly_pututf8 rejected the referenced character *)
Definition E_CDATA : N := 6.      (* CDATA not terminated *)
Definition E_INCHAR : N := 7.     (* ly_getutf8 rejected a raw character *)
Definition E_FUEL : N := 99.      (* model artefact; excluded by xml_value_fuel_ok *)

Definition U32 : N := 4294967296.

(* decimal digits: n = 10*n + d (uint32 wrap), returns value and the rest *)
Fixpoint scan_dec (s : bytes) (n : N) : N * bytes :=
  match s with
  | d :: s' => if is_digit d then scan_dec s' ((10 * n + (d - 48)) mod U32) else (n, s)
  | [] => (n, s)
  end.
Definition hexval (d : N) : N :=
  if is_digit d then d - 48 else if 70 <? d then 10 + (d - 97) else 10 + (d - 65).
Fixpoint scan_hex (s : bytes) (n : N) : N * bytes :=
  match s with
  | d :: s' => if is_xdigit d then scan_hex s' ((16 * n + hexval d) mod U32) else (n, s)
  | [] => (n, s)
  end.

(* strstr(in, "]]>"): bytes before the first "]]>" and the bytes after it *)
Fixpoint find_cdata_end (s : bytes) (acc : bytes) : option (bytes * bytes) :=
  match s with
  | [] => None
  | c :: s' => if starts_with [93;93;62] s then Some (rev acc, skipn 2 s') else find_cdata_end s' (c :: acc)
  end.

Definition cdata_hdr : bytes := [60;33;91;67;68;65;84;65;91].    (* <![CDATA[ *)

Fixpoint xml_value_f (fuel : nat) (endc : N) (s : bytes) (acc : bytes) (ws : bool)
  : res (bytes * bytes * bool) :=
  match fuel with
  | O => Err E_FUEL
  | S f =>
    match s with
    | [] => Err E_EOF
    | c :: s' =>
      if c =? 38 then                                           (* '&' *)
        match s' with
        | 35 :: s2 =>                                           (* "&#" character reference *)
          let d := rd0 s2 0 in
          if is_digit d then
            let '(n, r) := scan_dec s2 0 in
            match r with
            | 59 :: r' =>
                match pututf8 n with
                | Some bs => xml_value_f f endc r' (acc ++ bs) false
                | None => Err E_CHARVAL
                end
            | _ => Err E_EXPSEMI
            end
          else if (d =? 120) && is_xdigit (rd0 s2 1) then
            let '(n, r) := scan_hex (skipn 1 s2) 0 in
            match r with
            | 59 :: r' =>
                match pututf8 n with
                | Some bs => xml_value_f f endc r' (acc ++ bs) false
                | None => Err E_CHARVAL
                end
            | _ => Err E_EXPSEMI
            end
          else Err E_CHARREF
        | _ =>
          if starts_with [108;116;59] s' then xml_value_f f endc (skipn 3 s') (acc ++ [60]) false
          else if starts_with [103;116;59] s' then xml_value_f f endc (skipn 3 s') (acc ++ [62]) false
          else if starts_with [97;109;112;59] s' then xml_value_f f endc (skipn 4 s') (acc ++ [38]) false
          else if starts_with [97;112;111;115;59] s' then xml_value_f f endc (skipn 5 s') (acc ++ [39]) false
          else if starts_with [113;117;111;116;59] s' then xml_value_f f endc (skipn 5 s') (acc ++ [34]) false
          else Err E_ENTITY
        end
      else if starts_with cdata_hdr s then
        match find_cdata_end (skipn 9 s) [] with
        | None => Err E_CDATA
        | Some (body, r) => xml_value_f f endc r (acc ++ body) (ws && forallb is_xmlws body)
        end
      else if c =? endc then Ok (acc, s, ws)
      else
        match getutf8 s with
        | None => Err E_INCHAR
        | Some (_, u) => xml_value_f f endc (skipn u s) (acc ++ firstn u s) (ws && is_xmlws c)
        end
    end
  end.

Definition xml_value (endc : N) (s : bytes) : res (bytes * bytes * bool) :=
  xml_value_f (S (length s)) endc s [] true.
