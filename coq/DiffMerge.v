(* DiffMerge.v -- model of lyd_diff_merge_all() (src/diff.c) on the diff trees of DiffTree.v, non-user-ordered
   fragment.  MODEL ONLY (lemmas: DiffMergeP.v).

   lyd_diff_merge_all(&diff, src_diff, options) -> [merge]: every root of src_diff goes through lyd_diff_merge_r():
     - the effective operation of the source node (lyd_diff_get_op), the equal node among the children of the current
       diff parent (lyd_diff_find_match);
     - found: the cell of the table (previous operation x new operation): lyd_diff_merge_none / _replace / _create /
       _delete, then the source children are merged into the found node;
     - not found: the source subtree is duplicated into the diff parent (LYD_INSERT_NODE_LAST_BY_SCHEMA) and gets the
       source operation explicitly;
     - finally lyd_diff_is_redundant() decides whether the node is freed.
   The diff tree is a data tree: lyd_change_term() on a default leaf, lyd_insert_node() of a node without the default
   flag, lyd_free_tree() and (since 2dd55cd) lyd_diff_merge_dflt_flag() run the lyd_np_cont_dflt_del()/_set() walks over the
   diff parents; they are modelled with the requests of DiffTree.v because the default flag of a created container is
   what lyd_diff_apply_r() copies. *)
From LY Require Import Base Tree DiffTree.
Local Open Scope N_scope.

Definition dd_is_term (sch : schema) (d : dd) : bool := is_term sch (dd_sid d).

(* LYD_INSERT_NODE_LAST_BY_SCHEMA among diff siblings *)
Fixpoint dd_ins_last (l : list dd) (n : dd) : list dd :=
  match l with
  | [] => [n]
  | b :: r => if dd_sid n <? dd_sid b then n :: b :: r else b :: dd_ins_last r n
  end.

(* lyd_diff_change_op(child, op) on every child after the leading keys *)
Fixpoint set_ops_nokeys (sch : schema) (lead : bool) (l : list dd) (f : dd -> dd) : list dd :=
  match l with
  | [] => []
  | c :: r =>
      if lead && is_key sch (dd_sid c) then c :: set_ops_nokeys sch true r f
      else f c :: set_ops_nokeys sch false r f
  end.

(* lyd_diff_merge_dflt_flag(node, flag) (since 2dd55cd): the default flag of a term diff node and the
   lyd_np_cont_dflt_set() / _del() walk over its diff parents; [oth] = the other siblings of the node all carry the flag *)
Definition dd_merge_dflt_flag (t : dd) (f : bool) (oth : bool) : dd * list sig :=
  (dd_set_dflt t f, [if f then SSet oth else SDel]).

(* lyd_diff_merge_none() *)
Definition merge_none (sch : schema) (cur : dop) (oth : bool) (t src : dd) : res (dd * list sig) :=
  match cur with
  | OpDelete => Err e_inval
  | _ => Ok (if dd_is_term sch src then dd_merge_dflt_flag t (dd_dflt src) oth else (t, []))
  end.

(* lyd_change_term(node, value) on a diff leaf whose value differs: the value, an explicit node afterwards, and the
   lyd_np_cont_dflt_del() request for the diff parent when the flag was set *)
Definition dd_change_term (t : dd) (v : bytes) : dd * list sig :=
  (dd_set_dflt (dd_set_val t v) false, if dd_dflt t then [SDel] else []).

(* lyd_diff_merge_replace() *)
Definition merge_replace (sch : schema) (cur : dop) (oth : bool) (t src : dd) : res (dd * list sig) :=
  match cur with
  | OpReplace | OpCreate =>
      match kind_of sch (dd_sid t) with
      | KLeaf =>
          if beq_bytes (dd_val t) (dd_val src) then Err e_inval          (* replaced with the exact same value *)
          else
            let '(t1, sg) := dd_change_term t (dd_val src) in
            match cur with
            | OpReplace =>
                match dd_oval t1 with
                | None => Err e_inval
                | Some ov =>
                    let t2 := if beq_bytes ov (dd_val src) then dd_set_op (dd_set_oval t1 None) (Some OpNone) else t1 in
                    let '(t3, sg') := dd_merge_dflt_flag t2 (dd_dflt src) oth in
                    Ok (t3, sg ++ sg')
                end
            | _ => let '(t3, sg') := dd_merge_dflt_flag t1 (dd_dflt src) oth in Ok (t3, sg ++ sg')
            end
      | KList | KLeafList | KAny => Err e_unsupported
      | KCont _ => Err e_int
      end
  | OpNone =>
      match kind_of sch (dd_sid t) with
      | KLeaf =>
          (* only the default flag had changed, now the value as well; no orig-value is added *)
          if beq_bytes (dd_val t) (dd_val src) then Err e_int
          else let '(t1, sg) := dd_change_term t (dd_val src) in Ok (dd_set_op t1 (Some OpReplace), sg)
      | KList => Err e_unsupported
      | _ => Err e_int
      end
  | OpDelete => Err e_inval
  end.

(* lyd_diff_merge_create(); [mdflt] = LYD_DIFF_MERGE_DEFAULTS *)
Definition merge_create (sch : schema) (mdflt : bool) (cur : dop) (t src : dd) : res (dd * list sig) :=
  match cur with
  | OpDelete =>
      let trg_flags := dd_dflt t in
      let '(t1, sg) :=
        match kind_of sch (dd_sid src) with
        | KLeaf =>
            let is_schema_dflt :=
              mdflt && match si_dflts (sget sch (dd_sid src)) with
                       | dv :: _ => beq_bytes dv (dd_val src)
                       | [] => false
                       end in
            if is_schema_dflt then (dd_set_op t (Some OpNone), [])
            else if beq_bytes (dd_val t) (dd_val src) then (dd_set_op t (Some OpNone), [])
            else
              let '(t', sg') := dd_change_term (dd_set_oval (dd_set_op t (Some OpReplace)) (Some (dd_val t))) (dd_val src) in
              (t', sg')
        | _ => (dd_set_op t (Some OpNone), [])
        end in
      let t2 := if dd_is_term sch t1 then dd_set_dflt (dd_set_odflt t1 (Some trg_flags)) (dd_dflt src) else t1 in
      (* the operation of its children should remain delete *)
      Ok (dd_set_ch t2 (set_ops_nokeys sch true (dd_ch t2) (fun c => dd_set_op c (Some OpDelete))), sg)
  | _ => Err e_inval
  end.

(* lyd_diff_merge_delete() *)
Definition merge_delete (sch : schema) (cur : dop) (t src : dd) : res (dd * list sig) :=
  if dd_is_term sch t && negb (beq_bytes (dd_val t) (dd_val src)) then Err e_int   (* lyd_compare_single() *)
  else
    let r :=
      match cur with
      | OpCreate =>
          Ok (if dd_is_term sch t then dd_set_odflt (dd_set_op t (Some OpNone)) (Some (dd_dflt src))
              else dd_set_op t (Some OpNone), [])
      | OpReplace =>
          match kind_of sch (dd_sid t) with
          | KLeaf =>
              match dd_oval t with
              | None => Err e_inval
              | Some ov =>
                  if beq_bytes ov (dd_val t) then Err e_inval
                  else
                    let '(t1, sg) := dd_change_term t ov in
                    match dd_odflt t1 with
                    | None => Err e_inval
                    | Some b => Ok (dd_set_op (dd_set_oval (dd_set_odflt (dd_set_dflt t1 b) None) None) (Some OpDelete), sg)
                    end
              end
          | _ => Err e_unsupported
          end
      | OpNone => Ok (dd_set_op t (Some OpDelete), [])
      | OpDelete => Err e_inval
      end in
    match r with
    | Err e => Err e
    | Ok (t1, sg) =>
        (* keep the operation for the descendants without one that are yet to be merged *)
        let keep (c : dd) :=
          match dd_op c with
          | Some _ => c
          | None =>
              match dd_match_idx sch (dd_ch src) (dd_id sch c) with
              | Some _ => dd_set_op c (Some cur)
              | None => c
              end
          end in
        Ok (dd_set_ch t1 (set_ops_nokeys sch true (dd_ch t1) keep), sg)
    end.

(* lyd_diff_is_redundant(); [e] = the effective operation.  A none on a leaf / leaf-list without yang:orig-default
   dereferences a null pointer in the C code (the assert is compiled out): [Err e_int] stands for that. *)
Definition is_redundant (sch : schema) (e : option dop) (d : dd) : res bool :=
  match e with
  | None => Ok false
  | Some OpNone =>
      if dd_is_term sch d then
        match dd_odflt d with
        | None => Err e_int
        | Some od => Ok (Bool.eqb od (dd_dflt d))
        end
      else Ok (negb (has_nokey_child sch (dd_ch d)))
  | Some _ => Ok false
  end.

Section MergeChildren.
  Variable sch : schema.
  Variable step : dd -> list dd -> res (list dd * list sig).
  Variable np : bool.
  Variable oup : bool.
  (* LY_LIST_FOR(lyd_child_no_keys(src_diff), child) lyd_diff_merge_r(child, diff_parent, ..) *)
  Fixpoint merge_children (lead : bool) (l : list dd) (cur : list dd) (fl : bool) (up : list sig)
    : res (list dd * bool * list sig) :=
    match l with
    | [] => Ok (cur, fl, up)
    | c :: l' =>
        if lead && is_key sch (dd_sid c) then merge_children true l' cur fl up
        else
          match step c cur with
          | Err e => Err e
          | Ok (cur', sg) =>
              let '(fl', ups) := walks np fl oup sg in
              merge_children false l' cur' fl' (up ++ ups)
          end
    end.
End MergeChildren.

(* lyd_diff_merge_r(src_diff, diff_parent, ..): [ts] = the children of diff_parent (the top-level diff when there is
   none), [inh_s] / [inh_t] = the operations inherited from the source / target ancestors.  Result: the new children
   and the default-flag requests for diff_parent *)
Fixpoint merge_r (sch : schema) (mdflt : bool) (inh_s : option dop) (src : dd) (inh_t : option dop) (ts : list dd)
  {struct src} : res (list dd * list sig) :=
  match src with
  | DD s v f op od ov ch =>
      if userordered sch s then Err e_unsupported
      else
      match eff_op inh_s op with
      | None => Err e_int
      | Some sop =>
          match dd_match_idx sch ts (dd_id sch src) with
          | Some i =>
              let t := nth i ts src in
              match eff_op inh_t (dd_op t) with
              | None => Err e_int
              | Some cur =>
                  let cell :=
                    match sop with
                    | OpReplace => merge_replace sch cur (others dd_dflt i ts) t src
                    | OpCreate => merge_create sch mdflt cur t src
                    | OpDelete => merge_delete sch cur t src
                    | OpNone => merge_none sch cur (others dd_dflt i ts) t src
                    end in
                  match cell with
                  | Err e => Err e
                  | Ok (t1, sg1) =>
                      match merge_children sch (fun c cur' => merge_r sch mdflt (child_inh inh_s op) c
                                                                     (child_inh inh_t (dd_op t1)) cur')
                                           (is_np_cont sch s) (others dd_dflt i ts)
                                           true ch (dd_ch t1) (dd_dflt t1) [] with
                      | Err e => Err e
                      | Ok (ch', fl', ups) =>
                          let t2 := dd_set_dflt (dd_set_ch t1 ch') fl' in
                          match is_redundant sch (eff_op inh_t (dd_op t2)) t2 with
                          | Err e => Err e
                          | Ok true =>
                              let ts' := remove_nth i ts in
                              Ok (ts', sg1 ++ ups ++ [SSet (forallb dd_dflt ts')])
                          | Ok false => Ok (replace_nth i ts t2, sg1 ++ ups)
                          end
                      end
                  end
              end
          | None =>
              (* add new diff node with all descendants *)
              let n := dd_set_op (redup src) (Some sop) in
              let sg := if dd_dflt n then [] else [SDel] in
              match is_redundant sch (Some sop) n with
              | Err e => Err e
              | Ok true => Ok (ts, sg ++ [SSet (forallb dd_dflt ts)])
              | Ok false => Ok (dd_ins_last ts n, sg)
              end
          end
      end
  end.

Fixpoint merge_roots (sch : schema) (mdflt : bool) (srcs : list dd) (ts : list dd) : res (list dd) :=
  match srcs with
  | [] => Ok ts
  | x :: r =>
      match merge_r sch mdflt None x None ts with
      | Err e => Err e
      | Ok (ts', _) => merge_roots sch mdflt r ts'
      end
  end.

(* lyd_diff_merge_all(&diff, src_diff, options) *)
Definition merge (sch : schema) (mdflt : bool) (diff src : list dd) : res (list dd) :=
  merge_roots sch mdflt src diff.

(* hypothesis of the merge theorems: the schema holds no user-ordered (leaf-)list (the fragment) *)
Definition schema_nouo (sch : schema) : bool := forallb (fun e : sid * sinfo => negb (userordered sch (fst e))) sch.
